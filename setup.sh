#!/bin/sh
# Offline install of helper packages beside the repository's interpreter (into /verif/.deps, git-ignored).
set -e
cd "$(dirname "$0")"
if [ ! -f .deps/.ok ]; then
  rm -rf .deps
  PIP_NO_INDEX=1 /venv/bin/pip install --quiet --no-index --find-links /opt/veriftools/wheels \
      --target .deps icontract jsonschema >/dev/null 2>&1 || {
    echo "setup: pip install failed" >&2; exit 3; }
  touch .deps/.ok
fi
exit 0
