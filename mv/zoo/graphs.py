"""Reference-side graph / polyline generators (no mouette import): returns (V float[n,3], E list of (u,v) with u<v, cls)."""
import random

import numpy as np


def make(seed, max_n=40, connected=False):
    rng = random.Random(seed)
    cls = rng.choice(["path", "cycle", "tree", "grid", "random", "random_dense", "union", "star"])
    if connected and cls == "union":
        cls = "random"
    n = rng.randint(2, max_n)
    E = set()
    if cls == "path":
        E = {(i, i + 1) for i in range(n - 1)}
    elif cls == "cycle":
        n = max(n, 3)
        E = {(i, i + 1) for i in range(n - 1)} | {(0, n - 1)}
    elif cls == "tree":
        E = {(rng.randrange(i), i) for i in range(1, n)}
    elif cls == "star":
        E = {(0, i) for i in range(1, n)}
    elif cls == "grid":
        a, b = rng.randint(2, 7), rng.randint(2, 7)
        n = a * b
        for i in range(a):
            for j in range(b):
                if i + 1 < a:
                    E.add((i * b + j, (i + 1) * b + j))
                if j + 1 < b:
                    E.add((i * b + j, i * b + j + 1))
    elif cls in ("random", "random_dense"):
        E = {(rng.randrange(i), i) for i in range(1, n)}
        extra = n // 2 if cls == "random" else 2 * n
        for _ in range(extra):
            u, v = rng.randrange(n), rng.randrange(n)
            if u != v:
                E.add((min(u, v), max(u, v)))
    else:
        n1 = max(2, n // 2)
        E = {(rng.randrange(i), i) for i in range(1, n1)}
        E |= {(n1 + rng.randrange(i) if i else n1, n1 + i) for i in range(1, n - n1)}
        E = {(min(u, v), max(u, v)) for (u, v) in E if u != v}
        for _ in range(n // 3):
            u, v = rng.randrange(n1), rng.randrange(n1)
            if u != v:
                E.add((min(u, v), max(u, v)))
    nr = np.random.default_rng(rng.randrange(2 ** 31))
    if cls == "grid" and rng.random() < 0.6:
        V = np.array([[i // b, i % b, 0.0] for i in range(n)], float)  # exact ties
    else:
        V = nr.uniform(-1, 1, (n, 3))
    # no isolated vertices (every vertex is an end of some edge), renumber randomly
    used = sorted({v for e in E for v in e})
    m = {v: i for i, v in enumerate(used)}
    perm = list(range(len(used)))
    rng.shuffle(perm)
    E2 = sorted({(min(perm[m[u]], perm[m[v]]), max(perm[m[u]], perm[m[v]])) for (u, v) in E})
    V2 = np.zeros((len(used), 3))
    for v in used:
        V2[perm[m[v]]] = V[v]
    rng.shuffle(E2)
    return V2, E2, cls


def components(n, E):
    parent = list(range(n))

    def find(x):
        while parent[x] != x:
            parent[x] = parent[parent[x]]
            x = parent[x]
        return x
    for u, v in E:
        ru, rv = find(u), find(v)
        if ru != rv:
            parent[ru] = rv
    return [find(i) for i in range(n)]


def dijkstra(n, adj, start):
    """adj: dict u -> list of (v, w).  Plain O(n^2) reference."""
    dist = [float("inf")] * n
    dist[start] = 0.0
    done = [False] * n
    for _ in range(n):
        u, best = -1, float("inf")
        for i in range(n):
            if not done[i] and dist[i] < best:
                u, best = i, dist[i]
        if u < 0:
            break
        done[u] = True
        for v, w in adj.get(u, ()):
            if dist[u] + w < dist[v]:
                dist[v] = dist[u] + w
    return dist


def bfs(n, adj, start):
    dist = {start: 0}
    q = [start]
    for u in q:
        for v in adj.get(u, ()):
            if v not in dist:
                dist[v] = dist[u] + 1
                q.append(v)
    return dist
