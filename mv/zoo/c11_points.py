"""Point-set zoo for C11 (k-d tree).  Independent of mouette.

`make(desc)` materialises a point array from a pure-data descriptor
    {"cls", "n", "d", "seed", "scale", "offset", "dtype", "container", + class parameters}
and returns `(P_in, P64)`: the object handed to the library (ndarray of the requested dtype / memory layout, or a
nested list) and the float64 array of exactly the same values used by the brute-force reference.

Classes (all coordinates finite, magnitudes kept far away from overflow/underflow of squared differences):
  uniform        uniform in the unit cube
  normal         standard normal
  clustered      99 % of the points in a 1e-9 ball, the rest uniform in the unit cube
  two_clusters   two tight clusters far apart plus a few stragglers
  collinear      points on a random line (general direction)
  axis_line      points on an axis-parallel line (all axes but one constant)
  const_axis     uniform with one constant axis
  lattice        integer lattice {0..m-1}^d  (many equal coordinates; integer valued => exact arithmetic)
  duplicates     a base set where every point is repeated `copies` times (shuffled)
  identical      one point repeated n times
  max_majority   for every axis more than half of the points carry the maximum of that axis, points otherwise distinct
                 (the construction in DESIGN C11 'probe on termination'; rows are pairwise different when possible)
  sorted_1d_like uniform points sorted along axis 0 (monotone input order)
"""
import numpy as np

CLASSES = ["uniform", "normal", "clustered", "two_clusters", "collinear", "axis_line", "const_axis", "lattice",
           "duplicates", "identical", "max_majority", "sorted_1d_like"]

# classes whose values are integers before scale/offset (exact arithmetic for integer queries)
INTEGER_CLASSES = {"lattice"}


def _base(cls, n, d, rng, desc):
    if n == 0:
        return np.zeros((0, d))
    if cls == "uniform":
        return rng.random((n, d))
    if cls == "normal":
        return rng.standard_normal((n, d))
    if cls == "clustered":
        c = rng.random(d)
        P = c + 1e-9 * (rng.random((n, d)) - 0.5)
        nfar = max(1, n // 100) if n >= 3 else 0
        if nfar:
            idx = rng.choice(n, nfar, replace=False)
            P[idx] = rng.random((nfar, d))
        return P
    if cls == "two_clusters":
        c1, c2 = rng.random(d), rng.random(d) + 50.0
        which = rng.random(n) < 0.5
        P = np.where(which[:, None], c1, c2) + 1e-3 * rng.standard_normal((n, d))
        ns = min(n, 3)
        P[rng.choice(n, ns, replace=False)] = 25.0 + 10 * rng.random((ns, d))
        return P
    if cls == "collinear":
        p0, u = rng.random(d), rng.standard_normal(d)
        t = rng.random(n) * 10
        return p0 + t[:, None] * u
    if cls == "axis_line":
        P = np.tile(rng.random(d), (n, 1))
        P[:, int(rng.integers(d))] = rng.random(n)
        return P
    if cls == "const_axis":
        P = rng.random((n, d))
        P[:, int(rng.integers(d))] = rng.random()
        return P
    if cls == "lattice":
        m = int(desc.get("m", 4))
        return rng.integers(0, m, size=(n, d)).astype(float)
    if cls == "duplicates":
        copies = max(2, int(desc.get("copies", 2)))
        nb = max(1, n // copies)
        base = rng.random((nb, d))
        P = base[np.arange(n) % nb]
        return P[rng.permutation(n)]
    if cls == "identical":
        return np.tile(rng.random(d), (n, 1))
    if cls == "max_majority":
        P = rng.random((n, d)) * 0.9
        need = n // 2 + 1
        for ax in range(d):
            # an independent random subset of more than half of the points sits at the maximum of this axis
            idx = rng.choice(n, min(n, need + int(rng.integers(0, max(1, n // 6 + 1)))), replace=False)
            P[idx, ax] = 1.0
        return P
    if cls == "sorted_1d_like":
        P = rng.random((n, d))
        return P[np.argsort(P[:, 0])]
    raise ValueError("unknown point class %r" % (cls,))


def make(desc):
    cls, n, d = desc["cls"], int(desc["n"]), int(desc["d"])
    rng = np.random.default_rng([int(desc["seed"]) & 0x7FFFFFFF, 11])
    P = _base(cls, n, d, rng, desc)
    scale = float(desc.get("scale", 1.0))
    offset = float(desc.get("offset", 0.0))
    P = P * scale + offset
    dtype = desc.get("dtype", "float64")
    if dtype == "float32":
        P = P.astype(np.float32)
    elif dtype == "int64":
        P = np.round(P).astype(np.int64)
    else:
        P = P.astype(np.float64)
    P64 = np.array(P, dtype=np.float64)  # exact for float32 and for the small integers used here
    container = desc.get("container", "ndarray")
    if container == "list":
        P_in = P.tolist()
        if n == 0:
            P_in = np.zeros((0, d))  # an empty nested list carries no dimension; keep the (0,d) array
    elif container == "fortran":
        P_in = np.asfortranarray(P)
    elif container == "strided":
        big = np.zeros((n, 2 * d), dtype=P.dtype)
        big[:, ::2] = P
        P_in = big[:, ::2]
    elif container == "readonly":
        P_in = P.copy()
        P_in.setflags(write=False)
    else:
        P_in = P
    return P_in, P64


def integer_valued(a, bound=2.0 ** 20):
    a = np.asarray(a, dtype=np.float64)
    if a.size == 0:
        return True
    return bool(np.all(a == np.round(a)) and np.all(np.abs(a) <= bound))
