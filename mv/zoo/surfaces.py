"""Reference-side surface generators (no mouette import).  Every generator returns (V float64[n,3], F list[list[int]], cls str).

`make(seed, **want)` draws a class and parameters from the seed, applies combinators, certifies the result with
the reference analyser and returns a dict {V, F, cls, topo}.  Inputs that are not what their class promises are
redrawn, so that a monitor is never fed an input outside the property's quantifier."""
import math
import random

import numpy as np

from ..ref import topo


# ----------------------------------------------------------------------------- primitive generators
def grid(nu, nv, kind="tri", rng=None, periodic_u=False, periodic_v=False, holes=0):
    """(nu x nv) cells.  kind: tri | quad | mixed | tri_alt."""
    rng = rng or random.Random(0)
    NU = nu if periodic_u else nu + 1
    NV = nv if periodic_v else nv + 1

    def vid(i, j):
        return (i % NU) * NV + (j % NV)
    cells = [(i, j) for i in range(nu) for j in range(nv)]
    removed = set()
    if holes:
        cand = [(i, j) for (i, j) in cells
                if (periodic_u or 1 <= i < nu - 1) and (periodic_v or 1 <= j < nv - 1)]
        rng.shuffle(cand)
        for c in cand:
            if len(removed) >= holes:
                break
            if all(max(min(abs(c[0] - r[0]), NU - abs(c[0] - r[0]) if periodic_u else 99),
                       min(abs(c[1] - r[1]), NV - abs(c[1] - r[1]) if periodic_v else 99)) >= 2 for r in removed):
                removed.add(c)
    F = []
    for (i, j) in cells:
        if (i, j) in removed:
            continue
        a, b, c, d = vid(i, j), vid(i + 1, j), vid(i + 1, j + 1), vid(i, j + 1)
        k = kind
        if kind == "mixed":
            k = rng.choice(["tri", "quad", "tri_alt"])
        if k == "quad":
            F.append([a, b, c, d])
        elif k == "tri":
            F.append([a, b, c])
            F.append([a, c, d])
        else:
            F.append([a, b, d])
            F.append([b, c, d])
    V = np.zeros((NU * NV, 3))
    for i in range(NU):
        for j in range(NV):
            if periodic_u and periodic_v:
                R, r = 2.0, 0.7
                t, p = 2 * math.pi * i / NU, 2 * math.pi * j / NV
                V[i * NV + j] = [(R + r * math.cos(p)) * math.cos(t), (R + r * math.cos(p)) * math.sin(t), r * math.sin(p)]
            elif periodic_u:
                t = 2 * math.pi * i / NU
                V[i * NV + j] = [math.cos(t), math.sin(t), 1.5 * j / max(1, nv)]
            elif periodic_v:
                t = 2 * math.pi * j / NV
                rad = 1.0 + 1.5 * i / max(1, nu)
                V[i * NV + j] = [rad * math.cos(t), rad * math.sin(t), 0.0]
            else:
                V[i * NV + j] = [i / max(1, nu) * (1 + 0.3 * nu), j / max(1, nv) * (1 + 0.3 * nv), 0.0]
    name = "grid_%s" % kind
    if periodic_u and periodic_v:
        name = "torus_%s" % kind
    elif periodic_u or periodic_v:
        name = "annulus_%s" % kind
    if holes:
        name += "_holes"
    return _compact(V, F, name)


def _compact(V, F, name):
    used = sorted({v for f in F for v in f})
    m = {v: i for i, v in enumerate(used)}
    return V[used].copy(), [[m[v] for v in f] for f in F], name


def octahedron():
    V = np.array([[1, 0, 0], [-1, 0, 0], [0, 1, 0], [0, -1, 0], [0, 0, 1], [0, 0, -1]], float)
    F = [[0, 2, 4], [2, 1, 4], [1, 3, 4], [3, 0, 4], [2, 0, 5], [1, 2, 5], [3, 1, 5], [0, 3, 5]]
    return V, F, "octahedron"


def icosahedron():
    p = (1 + 5 ** 0.5) / 2
    V = np.array([[-1, p, 0], [1, p, 0], [-1, -p, 0], [1, -p, 0], [0, -1, p], [0, 1, p], [0, -1, -p], [0, 1, -p],
                  [p, 0, -1], [p, 0, 1], [-p, 0, -1], [-p, 0, 1]], float)
    F = [[0, 11, 5], [0, 5, 1], [0, 1, 7], [0, 7, 10], [0, 10, 11], [1, 5, 9], [5, 11, 4], [11, 10, 2], [10, 7, 6],
         [7, 1, 8], [3, 9, 4], [3, 4, 2], [3, 2, 6], [3, 6, 8], [3, 8, 9], [4, 9, 5], [2, 4, 11], [6, 2, 10], [8, 6, 7], [9, 8, 1]]
    return V / np.linalg.norm(V[0]), F, "icosahedron"


def tetra_surface():
    V = np.array([[0, 0, 0], [1, 0, 0], [0, 1, 0], [0, 0, 1]], float)
    F = [[0, 2, 1], [0, 1, 3], [1, 2, 3], [2, 0, 3]]
    return V, F, "tetra_surface"


def cube_surface():
    V = np.array([[x, y, z] for x in (0, 1) for y in (0, 1) for z in (0, 1)], float)

    def vid(x, y, z):
        return x * 4 + y * 2 + z
    F = [[vid(0, 0, 0), vid(0, 0, 1), vid(0, 1, 1), vid(0, 1, 0)],
         [vid(1, 0, 0), vid(1, 1, 0), vid(1, 1, 1), vid(1, 0, 1)],
         [vid(0, 0, 0), vid(1, 0, 0), vid(1, 0, 1), vid(0, 0, 1)],
         [vid(0, 1, 0), vid(0, 1, 1), vid(1, 1, 1), vid(1, 1, 0)],
         [vid(0, 0, 0), vid(0, 1, 0), vid(1, 1, 0), vid(1, 0, 0)],
         [vid(0, 0, 1), vid(1, 0, 1), vid(1, 1, 1), vid(0, 1, 1)]]
    return V, F, "cube_surface"


def refine_midpoint(V, F, project=True):
    """1->4 refinement of a triangulation (reference implementation)."""
    V = [tuple(p) for p in V]
    mid = {}
    F2 = []

    def m(a, b):
        k = (min(a, b), max(a, b))
        if k not in mid:
            p = (np.array(V[a]) + np.array(V[b])) / 2
            if project:
                p = p / np.linalg.norm(p)
            mid[k] = len(V)
            V.append(tuple(p))
        return mid[k]
    for a, b, c in F:
        ab, bc, ca = m(a, b), m(b, c), m(c, a)
        F2 += [[a, ab, ca], [ab, b, bc], [ca, bc, c], [ab, bc, ca]]
    return np.array(V, float), F2


def sphere(level, base="ico"):
    V, F, n = icosahedron() if base == "ico" else octahedron()
    for _ in range(level):
        V, F = refine_midpoint(V, F)
    return V, F, "sphere_%s%d" % (base, level)


def uv_sphere(nlat, nlon):
    V = [[0, 0, 1.0]]
    for i in range(1, nlat):
        th = math.pi * i / nlat
        for j in range(nlon):
            ph = 2 * math.pi * j / nlon
            V.append([math.sin(th) * math.cos(ph), math.sin(th) * math.sin(ph), math.cos(th)])
    V.append([0, 0, -1.0])
    S = len(V) - 1
    F = []

    def vid(i, j):
        return 1 + (i - 1) * nlon + (j % nlon)
    for j in range(nlon):
        F.append([0, vid(1, j), vid(1, j + 1)])
    for i in range(1, nlat - 1):
        for j in range(nlon):
            F.append([vid(i, j), vid(i + 1, j), vid(i + 1, j + 1), vid(i, j + 1)])
    for j in range(nlon):
        F.append([S, vid(nlat - 1, j + 1), vid(nlat - 1, j)])
    return np.array(V, float), F, "uv_sphere_mixed"


def voxel_surface(rng, n):
    """Boundary of a random face-connected voxel set (closed quad surface); caller filters by the manifold test."""
    vox = {(0, 0, 0)}
    dirs = [(1, 0, 0), (-1, 0, 0), (0, 1, 0), (0, -1, 0), (0, 0, 1), (0, 0, -1)]
    while len(vox) < n:
        b = rng.choice(sorted(vox))
        d = rng.choice(dirs)
        vox.add((b[0] + d[0], b[1] + d[1], b[2] + d[2]))
    quads = {  # outward-oriented (counter-clockwise seen from outside) faces per direction
        (1, 0, 0): [(1, 0, 0), (1, 1, 0), (1, 1, 1), (1, 0, 1)], (-1, 0, 0): [(0, 0, 0), (0, 0, 1), (0, 1, 1), (0, 1, 0)],
        (0, 1, 0): [(0, 1, 0), (0, 1, 1), (1, 1, 1), (1, 1, 0)], (0, -1, 0): [(0, 0, 0), (1, 0, 0), (1, 0, 1), (0, 0, 1)],
        (0, 0, 1): [(0, 0, 1), (1, 0, 1), (1, 1, 1), (0, 1, 1)], (0, 0, -1): [(0, 0, 0), (0, 1, 0), (1, 1, 0), (1, 0, 0)]}
    vid = {}
    V, F = [], []
    for b in sorted(vox):
        for d in dirs:
            if (b[0] + d[0], b[1] + d[1], b[2] + d[2]) in vox:
                continue
            f = []
            for c in quads[d]:
                p = (b[0] + c[0], b[1] + c[1], b[2] + c[2])
                if p not in vid:
                    vid[p] = len(V)
                    V.append(p)
                f.append(vid[p])
            F.append(f)
    return np.array(V, float), F, "voxel_quad"


def delaunay_disk(rng, n, mode="uniform", ragged=0, lift=True):
    from scipy.spatial import Delaunay
    nr = np.random.default_rng(rng.randrange(2 ** 31))
    if mode == "uniform":
        P = nr.uniform(-1, 1, (n, 2))
    elif mode == "clustered":
        c = nr.uniform(-1, 1, (3, 2))
        P = c[nr.integers(0, 3, n)] + nr.normal(0, 0.15, (n, 2))
    else:  # ring-ish
        t = nr.uniform(0, 2 * math.pi, n)
        r = 1 + nr.normal(0, 0.08, n)
        P = np.c_[r * np.cos(t), r * np.sin(t)]
        P = np.vstack([P, nr.uniform(-0.5, 0.5, (max(3, n // 3), 2))])
    tri = Delaunay(P)
    F = [list(map(int, t)) for t in tri.simplices]
    # drop slivers on the hull (keeps min angle reasonable)
    F = [f for f in F if _min_angle2d(P, f) > math.radians(4)]
    F = _largest_disk_component(len(P), F)
    for _ in range(ragged):
        a = topo.analyse(len(P), F)
        bset = set(a["border_edges"])
        cand = [i for i, f in enumerate(F) if sum(((min(f[k], f[(k + 1) % 3]), max(f[k], f[(k + 1) % 3])) in bset) for k in range(3)) == 1]
        rng.shuffle(cand)
        for i in cand:
            G = F[:i] + F[i + 1:]
            if G and topo.is_disk(topo.analyse(len(P), G)):
                F = G
                break
    # orient counter-clockwise
    F = [f if _area2d(P, f) > 0 else [f[0], f[2], f[1]] for f in F]
    z = np.zeros(len(P))
    if lift:
        k = nr.uniform(0.5, 2, 2)
        z = 0.3 * np.sin(k[0] * P[:, 0]) * np.cos(k[1] * P[:, 1]) + 0.1 * P[:, 0]
    V = np.c_[P, z]
    return _compact(V, F, "delaunay_%s%s" % (mode, "_ragged" if ragged else ""))


def _area2d(P, f):
    a, b, c = P[f[0]], P[f[1]], P[f[2]]
    return (b[0] - a[0]) * (c[1] - a[1]) - (b[1] - a[1]) * (c[0] - a[0])


def _min_angle2d(P, f):
    m = 10.0
    for k in range(3):
        a, b, c = P[f[k]], P[f[(k + 1) % 3]], P[f[(k + 2) % 3]]
        u, v = b - a, c - a
        cs = np.dot(u, v) / (np.linalg.norm(u) * np.linalg.norm(v) + 1e-300)
        m = min(m, math.acos(max(-1, min(1, cs))))
    return m


def _largest_disk_component(nV, F):
    """Keeps the largest edge-connected component and removes faces until the border is a manifold loop."""
    for _ in range(50):
        a = topo.analyse(nV, F)
        if a["n_components"] > 1:
            comp = a["face_component"]
            best = max(set(comp), key=comp.count)
            F = [f for f, c in zip(F, comp) if c == best]
            continue
        if a["manifold"]:
            return F
        # non-manifold vertex (pinch): drop one face at a pinched vertex
        v2f = {}
        for i, f in enumerate(F):
            for v in f:
                v2f.setdefault(v, []).append(i)
        dropped = False
        for v, fl in v2f.items():
            sub = topo.analyse(nV, [F[i] for i in fl])
            if sub["n_components"] > 1:
                comp = sub["face_component"]
                small = min(set(comp), key=comp.count)
                kill = {fl[i] for i, c in enumerate(comp) if c == small}
                F = [f for i, f in enumerate(F) if i not in kill]
                dropped = True
                break
        if not dropped:
            return F
    return F


def fan(n, closed=False):
    V = [[0, 0, 0.2]]
    for i in range(n + (0 if closed else 1)):
        t = (2 * math.pi if closed else 1.7 * math.pi) * i / (n if closed else n)
        V.append([math.cos(t), math.sin(t), 0])
    F = []
    m = len(V) - 1
    for i in range(n):
        F.append([0, 1 + i, 1 + (i + 1) % m if closed else 2 + i])
    return np.array(V, float), F, "fan_closed" if closed else "fan_open"


def pair_to_quads(V, F, rng, frac=0.6):
    """Randomly merges adjacent triangle pairs into quads (reference polygon mesh)."""
    F = [list(f) for f in F]
    de = {}
    for fi, f in enumerate(F):
        for k in range(len(f)):
            de[(f[k], f[(k + 1) % len(f)])] = (fi, k)
    used = set()
    out = []
    order = list(range(len(F)))
    rng.shuffle(order)
    for fi in order:
        if fi in used or len(F[fi]) != 3:
            continue
        if rng.random() > frac:
            continue
        f = F[fi]
        ks = list(range(3))
        rng.shuffle(ks)
        for k in ks:
            a, b = f[k], f[(k + 1) % 3]
            o = de.get((b, a))
            if o is None or o[0] in used or o[0] == fi or len(F[o[0]]) != 3:
                continue
            g = F[o[0]]
            c = f[(k + 2) % 3]
            d = g[(o[1] + 2) % 3]
            if d in f:
                continue
            quad = [a, d, b, c]
            # keep only convex-ish quads (both diagonals inside): check via normals of the two splits
            n1 = np.cross(V[d] - V[a], V[b] - V[a])
            n2 = np.cross(V[b] - V[a], V[c] - V[a])
            n3 = np.cross(V[b] - V[d], V[c] - V[d])
            n4 = np.cross(V[c] - V[d], V[a] - V[d])
            if min(np.dot(n1, n2), np.dot(n3, n4), np.dot(n1, n3)) <= 1e-9:
                continue
            used.add(fi)
            used.add(o[0])
            out.append(quad)
            break
    out += [F[i] for i in range(len(F)) if i not in used]
    rng.shuffle(out)
    return out


def dual_polygons(V, F):
    """Reference dual of a closed oriented triangulation/polygon mesh: one vertex per face, one polygon per vertex."""
    a = topo.analyse(len(V), F)
    assert a["closed"] and a["manifold"] and a["oriented"]
    C = np.array([np.mean(V[f], axis=0) for f in F])
    de = {}
    for fi, f in enumerate(F):
        n = len(f)
        for k in range(n):
            de[(f[k], f[(k + 1) % n])] = fi
    out = []
    for v in range(len(V)):
        # walk faces around v counter-clockwise: face containing (v,w) -> next face contains (v, w') where (w', v) in this face
        start = None
        for (a_, b_), fi in de.items():
            if a_ == v:
                start = (a_, b_)
                break
        ring = []
        e = start
        while True:
            fi = de[e]
            ring.append(fi)
            f = F[fi]
            k = f.index(v)
            prev = f[(k - 1) % len(f)]
            e = (v, prev)
            if e == start:
                break
        out.append(ring)
    return C, out, "dual_polygon"


# ----------------------------------------------------------------------------- combinators
def renumber(V, F, rng):
    n = len(V)
    perm = list(range(n))
    rng.shuffle(perm)  # new index of old vertex i is perm[i]
    V2 = np.zeros_like(V)
    for i in range(n):
        V2[perm[i]] = V[i]
    return V2, [[perm[v] for v in f] for f in F], perm


def rotate_faces(F, rng):
    out = []
    for f in F:
        k = rng.randrange(len(f))
        out.append(list(f[k:]) + list(f[:k]))
    return out


def flip(F):
    return [list(reversed(f)) for f in F]


def random_rotation(rng):
    nr = np.random.default_rng(rng.randrange(2 ** 31))
    A = nr.normal(size=(3, 3))
    Q, R = np.linalg.qr(A)
    Q = Q * np.sign(np.diag(R))
    if np.linalg.det(Q) < 0:
        Q[:, 0] = -Q[:, 0]
    return Q


def rigid(V, rng, scale=1.0):
    Q = random_rotation(rng)
    t = np.array([rng.uniform(-3, 3) for _ in range(3)])
    return (V @ Q.T) * scale + t, Q, t


def disjoint_union(parts):
    Vs, Fs = [], []
    off = 0
    for i, (V, F) in enumerate(parts):
        Vs.append(V + np.array([4.0 * i, 0, 0]))
        Fs += [[v + off for v in f] for f in F]
        off += len(V)
    return np.vstack(Vs), Fs


def jitter(V, rng, amp):
    nr = np.random.default_rng(rng.randrange(2 ** 31))
    return V + nr.uniform(-amp, amp, V.shape)


# ----------------------------------------------------------------------------- drawing a certified input
TRI_CLASSES = ["grid_tri", "grid_tri_holes", "annulus_tri", "torus_tri", "sphere", "delaunay", "delaunay_ragged",
               "fan", "anchor_tri", "octa", "tetra", "double_torus"]
POLY_CLASSES = ["grid_quad", "grid_mixed", "annulus_quad", "torus_quad", "torus_mixed", "uv_sphere", "voxel", "paired_quads",
                "dual", "cube", "anchor_quad"]


def _draw(rng, cls, size):
    s = max(1, size)
    if cls == "grid_tri":
        return grid(rng.randint(1, s), rng.randint(1, s), rng.choice(["tri", "tri_alt"]), rng)
    if cls == "grid_tri_holes":
        return grid(rng.randint(4, s + 4), rng.randint(4, s + 4), "tri", rng, holes=rng.randint(1, 3))
    if cls == "grid_quad":
        return grid(rng.randint(1, s), rng.randint(1, s), "quad", rng, holes=rng.choice([0, 0, 1]) if s >= 4 else 0)
    if cls == "grid_mixed":
        return grid(rng.randint(1, s), rng.randint(1, s), "mixed", rng)
    if cls == "annulus_tri":
        return grid(rng.randint(3, s + 3), rng.randint(1, s), rng.choice(["tri", "tri_alt"]), rng, periodic_u=True)
    if cls == "annulus_quad":
        return grid(rng.randint(1, s), rng.randint(3, s + 3), rng.choice(["quad", "mixed"]), rng, periodic_v=True)
    if cls == "torus_tri":
        return grid(rng.randint(3, s + 3), rng.randint(3, s + 3), "tri", rng, periodic_u=True, periodic_v=True,
                    holes=rng.choice([0, 0, 1]) if s >= 3 else 0)
    if cls == "torus_quad":
        return grid(rng.randint(3, s + 3), rng.randint(3, s + 3), "quad", rng, periodic_u=True, periodic_v=True)
    if cls == "torus_mixed":
        return grid(rng.randint(3, s + 3), rng.randint(3, s + 3), "mixed", rng, periodic_u=True, periodic_v=True)
    if cls == "sphere":
        return sphere(rng.choice([0, 1, 1, 2] if s >= 6 else [0, 1]), rng.choice(["ico", "octa"]))
    if cls == "octa":
        return octahedron()
    if cls == "tetra":
        return tetra_surface()
    if cls == "cube":
        return cube_surface()
    if cls == "uv_sphere":
        return uv_sphere(rng.randint(2, s + 2), rng.randint(3, s + 3))
    if cls == "voxel":
        for _ in range(40):
            V, F, n = voxel_surface(rng, rng.randint(1, max(2, s)))
            a = topo.analyse(len(V), F)
            if a["manifold"] and a["oriented"]:
                return V, F, n
        return cube_surface()
    if cls == "delaunay":
        return delaunay_disk(rng, rng.randint(5, 6 + 6 * s), rng.choice(["uniform", "clustered", "ring"]))
    if cls == "delaunay_ragged":
        return delaunay_disk(rng, rng.randint(8, 8 + 6 * s), "uniform", ragged=rng.randint(1, 6))
    if cls == "fan":
        V, F, n = fan(rng.randint(3, 4 + 4 * s), closed=rng.random() < 0.5)
        return V, F, n
    if cls == "anchor_tri":
        k = rng.randrange(3)
        if k == 0:
            return np.array([[0, 0, 0], [1, 0, 0], [0, 1, 0]], float), [[0, 1, 2]], "one_triangle"
        if k == 1:
            return np.array([[0, 0, 0], [1, 0, 0], [1, 1, 0], [0, 1, 0.3]], float), [[0, 1, 2], [0, 2, 3]], "two_triangles"
        return fan(5, closed=True)
    if cls == "anchor_quad":
        k = rng.randrange(2)
        if k == 0:
            return np.array([[0, 0, 0], [1, 0, 0], [1, 1, 0], [0, 1, 0]], float), [[0, 1, 2, 3]], "one_quad"
        return np.array([[0, 0, 0], [1, 0, 0], [1, 1, 0], [0, 1, 0], [2, 0, 0.2]], float), [[0, 1, 2, 3], [1, 4, 2]], "quad_plus_triangle"
    if cls == "paired_quads":
        V, F, n = _draw(rng, rng.choice(["delaunay", "sphere", "grid_tri", "torus_tri"]), size)
        return V, pair_to_quads(V, F, rng), "paired_" + n
    if cls == "dual":
        V, F, n = _draw(rng, rng.choice(["sphere", "torus_tri", "octa"]), min(size, 5))
        if not topo.analyse(len(V), F)["closed"]:
            V, F, n = octahedron()
        C, P, _ = dual_polygons(V, F)
        return C, P, "dual_" + n
    if cls == "double_torus":
        return double_torus(rng, max(3, min(s, 6)))
    raise KeyError(cls)


def double_torus(rng, n):
    """Two triangulated tori glued along a removed quad cell each (genus 2), by identifying the hole borders."""
    V1, F1, _ = grid(n + 1, n + 1, "tri", rng, periodic_u=True, periodic_v=True)
    NV = n + 1

    def vid(i, j):
        return (i % NV) * NV + (j % NV)
    cell = [vid(0, 0), vid(1, 0), vid(1, 1), vid(0, 1)]
    keep = [f for f in F1 if not set(f) <= set(cell)]
    V2 = V1 * np.array([1, 1, -1.0]) + np.array([0, 0, 3.0])
    off = len(V1)
    # second copy mirrored => reverse orientation of its faces to stay consistently oriented after gluing
    m = {c + off: c for c in cell}
    F2 = [[m.get(v + off, v + off) for v in reversed(f)] for f in keep]
    V = np.vstack([V1, V2])
    F = keep + F2
    V, F, _ = _compact(V, F, "x")
    return V, F, "double_torus_tri"


def make(seed, tri_only=False, poly_only=False, closed=None, connected=None, disk=False, max_size=8, min_faces=1,
         classes=None, combinators=True, allow_union=True, generic=False):
    """Certified random surface.  Returns dict(V, F, cls, topo)."""
    rng = random.Random(seed)
    for attempt in range(200):
        if classes is not None:
            cls = rng.choice(classes)
        elif disk:
            cls = rng.choice(["grid_tri", "delaunay", "delaunay_ragged", "fan", "delaunay"])
        elif tri_only:
            cls = rng.choice(TRI_CLASSES)
        elif poly_only:
            cls = rng.choice(POLY_CLASSES)
        else:
            cls = rng.choice(TRI_CLASSES + POLY_CLASSES)
        size = rng.choice([1, 2, 3, 4, 5, 6, 8, 10, 12]) if max_size >= 12 else rng.randint(1, max_size)
        size = min(size, max_size)
        try:
            V, F, name = _draw(rng, cls, size)
        except Exception:
            continue
        if disk and name == "fan_closed":
            pass
        V = np.asarray(V, float)
        if len(V) == 0 or len(F) == 0:
            continue
        if combinators:
            if allow_union and not disk and connected is not True and rng.random() < 0.15:
                try:
                    V2, F2, n2 = _draw(rng, rng.choice(TRI_CLASSES if tri_only else TRI_CLASSES + POLY_CLASSES), min(size, 3))
                except Exception:
                    continue
                if tri_only and any(len(f) != 3 for f in F2):
                    continue
                V, F = disjoint_union([(V, F), (np.asarray(V2, float), F2)])
                name = name + "+" + n2
            if rng.random() < 0.5:
                F = flip(F)
                name += "~flip"
            if rng.random() < 0.7:
                V, F, _ = renumber(V, F, rng)
                name += "~renum"
            if rng.random() < 0.7:
                F = rotate_faces(F, rng)
                name += "~rot"
            if rng.random() < 0.5:
                V, _, _ = rigid(V, rng, scale=rng.choice([1.0, 1.0, 0.01, 50.0]))
                name += "~rigid"
        if generic:
            V = jitter(V, rng, 1e-3 * (np.ptp(V) + 1e-9))
        a = topo.analyse(len(V), F)
        if not (a["manifold"] and a["oriented"] and a["border_ok"] and a["unused_vertices"] == 0 and a["repeated_faces"] == 0):
            continue
        if tri_only and any(len(f) != 3 for f in F):
            continue
        if closed is True and not a["closed"]:
            continue
        if closed is False and a["closed"]:
            continue
        if connected is True and a["n_components"] != 1:
            continue
        if disk and not topo.is_disk(a):
            continue
        if len(F) < min_faces:
            continue
        return {"V": V, "F": [list(map(int, f)) for f in F], "cls": name, "topo": a}
    raise RuntimeError("zoo could not produce a certified surface for seed %r" % seed)
