"""C08 inputs that the general surface zoo does not provide (no mouette import).

planar(seed): certified oriented manifold triangulations embedded in the plane z = 0 (regular grids with/without holes,
annuli, Delaunay disks, fans), optionally flipped, renumbered, face-rotated, moved by an in-plane similarity and put in
generic position by an in-plane jitter.  These are the inputs for which a *flat* connection (canonical basis) makes sense."""
import math
import random

import numpy as np

from ..ref import topo
from . import surfaces


def planar(seed, max_size=6, generic=False, min_faces=1):
    rng = random.Random(seed)
    for attempt in range(300):
        cls = rng.choice(["grid", "grid_alt", "grid_holes", "annulus", "delaunay", "delaunay_ragged", "fan", "one", "two"])
        s = rng.randint(1, max_size)
        try:
            if cls == "grid":
                V, F, name = surfaces.grid(rng.randint(1, s), rng.randint(1, s), "tri", rng)
            elif cls == "grid_alt":
                V, F, name = surfaces.grid(rng.randint(1, s), rng.randint(1, s), "tri_alt", rng)
            elif cls == "grid_holes":
                V, F, name = surfaces.grid(rng.randint(4, s + 4), rng.randint(4, s + 4), "tri", rng, holes=rng.randint(1, 3))
            elif cls == "annulus":
                V, F, name = surfaces.grid(rng.randint(1, s), rng.randint(3, s + 3), rng.choice(["tri", "tri_alt"]), rng, periodic_v=True)
            elif cls == "delaunay":
                V, F, name = surfaces.delaunay_disk(rng, rng.randint(5, 6 + 6 * s), rng.choice(["uniform", "clustered", "ring"]), lift=False)
            elif cls == "delaunay_ragged":
                V, F, name = surfaces.delaunay_disk(rng, rng.randint(8, 8 + 6 * s), "uniform", ragged=rng.randint(1, 5), lift=False)
            elif cls == "fan":
                V, F, name = surfaces.fan(rng.randint(3, 4 + 3 * s), closed=rng.random() < 0.5)
                V = np.asarray(V, float).copy()
                V[:, 2] = 0.0
            elif cls == "one":
                V, F, name = np.array([[0, 0, 0], [1, 0, 0], [0.2, 0.9, 0]], float), [[0, 1, 2]], "one_triangle"
            else:
                V, F, name = np.array([[0, 0, 0], [1, 0, 0], [1, 1, 0], [0, 1, 0]], float), [[0, 1, 2], [0, 2, 3]], "two_triangles"
        except Exception:
            continue
        V = np.asarray(V, float).copy()
        F = [list(map(int, f)) for f in F]
        if len(F) < min_faces:
            continue
        name = "planar_" + name
        if rng.random() < 0.5:
            F = surfaces.flip(F)
            name += "~flip"
        if rng.random() < 0.7:
            V, F, _ = surfaces.renumber(V, F, rng)
            name += "~renum"
        if rng.random() < 0.7:
            F = surfaces.rotate_faces(F, rng)
            name += "~rot"
        if generic:
            nr = np.random.default_rng(rng.randrange(2 ** 31))
            amp = 1e-3 * (np.ptp(V[:, :2]) + 1e-9)
            V[:, :2] += nr.uniform(-amp, amp, (len(V), 2))
            name += "~generic"
        if rng.random() < 0.6:
            t = rng.uniform(0, 2 * math.pi)
            sc = rng.choice([1.0, 1.0, 0.01, 50.0])
            R = np.array([[math.cos(t), -math.sin(t)], [math.sin(t), math.cos(t)]])
            V[:, :2] = (V[:, :2] @ R.T) * sc + np.array([rng.uniform(-3, 3), rng.uniform(-3, 3)])
            name += "~sim2d"
        V[:, 2] = 0.0
        a = topo.analyse(len(V), F)
        if not (a["manifold"] and a["oriented"] and a["border_ok"] and a["unused_vertices"] == 0 and a["repeated_faces"] == 0):
            continue
        if any(len(f) != 3 for f in F):
            continue
        return {"V": V, "F": F, "cls": name, "topo": a}
    raise RuntimeError("c08 planar zoo failed for seed %r" % seed)
