"""C07 — polygon surfaces whose faces are all planar and strictly convex (no mouette import).

The general surface zoo produces many polygon meshes with warped faces (paired triangles on a lifted Delaunay
disk, duals of spheres).  Face area and face normal only have an unambiguous textbook value on planar convex
faces, so C07 needs a supply of meshes where *every* face (including pentagons and larger) is planar:

  prism / frustum / oblique frustum over a random convex n-gon (closed, or open "cup" with the lid removed)
  pyramid over a convex n-gon, antiprism (n-gons + triangles), dodecahedron (dual of the icosahedron)
  planar Delaunay triangulation whose interior vertex stars with a convex link are merged into one polygon each
  make(seed, nonconvex=True): planar simple NON-convex faces (notched pentagon, dart quad, L, arrow, T, U, random star-like
  5..8-gons) as a bare face, as the two lids of a prism / one lid of a cup, or with out-of-plane triangle flaps

make(seed) -> dict(V, F, cls, topo), certified by the reference analyser exactly like surfaces.make."""
import math
import random

import numpy as np

from ..ref import topo
from . import surfaces


def convex_polygon(rng, n, irregular=True):
    """n points in convex position in the plane z=0, counter-clockwise, interior angles bounded away from 0 and pi."""
    amp = (0.25 if n <= 4 else 0.45) if irregular else 0.0
    off = rng.uniform(0, 2 * math.pi)
    t = [off + 2 * math.pi * (i + amp * rng.uniform(-0.5, 0.5)) / n for i in range(n)]
    a, b = (rng.uniform(0.7, 1.4), rng.uniform(0.7, 1.4)) if irregular else (1.0, 1.0)
    return np.array([[a * math.cos(x), b * math.sin(x), 0.0] for x in t])


def frustum(rng, n, lid=True, oblique=False, ratio=1.0):
    B = convex_polygon(rng, n, irregular=rng.random() < 0.7)
    shift = np.array([rng.uniform(-0.5, 0.5), rng.uniform(-0.5, 0.5), 0.0]) if oblique else np.zeros(3)
    T = ratio * B + shift + np.array([0, 0, rng.uniform(0.5, 1.5)])
    V = np.vstack([B, T])
    F = [list(reversed(range(n)))]
    if lid:
        F.append([n + i for i in range(n)])
    for i in range(n):
        j = (i + 1) % n
        F.append([i, j, n + j, n + i])
    name = "prism" if (ratio == 1.0 and not oblique) else ("oblique_frustum" if oblique else "frustum")
    return V, F, "%s%d%s" % (name, n, "" if lid else "_cup")


def pyramid(rng, n, base=True):
    B = convex_polygon(rng, n, irregular=rng.random() < 0.7)
    apex = np.array([[rng.uniform(-0.3, 0.3), rng.uniform(-0.3, 0.3), rng.uniform(0.5, 1.5)]])
    V = np.vstack([B, apex])
    F = [[i, (i + 1) % n, n] for i in range(n)]
    if base:
        F.append(list(reversed(range(n))))
    return V, F, "pyramid%d%s" % (n, "" if base else "_open")


def antiprism(rng, n, lid=True):
    h = rng.uniform(0.5, 1.2)
    B = np.array([[math.cos(2 * math.pi * i / n), math.sin(2 * math.pi * i / n), 0.0] for i in range(n)])
    T = np.array([[math.cos(2 * math.pi * (i + 0.5) / n), math.sin(2 * math.pi * (i + 0.5) / n), h] for i in range(n)])
    V = np.vstack([B, T])
    F = [list(reversed(range(n)))]
    if lid:
        F.append([n + i for i in range(n)])
    for i in range(n):
        j = (i + 1) % n
        F.append([i, j, n + i])
        F.append([j, n + j, n + i])
    return V, F, "antiprism%d%s" % (n, "" if lid else "_cup")


def dodecahedron():
    V, F, _ = surfaces.icosahedron()
    C, P, _ = surfaces.dual_polygons(V, F)
    return C, P, "dodecahedron"


def star_merged_delaunay(rng, npts):
    """Planar Delaunay disk; non-adjacent interior vertices whose link is strictly convex are replaced by one polygon."""
    V, F, _ = surfaces.delaunay_disk(rng, npts, "uniform", lift=False)
    a = topo.analyse(len(V), F)
    border = {v for loop in a["border_loops"] for v in loop}
    v2f = {}
    for fi, f in enumerate(F):
        for v in f:
            v2f.setdefault(v, []).append(fi)
    cand = [v for v in range(len(V)) if v not in border]
    rng.shuffle(cand)
    blocked = set()
    removed_faces = set()
    polys = []
    for v in cand:
        if v in blocked or rng.random() < 0.3:
            continue
        # walk the link counter-clockwise
        nxt = {}
        for fi in v2f[v]:
            f = F[fi]
            k = f.index(v)
            nxt[f[(k + 1) % 3]] = f[(k + 2) % 3]
        start = next(iter(nxt))
        ring = [start]
        ok = True
        while True:
            w = nxt.get(ring[-1])
            if w is None:
                ok = False
                break
            if w == start:
                break
            ring.append(w)
            if len(ring) > len(nxt):
                ok = False
                break
        if not ok or len(ring) != len(nxt) or len(ring) < 3:
            continue
        if any(w in blocked for w in ring):
            continue
        P = V[ring]
        n = len(ring)
        good = True
        for i in range(n):
            p, q, r = P[i - 1], P[i], P[(i + 1) % n]
            u, w_ = q - p, r - q
            cr = u[0] * w_[1] - u[1] * w_[0]
            sn = cr / (np.linalg.norm(u) * np.linalg.norm(w_) + 1e-300)
            if sn < math.sin(math.radians(6)):
                good = False
                break
        if not good:
            continue
        polys.append(ring)
        removed_faces.update(v2f[v])
        blocked.add(v)
        blocked.update(ring)
    G = [f for fi, f in enumerate(F) if fi not in removed_faces] + polys
    rng.shuffle(G)
    V2, G2, _ = surfaces._compact(V, G, "x")
    return V2, G2, "star_merged_delaunay"


# ----------------------------------------------------------------------------- planar simple NON-convex polygons
def nonconvex_polygon(rng):
    """(points in the plane z=0, counter-clockwise, name): notched pentagon, dart, L, arrow, T, U, random star-shaped polygon."""
    k = rng.randrange(11)
    u = rng.uniform
    easy = rng.random() < 0.6      # shallow notch / thick L: the polygon stays star-shaped around the mean of its vertices
    if k == 0:
        w, h = u(2, 5), u(2, 4)
        P = [(0, 0), (w, 0), (w, h), (w / 2 + u(-0.3, 0.3) * w, (u(0.55, 0.85) if easy else u(0.15, 0.45)) * h), (0, h)]
        name = "notched_pentagon"
    elif k == 1:
        a, b = u(1.5, 3), u(0.6, 1.5)
        P = [(0, 0), (a, -b), (u(0.2, 0.7) * a, u(-0.2, 0.2) * b), (a, b)]
        name = "dart_quad"
    elif k == 2:
        a, d = u(2, 4), u(2, 4)
        c, b = ((u(0.55, 0.8) * a, u(0.55, 0.8) * d) if easy else (u(0.25, 0.7) * a, u(0.25, 0.45) * d))
        P = [(0, 0), (a, 0), (a, b), (c, b), (c, d), (0, d)]
        name = "L_hexagon"
    elif k == 3:
        L, s_, H, T = u(1.5, 4), u(0.3, 0.8), u(1.0, 2.0), u(1, 2.5)
        P = [(0, -s_), (L, -s_), (L, -H), (L + T, 0), (L, H), (L, s_), (0, s_)]
        name = "arrow_heptagon"
    elif k == 4:
        s_, h, W, t = u(0.4, 0.9), u(1, 3), u(1.5, 3), u(0.5, 1.5)
        P = [(-s_, 0), (s_, 0), (s_, h), (W, h), (W, h + t), (-W, h + t), (-W, h), (-s_, h)]
        name = "T_octagon"
    elif k == 5:
        W, H = u(3, 5), u(2, 4)
        a, b = u(0.2, 0.3) * W, u(0.25, 0.7) * H
        P = [(0, 0), (W, 0), (W, H), (W - a, H), (W - a, b), (a, b), (a, H), (0, H)]
        name = "U_octagon"
    else:
        n = rng.choice([5, 6, 7, 8])
        off = u(0, 2 * math.pi)
        P = []
        for i in range(n):
            t = off + 2 * math.pi * (i + 0.3 * u(-0.5, 0.5)) / n
            r = u(0.35, 0.6) if (i % 2 == 1 or rng.random() < 0.15) else u(0.9, 1.3)
            P.append((r * math.cos(t), r * math.sin(t)))
        name = "starlike_%dgon" % n
    sx, sy = u(0.7, 1.5), u(0.7, 1.5)
    return np.array([[x * sx, y * sy, 0.0] for x, y in P]), name


def nonconvex_surface(rng):
    """A small surface carrying one or two planar non-convex faces: the bare face, a prism / cup over it, or the face with triangle flaps."""
    B, name = nonconvex_polygon(rng)
    n = len(B)
    form = rng.randrange(4)
    if form == 0:
        return B, [list(range(n))], name
    if form in (1, 2):
        lid = form == 1
        T = B + np.array([0, 0, rng.uniform(0.5, 1.5)])
        V = np.vstack([B, T])
        F = [list(reversed(range(n)))]
        if lid:
            F.append([n + i for i in range(n)])
        for i in range(n):
            j = (i + 1) % n
            F.append([i, j, n + j, n + i])
        return V, F, name + ("_prism" if lid else "_cup")
    V = [tuple(p) for p in B]
    F = [list(range(n))]
    for i in range(n):
        if rng.random() < 0.5:
            j = (i + 1) % n
            e = B[j] - B[i]
            out = np.array([e[1], -e[0], 0.0])
            out = out / np.linalg.norm(out)
            m = (B[i] + B[j]) / 2 + out * rng.uniform(0.1, 0.4) * np.linalg.norm(e) + np.array([0, 0, rng.uniform(0.3, 1.0) * rng.choice([-1, 1])])
            V.append(tuple(m))
            F.append([j, i, len(V) - 1])
    return np.array(V, float), F, name + "_flaps"


# ----------------------------------------------------------------------------- needles and slivers (valid, area > 0, tiny corner angles)
def needle_surface(rng):
    """Triangle surfaces with corner angles between 1e-3 and 1e-9 rad: a single needle (tiny apex angle), a cap (two tiny angles, one
    close to pi), an open fan of needles around a common apex, the closed surface of a sliver tetrahedron (chi = 2).  Returned in general
    position (random rotation + translation of a few units); all points distinct, every triangle has positive area."""
    th = 10.0 ** rng.uniform(-9, -3)
    k = rng.randrange(4)
    L = rng.uniform(0.5, 2.0)
    if k == 0:
        r = rng.uniform(0.6, 1.4)
        V = [[0, 0, 0], [L, 0, 0], [r * L * math.cos(th), r * L * math.sin(th), 0]]
        F = [[0, 1, 2]]
        name = "needle"
    elif k == 1:
        t = rng.uniform(0.25, 0.75)
        V = [[0, 0, 0], [L, 0, 0], [t * L, th * L * t * (1 - t), 0]]
        F = [[0, 1, 2]]
        name = "cap"
    elif k == 2:
        n = rng.randint(2, 6)
        V = [[0, 0, 0]]
        ang = 0.0
        for i in range(n + 1):
            r = rng.uniform(0.7, 1.3) * L
            V.append([r * math.cos(ang), r * math.sin(ang), rng.uniform(-1, 1) * th * 0.3])
            ang += th * rng.uniform(0.5, 1.5)
        F = [[0, 1 + i, 2 + i] for i in range(n)]
        name = "needle_fan%d" % n
    else:
        h = th * L
        V = [[0, 0, 0], [L, 0, 0], [rng.uniform(0.3, 0.7) * L, h, 0], [rng.uniform(0.3, 0.7) * L, h * rng.uniform(0.2, 0.8), h * rng.uniform(0.5, 1.5)]]
        F = [[0, 2, 1], [0, 1, 3], [1, 2, 3], [2, 0, 3]]
        name = "sliver_tetra_surface"
    V = np.array(V, float)
    if rng.random() < 0.85:
        V, _, _ = surfaces.rigid(V, rng, scale=rng.choice([1.0, 1.0, 0.1, 10.0]))
        name += "~rigid"
    if rng.random() < 0.5:
        F = surfaces.flip(F)
    V, F, _ = surfaces.renumber(V, F, rng)
    F = surfaces.rotate_faces(F, rng)
    return V, [list(map(int, f)) for f in F], name, th


def _draw(rng):
    k = rng.randrange(8)
    n = rng.choice([3, 4, 5, 5, 6, 6, 7, 8, 9, 11])
    if k == 0:
        return frustum(rng, n, lid=rng.random() < 0.6)
    if k == 1:
        return frustum(rng, n, lid=rng.random() < 0.6, ratio=rng.uniform(0.3, 0.8))
    if k == 2:
        return frustum(rng, n, lid=rng.random() < 0.6, oblique=True, ratio=rng.uniform(0.4, 1.3))
    if k == 3:
        return pyramid(rng, n, base=rng.random() < 0.7)
    if k == 4:
        return antiprism(rng, max(n, 4) if n != 3 else 3, lid=rng.random() < 0.6)
    if k == 5:
        return dodecahedron()
    return star_merged_delaunay(rng, rng.randint(12, 60))


def make(seed, nonconvex=False):
    rng = random.Random(seed)
    for _ in range(100):
        try:
            V, F, name = nonconvex_surface(rng) if nonconvex else _draw(rng)
        except Exception:
            continue
        V = np.asarray(V, float)
        F = [list(map(int, f)) for f in F]
        if rng.random() < 0.4:
            F = surfaces.flip(F)
            name += "~flip"
        if rng.random() < 0.7:
            V, F, _ = surfaces.renumber(V, F, rng)
            name += "~renum"
        if rng.random() < 0.7:
            F = surfaces.rotate_faces(F, rng)
            name += "~rot"
        if rng.random() < 0.7:
            V, _, _ = surfaces.rigid(V, rng, scale=rng.choice([1.0, 1.0, 0.05, 20.0]))
            name += "~rigid"
        a = topo.analyse(len(V), F)
        if not (a["manifold"] and a["oriented"] and a["border_ok"] and a["unused_vertices"] == 0 and a["repeated_faces"] == 0):
            continue
        return {"V": V, "F": F, "cls": name, "topo": a}
    raise RuntimeError("c07_planar could not produce a certified surface for seed %r" % seed)
