"""Generators for C19 (no mouette import): boxes, polylines, triangulations with very unequal faces, control nets."""
import math
import random

import numpy as np

from . import surfaces


# ----------------------------------------------------------------------------- boxes
BOX_CLASSES = ["unit", "centered", "arbitrary", "negative", "offset_huge", "thin", "tiny", "large", "intcorners", "mixed_scale"]


def box(rng, cls, dim):
    """-> (lo list, hi list) with lo < hi componentwise (non-empty box)."""
    if cls == "unit":
        return [0.0] * dim, [1.0] * dim
    if cls == "centered":
        return [-0.5] * dim, [0.5] * dim
    if cls == "intcorners":
        lo = [rng.randint(-9, 9) for _ in range(dim)]
        return lo, [a + rng.randint(1, 7) for a in lo]
    lo, hi = [], []
    for k in range(dim):
        if cls == "arbitrary":
            a = rng.uniform(-100, 100)
            s = rng.uniform(0.01, 50)
        elif cls == "negative":
            a = -rng.uniform(10, 1000)
            s = rng.uniform(0.1, 5)
        elif cls == "offset_huge":
            a = rng.choice([-1, 1]) * rng.uniform(1e5, 1e7)
            s = rng.uniform(0.5, 3)
        elif cls == "thin":
            a = rng.uniform(-5, 5)
            s = rng.uniform(0.5, 3) if k != 0 else 10.0 ** rng.uniform(-9, -5)
        elif cls == "tiny":
            a = rng.uniform(-1, 1) * 1e-6
            s = 10.0 ** rng.uniform(-9, -7)
        elif cls == "large":
            a = rng.uniform(-1e8, 1e8)
            s = 10.0 ** rng.uniform(6, 9)
        else:  # mixed_scale
            e = rng.choice([-6, -3, 0, 3, 6])
            a = rng.uniform(-1, 1) * 10.0 ** e
            s = rng.uniform(0.1, 1) * 10.0 ** rng.choice([-4, -1, 0, 2, 5])
        b = a + s
        if not b > a:
            b = a + max(abs(a), 1.0) * 1e-9
        lo.append(a)
        hi.append(b)
    return lo, hi


def is_unit_box(lo, hi):
    return all(a == 0 for a in lo) and all(b == 1 for b in hi)


# ----------------------------------------------------------------------------- polylines
POLYLINE_CLASSES = ["chain", "loop", "star", "components", "single", "zigzag_unequal"]


def _unit(rng):
    while True:
        v = np.array([rng.gauss(0, 1) for _ in range(3)])
        n = np.linalg.norm(v)
        if n > 1e-3:
            return v / n


def polyline(rng, cls, n_edges, scale=1.0, shift=0.0):
    """-> (V float[n,3], E list of pairs, cls).  General position (random directions), edge lengths spread over up
    to four orders of magnitude; no zero-length edge."""
    n_edges = max(1, n_edges)

    def length():
        return 10.0 ** rng.uniform(-3, 1)
    if cls == "single":
        V = [np.zeros(3), _unit(rng) * length()]
        E = [(0, 1)]
    elif cls in ("chain", "zigzag_unequal"):
        V = [np.zeros(3)]
        E = []
        for i in range(n_edges):
            L = length() if cls == "chain" else (10.0 if i % 2 == 0 else 10.0 ** rng.uniform(-3, -1))
            V.append(V[-1] + _unit(rng) * L)
            E.append((i, i + 1))
    elif cls == "loop":
        n = max(3, n_edges)
        ang = sorted(rng.uniform(0, 2 * math.pi) for _ in range(n))
        # angular gaps differ a lot -> unequal lengths; radial noise -> general position
        V = [np.array([math.cos(a) * (1 + 0.3 * rng.random()), math.sin(a) * (1 + 0.3 * rng.random()), 0.4 * rng.uniform(-1, 1)])
             for a in ang]
        E = [(i, (i + 1) % n) for i in range(n)]
    elif cls == "star":
        V = [np.zeros(3)]
        E = []
        for i in range(n_edges):
            V.append(_unit(rng) * length())
            E.append((0, i + 1))
    else:  # components
        V, E = [], []
        left = n_edges
        off = 0
        comp = 0
        while left > 0:
            k = min(left, rng.randint(1, 5))
            base = np.array([30.0 * comp, 0, 0])
            V.append(base)
            for i in range(k):
                V.append(V[-1] + _unit(rng) * length())
                E.append((off + i, off + i + 1))
            off += k + 1
            left -= k
            comp += 1
    V = np.array(V, float)
    Q = surfaces.random_rotation(rng)
    V = (V @ Q.T) * scale + shift * np.array([rng.uniform(-1, 1) for _ in range(3)])
    # shuffle edge orientation / order (edges are undirected)
    E = [tuple(e) if rng.random() < 0.5 else (e[1], e[0]) for e in E]
    rng.shuffle(E)
    # no repeated points (needed for unambiguous nearest-edge assignment)
    for i in range(len(V)):
        for j in range(i):
            if np.linalg.norm(V[i] - V[j]) == 0:
                V[i] += 1e-3 * scale
    return V, [tuple(map(int, e)) for e in E], cls


# ----------------------------------------------------------------------------- triangulations with unequal faces
UNEQUAL_CLASSES = ["graded_grid", "fan_unequal", "delaunay_clustered", "zoo_affine"]


def _aspect_ok(V, F, min_ratio):
    V = np.asarray(V, float)
    for f in F:
        a, b, c = V[f[0]], V[f[1]], V[f[2]]
        n = np.linalg.norm(np.cross(b - a, c - a))
        lmax = max(np.linalg.norm(b - a), np.linalg.norm(c - b), np.linalg.norm(a - c))
        if lmax == 0 or n / lmax < min_ratio * lmax:      # height over longest edge
            return False
    return True


def _lift(rng, V2):
    """Graph surface z = smooth(x, y): embedded, so that a sampled point lies in exactly one face (a.s.)."""
    a, b, c = rng.uniform(-0.4, 0.4), rng.uniform(-0.4, 0.4), rng.uniform(-0.3, 0.3)
    s = max(1e-12, float(np.max(np.abs(V2))))
    x, y = V2[:, 0] / s, V2[:, 1] / s
    z = s * (a * x + b * y + c * x * y + 0.2 * np.sin(2.0 * x + 1.0) * np.cos(1.5 * y))
    return np.column_stack([V2[:, 0], V2[:, 1], z])


def unequal_triangulation(rng, cls, max_faces=40):
    """-> (V, F, cls): an embedded triangulated surface with <= max_faces faces whose areas are spread over
    several orders of magnitude, every face with height/longest edge >= 0.01."""
    for attempt in range(100):
        if cls == "graded_grid":
            nx, ny = rng.randint(1, 4), rng.randint(1, 5)
            while 2 * nx * ny > max_faces:
                ny -= 1
            xs = np.concatenate([[0.0], np.cumsum([10.0 ** rng.uniform(-1.5, 0.5) for _ in range(nx)])])
            ys = np.concatenate([[0.0], np.cumsum([10.0 ** rng.uniform(-1.5, 0.5) for _ in range(ny)])])
            V2 = np.array([[x, y] for x in xs for y in ys])

            def vid(i, j):
                return i * (ny + 1) + j
            F = []
            for i in range(nx):
                for j in range(ny):
                    a, b, c, d = vid(i, j), vid(i + 1, j), vid(i + 1, j + 1), vid(i, j + 1)
                    if rng.random() < 0.5:
                        F += [[a, b, c], [a, c, d]]
                    else:
                        F += [[a, b, d], [b, c, d]]
            V = _lift(rng, V2)
        elif cls == "fan_unequal":
            k = rng.randint(3, min(20, max_faces))
            gaps = np.array([10.0 ** rng.uniform(-1.5, 0) for _ in range(k)])
            total = rng.uniform(0.5, 1.0) * 2 * math.pi * 0.9
            ang = np.concatenate([[0.0], np.cumsum(gaps / gaps.sum() * total)])
            rad = [10.0 ** rng.uniform(-1, 0.5) for _ in range(k + 1)]
            V2 = np.array([[0.0, 0.0]] + [[r * math.cos(a), r * math.sin(a)] for r, a in zip(rad, ang)])
            F = [[0, i + 1, i + 2] for i in range(k)]
            V = _lift(rng, V2)
        elif cls == "delaunay_clustered":
            from scipy.spatial import Delaunay
            n = rng.randint(4, 20)
            nr = np.random.default_rng(rng.randrange(2 ** 31))
            r = 10.0 ** nr.uniform(-2, 0, n)
            t = nr.uniform(0, 2 * math.pi, n)
            V2 = np.column_stack([r * np.cos(t), r * np.sin(t)])
            try:
                tri = Delaunay(V2)
            except Exception:
                continue
            F = [list(map(int, s)) for s in tri.simplices]
            used = sorted({v for f in F for v in f})
            if len(used) != n:
                continue
            # orient ccw
            F2 = []
            for f in F:
                a, b, c = V2[f[0]], V2[f[1]], V2[f[2]]
                det = (b[0] - a[0]) * (c[1] - a[1]) - (b[1] - a[1]) * (c[0] - a[0])
                F2.append(f if det > 0 else [f[0], f[2], f[1]])
            F = F2
            V = _lift(rng, V2)
        else:  # zoo_affine
            z = surfaces.make(rng.randrange(2 ** 31), tri_only=True, max_size=3, allow_union=False,
                              classes=["grid_tri", "annulus_tri", "sphere", "delaunay", "fan", "octa", "tetra", "torus_tri"])
            V, F = np.asarray(z["V"], float), z["F"]
            if len(F) > max_faces:
                continue
            S = np.diag([10.0 ** rng.uniform(-1, 1) for _ in range(3)])
            V = V @ surfaces.random_rotation(rng).T @ S
        if len(F) > max_faces or len(F) < 1:
            continue
        if rng.random() < 0.5:
            F = [[f[0], f[2], f[1]] for f in F]
        if not _aspect_ok(V, F, 0.01):
            continue
        Q = surfaces.random_rotation(rng)
        V = (np.asarray(V, float) @ Q.T) * rng.choice([1.0, 1.0, 0.01, 100.0]) + np.array([rng.uniform(-3, 3) for _ in range(3)])
        return V, [list(map(int, f)) for f in F], cls
    raise RuntimeError("no unequal triangulation for class %s" % cls)


# ----------------------------------------------------------------------------- control nets
NET_CLASSES = ["generic", "large_offset", "tiny", "huge", "mixed_scale", "integer", "repeated", "collinear"]


def control_points(rng, cls, count, dim):
    """-> list of `count` points (lists of floats) of dimension `dim`."""
    def coord():
        if cls == "generic":
            return rng.uniform(-2, 2)
        if cls == "large_offset":
            return 1e6 + rng.uniform(-1, 1)
        if cls == "tiny":
            return rng.uniform(-1, 1) * 1e-9
        if cls == "huge":
            return rng.uniform(-1, 1) * 1e12
        if cls == "mixed_scale":
            return rng.uniform(-1, 1) * 10.0 ** rng.choice([-8, -3, 0, 4, 9])
        if cls == "integer":
            return float(rng.randint(-5, 5))
        return rng.uniform(-2, 2)
    pts = [[coord() for _ in range(dim)] for _ in range(count)]
    if cls == "repeated" and count >= 2:
        for i in range(1, count):
            if rng.random() < 0.5:
                pts[i] = list(pts[rng.randrange(i)])
    if cls == "collinear" and count >= 2:
        a = np.array(pts[0])
        d = np.array([rng.uniform(-1, 1) for _ in range(dim)])
        pts = [list(map(float, a + rng.uniform(-3, 3) * d)) for _ in range(count)]
    return pts


def control_net(rng, cls, m, n, dim):
    """(m+1) x (n+1) net."""
    flat = control_points(rng, cls, (m + 1) * (n + 1), dim)
    return [[flat[i * (n + 1) + j] for j in range(n + 1)] for i in range(m + 1)]


VALID_T = [0.0, 1.0, -0.0, 0.5, 5e-324, 1e-300, 1.0 - 2.0 ** -53, 2.0 ** -52, 0.25, 1.0 / 3.0]
INVALID_T = ["nan", "inf", "-inf", -1e-300, -5e-324, 1.0 + 2.0 ** -52, 2.0, -1.0, 1e300, -1e300, 1.5, -0.5]


def parse_t(x):
    if isinstance(x, str):
        return float(x)
    return x
