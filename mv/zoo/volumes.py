"""Reference-side tetrahedral / hexahedral mesh generators (no mouette import).

make(seed, ...) returns dict(V, C, cls, info) with a conforming tetrahedral mesh whose boundary is a closed manifold surface
(certified by mv.ref.volume_ref)."""
import itertools
import math
import random

import numpy as np

from ..ref import topo

KUHN = [(0, 1, 3, 7), (0, 1, 5, 7), (0, 2, 3, 7), (0, 2, 6, 7), (0, 4, 5, 7), (0, 4, 6, 7)]  # corner index = x + 2y + 4z


def signed_volume_S(V, c):
    """The library's own signed-volume expression det(p0-p3, p1-p3, p2-p3)."""
    p0, p1, p2, p3 = (V[i] for i in c)
    return float(np.linalg.det(np.array([p0 - p3, p1 - p3, p2 - p3])))


def block_cells(cells_set):
    """Vertex table and id function for a set of unit cubes (i,j,k)."""
    vid = {}
    V = []

    def get(p):
        if p not in vid:
            vid[p] = len(V)
            V.append(p)
        return vid[p]
    return vid, V, get


def kuhn_block(cubes):
    vid, V, get = block_cells(cubes)
    C = []
    for (i, j, k) in sorted(cubes):
        corner = [get((i + (b & 1), j + ((b >> 1) & 1), k + ((b >> 2) & 1))) for b in range(8)]
        for t in KUHN:
            C.append([corner[x] for x in t])
    return np.array(V, float), C


def five_tet_block(cubes):
    vid, V, get = block_cells(cubes)
    C = []
    for (i, j, k) in sorted(cubes):
        c = [get((i + (b & 1), j + ((b >> 1) & 1), k + ((b >> 2) & 1))) for b in range(8)]
        if (i + j + k) % 2 == 0:
            tets = [(0, 1, 2, 4), (1, 2, 3, 7), (1, 4, 5, 7), (2, 4, 6, 7), (1, 2, 4, 7)]
        else:
            tets = [(0, 1, 3, 5), (0, 2, 3, 6), (0, 4, 5, 6), (3, 5, 6, 7), (0, 3, 5, 6)]
        for t in tets:
            C.append([c[x] for x in t])
    return np.array(V, float), C


def hex_block(cubes):
    vid, V, get = block_cells(cubes)
    C = []
    for (i, j, k) in sorted(cubes):
        # mouette/geogram-like ordering used by mouette's face table: v1..v4 bottom loop, v5..v8 top loop
        C.append([get((i, j, k)), get((i + 1, j, k)), get((i + 1, j + 1, k)), get((i, j + 1, k)),
                  get((i, j, k + 1)), get((i + 1, j, k + 1)), get((i + 1, j + 1, k + 1)), get((i, j + 1, k + 1))])
    return np.array(V, float), C


def random_cubes(rng, n, full=None):
    if full is not None:
        nx, ny, nz = full
        return {(i, j, k) for i in range(nx) for j in range(ny) for k in range(nz)}
    cubes = {(0, 0, 0)}
    dirs = [(1, 0, 0), (-1, 0, 0), (0, 1, 0), (0, -1, 0), (0, 0, 1), (0, 0, -1)]
    while len(cubes) < n:
        b = rng.choice(sorted(cubes))
        d = rng.choice(dirs)
        cubes.add((b[0] + d[0], b[1] + d[1], b[2] + d[2]))
    return cubes


def delaunay3d(rng, n, mode="uniform"):
    from scipy.spatial import Delaunay
    nr = np.random.default_rng(rng.randrange(2 ** 31))
    if mode == "uniform":
        P = nr.uniform(-1, 1, (n, 3))
    elif mode == "ball":
        P = nr.normal(size=(n, 3))
        P /= np.linalg.norm(P, axis=1)[:, None]
        P *= nr.uniform(0.2, 1, (n, 1)) ** (1 / 3)
        P = np.vstack([P, [[0, 0, 0]]])
    else:  # star: one centre + points on a sphere => every tet touches the centre
        P = nr.normal(size=(n, 3))
        P /= np.linalg.norm(P, axis=1)[:, None]
        P = np.vstack([[[0, 0, 0]], P])
    d = Delaunay(P)
    C = [list(map(int, s)) for s in d.simplices]
    # drop degenerate (flat) simplices that qhull may output on the hull
    C = [c for c in C if abs(signed_volume_S(P, c)) > 1e-9]
    return P, C


def edge_ring(n):
    """n tets around the interior edge (0,1)."""
    V = [[0, 0, -1.0], [0, 0, 1.0]]
    for i in range(n):
        t = 2 * math.pi * i / n
        V.append([math.cos(t), math.sin(t), 0.0])
    C = [[0, 1, 2 + i, 2 + (i + 1) % n] for i in range(n)]
    return np.array(V, float), C


def anchors(k):
    if k == 0:
        return np.array([[0, 0, 0], [1, 0, 0], [0, 1, 0], [0, 0, 1]], float), [[0, 1, 2, 3]], "one_tet"
    if k == 1:
        return np.array([[0, 0, 0], [1, 0, 0], [0, 1, 0], [0, 0, 1], [1, 1, 1]], float), [[0, 1, 2, 3], [1, 2, 3, 4]], "two_tets"
    if k == 2:
        V, C = edge_ring(5)
        return V, C, "edge_ring5"
    V, C = edge_ring(3)
    return V, C, "edge_ring3"


def renumber(V, C, rng):
    n = len(V)
    perm = list(range(n))
    rng.shuffle(perm)
    V2 = np.zeros_like(V)
    for i in range(n):
        V2[perm[i]] = V[i]
    return V2, [[perm[v] for v in c] for c in C]


EVEN = [p for p in itertools.permutations(range(4)) if sum(1 for i in range(4) for j in range(i) if p[j] > p[i]) % 2 == 0]
ALL = list(itertools.permutations(range(4)))


def permute_cells(C, rng, even_only=False):
    out = []
    for c in C:
        p = rng.choice(EVEN if even_only else ALL)
        out.append([c[i] for i in p])
    return out


def orient_cells(V, C, positive=True):
    """Makes every cell (S)-positive (or negative) by swapping two vertices where needed."""
    out = []
    for c in C:
        s = signed_volume_S(V, c)
        if (s > 0) != positive:
            c = [c[1], c[0], c[2], c[3]]
        out.append(list(c))
    return out


def boundary_faces(C):
    cnt = {}
    for c in C:
        for i in range(4):
            f = tuple(sorted(c[:i] + c[i + 1:]))
            cnt[f] = cnt.get(f, 0) + 1
    return cnt


def certify(V, C):
    """conforming: every triangle in <= 2 cells, no degenerate/duplicate cell, all vertices used; boundary closed manifold."""
    if not C:
        return None
    if any(len(set(c)) != 4 for c in C):
        return None
    if len({tuple(sorted(c)) for c in C}) != len(C):
        return None
    cnt = boundary_faces([list(c) for c in C])
    if any(n > 2 for n in cnt.values()):
        return None
    used = {v for c in C for v in c}
    if len(used) != len(V):
        return None
    bf = [list(f) for f, n in cnt.items() if n == 1]
    # orient arbitrarily for the manifold test: edge-manifoldness and vertex fans do not depend on orientation
    a = topo.analyse(len(V), bf)
    if not (a["edge_manifold"] and a["vertex_manifold"]):
        return None
    und = {}
    for f in bf:
        for k in range(3):
            e = (min(f[k], f[(k + 1) % 3]), max(f[k], f[(k + 1) % 3]))
            und[e] = und.get(e, 0) + 1
    if any(n != 2 for n in und.values()):
        return None
    # cell-connected components
    return {"n_border_faces": len(bf), "n_faces": len(cnt)}


def compact(V, C):
    used = sorted({v for c in C for v in c})
    m = {v: i for i, v in enumerate(used)}
    return np.asarray(V, float)[used].copy(), [[m[v] for v in c] for c in C]


def make(seed, max_size=3, orient=None, even_only=False, jitter=0.0, connected=False, classes=None):
    """orient: None (random vertex order, any permutation), 'S+' all cells (S)-positive, 'S-' all negative."""
    rng = random.Random(seed)
    for attempt in range(100):
        cls = rng.choice(classes or ["kuhn", "kuhn", "five", "kuhn_sub", "five_sub", "delaunay", "delaunay_ball", "star", "anchor", "ring", "union"])
        s = rng.randint(1, max_size)
        if cls == "kuhn":
            V, C = kuhn_block(random_cubes(rng, 0, full=(rng.randint(1, s), rng.randint(1, s), rng.randint(1, s))))
        elif cls == "five":
            V, C = five_tet_block(random_cubes(rng, 0, full=(rng.randint(1, s), rng.randint(1, s), rng.randint(1, s))))
        elif cls == "kuhn_sub":
            V, C = kuhn_block(random_cubes(rng, rng.randint(1, 2 + s * s)))
        elif cls == "five_sub":
            V, C = five_tet_block(random_cubes(rng, rng.randint(1, 2 + s * s)))
        elif cls == "delaunay":
            V, C = delaunay3d(rng, rng.randint(5, 6 + 8 * s), "uniform")
        elif cls == "delaunay_ball":
            V, C = delaunay3d(rng, rng.randint(6, 6 + 8 * s), "ball")
        elif cls == "star":
            V, C = delaunay3d(rng, rng.randint(5, 6 + 4 * s), "star")
        elif cls == "anchor":
            V, C, cls = anchors(rng.randrange(4))
        elif cls == "ring":
            V, C = edge_ring(rng.randint(3, 4 + 3 * s))
        else:
            if connected:
                continue
            V1, C1 = kuhn_block(random_cubes(rng, rng.randint(1, 3)))
            V2, C2 = edge_ring(rng.randint(3, 6))
            V = np.vstack([V1, V2 + np.array([10.0, 0, 0])])
            C = C1 + [[v + len(V1) for v in c] for c in C2]
        V = np.asarray(V, float)
        V, C = compact(V, C)
        if jitter:
            nr = np.random.default_rng(rng.randrange(2 ** 31))
            V = V + nr.uniform(-jitter, jitter, V.shape)
        info = certify(V, C)
        if info is None:
            continue
        if any(abs(signed_volume_S(V, c)) < 1e-7 for c in C):
            continue
        name = cls
        if rng.random() < 0.7:
            V, C = renumber(V, C, rng)
            name += "~renum"
        if orient is None:
            C = permute_cells(C, rng)
            name += "~perm"
        else:
            C = orient_cells(V, C, positive=(orient == "S+"))
            C = permute_cells(C, rng, even_only=True)
            name += "~" + orient
        if rng.random() < 0.4:
            order = list(range(len(C)))
            rng.shuffle(order)
            C = [C[i] for i in order]
        return {"V": V, "C": [list(map(int, c)) for c in C], "cls": name, "info": info}
    raise RuntimeError("volume zoo failed for seed %r" % seed)
