"""C04 inputs that are not surfaces: point clouds, polylines, tetrahedral / hexahedral / mixed volumes, hostile coordinates,
attribute specifications (no mouette import).  Everything is a function of a `random.Random`."""
import math
import random
import struct

# ----------------------------------------------------------------------------- volumes
KUHN = [(0, 1, 3, 7), (0, 1, 5, 7), (0, 2, 3, 7), (0, 2, 6, 7), (0, 4, 5, 7), (0, 4, 6, 7)]  # corner = x + 2y + 4z
HEX_VTK = [0, 1, 3, 2, 4, 5, 7, 6]  # ring 0123 at the bottom, 4567 above it (corner = x + 2y + 4z)


def _grid_vertices(nx, ny, nz):
    vid = {}
    V = []
    for k in range(nz + 1):
        for j in range(ny + 1):
            for i in range(nx + 1):
                vid[(i, j, k)] = len(V)
                V.append([float(i), float(j), float(k)])
    return vid, V


def _corners(vid, i, j, k):
    return [vid[(i + (b & 1), j + ((b >> 1) & 1), k + ((b >> 2) & 1))] for b in range(8)]


def tet_block(nx, ny, nz):
    vid, V = _grid_vertices(nx, ny, nz)
    C = []
    for k in range(nz):
        for j in range(ny):
            for i in range(nx):
                c = _corners(vid, i, j, k)
                for t in KUHN:
                    C.append([c[x] for x in t])
    return V, C, "tet_block"


def hex_block(nx, ny, nz):
    vid, V = _grid_vertices(nx, ny, nz)
    C = []
    for k in range(nz):
        for j in range(ny):
            for i in range(nx):
                c = _corners(vid, i, j, k)
                C.append([c[x] for x in HEX_VTK])
    return V, C, "hex_block"


def mixed_block(nx, rng):
    """A row of cubes; each cube is either one hexahedron or six tetrahedra (not conforming across the interface: irrelevant for io)."""
    vid, V = _grid_vertices(nx, 1, 1)
    C = []
    kinds = [rng.random() < 0.5 for _ in range(nx)]
    if nx >= 2:
        kinds[0], kinds[1] = True, False
    for i in range(nx):
        c = _corners(vid, i, 0, 0)
        if kinds[i]:
            C.append([c[x] for x in HEX_VTK])
        else:
            for t in KUHN:
                C.append([c[x] for x in t])
    return V, C, "mixed_hex_tet"


def one_tet():
    return [[0.0, 0.0, 0.0], [1.0, 0.0, 0.0], [0.0, 1.0, 0.0], [0.0, 0.0, 1.0]], [[0, 1, 2, 3]], "one_tet"


def two_tets():
    return ([[0.0, 0.0, 0.0], [1.0, 0.0, 0.0], [0.0, 1.0, 0.0], [0.0, 0.0, 1.0], [1.0, 1.0, 1.0]],
            [[0, 1, 2, 3], [1, 2, 3, 4]], "two_tets")


def tet_ring(n):
    """n tetrahedra around the interior edge (a, b)."""
    V = [[0.0, 0.0, -1.0], [0.0, 0.0, 1.0]]
    for k in range(n):
        V.append([math.cos(2 * math.pi * k / n), math.sin(2 * math.pi * k / n), 0.0])
    C = [[0, 1, 2 + k, 2 + (k + 1) % n] for k in range(n)]
    return V, C, "tet_ring"


def one_hex():
    V, C, _ = hex_block(1, 1, 1)
    return V, C, "one_hex"


def cell_faces(c):
    """Faces of a cell (as vertex tuples) in the geogram / mouette local numbering."""
    if len(c) == 4:
        v0, v1, v2, v3 = c
        return [(v1, v3, v2), (v0, v2, v3), (v3, v1, v0), (v0, v1, v2)]
    v1, v2, v3, v4, v5, v6, v7, v8 = c
    return [(v1, v2, v3, v4), (v5, v6, v7, v8), (v1, v4, v8, v5), (v1, v2, v6, v5), (v2, v3, v7, v6), (v3, v4, v8, v7)]


def renumber_volume(V, C, rng):
    n = len(V)
    perm = list(range(n))
    rng.shuffle(perm)  # old -> new
    V2 = [None] * n
    for old, new in enumerate(perm):
        V2[new] = V[old]
    return V2, [[perm[v] for v in c] for c in C]


def permute_cells(C, rng, hexes_too=False):
    """Random permutation of the vertex order inside tetrahedra (any permutation is a valid tetrahedron)."""
    out = []
    for c in C:
        c = list(c)
        if len(c) == 4:
            rng.shuffle(c)
        out.append(c)
    return out


def volume(rng, kind, size):
    s = max(1, size)
    if kind == "tets":
        k = rng.randrange(6)
        if k == 0:
            V, C, name = one_tet()
        elif k == 1:
            V, C, name = two_tets()
        elif k == 2:
            V, C, name = tet_ring(rng.randint(3, 4 + s))
        else:
            V, C, name = tet_block(rng.randint(1, min(s, 3)), rng.randint(1, min(s, 2)), rng.randint(1, 2))
    elif kind == "hexes":
        if rng.random() < 0.25:
            V, C, name = one_hex()
        else:
            V, C, name = hex_block(rng.randint(1, min(s, 3)), rng.randint(1, min(s, 3)), rng.randint(1, 2))
    else:
        V, C, name = mixed_block(rng.randint(2, 2 + min(s, 3)), rng)
    if rng.random() < 0.6:
        V, C = renumber_volume(V, C, rng)
        name += "~renum"
    if rng.random() < 0.5:
        C = permute_cells(C, rng)
        name += "~perm"
    if rng.random() < 0.4:
        order = list(range(len(C)))
        rng.shuffle(order)
        C = [C[i] for i in order]
        name += "~shuffled"
    return V, C, name


# ----------------------------------------------------------------------------- polylines and point clouds
def polyline(rng, size):
    n = rng.randint(2, 4 + 4 * size)
    k = rng.randrange(5)
    pts = [[rng.uniform(-1, 1), rng.uniform(-1, 1), rng.uniform(-1, 1)] for _ in range(n)]
    if k == 0:
        E = [(i, i + 1) for i in range(n - 1)]
        name = "path"
    elif k == 1 and n >= 3:
        E = [(i, (i + 1) % n) for i in range(n)]
        name = "cycle"
    elif k == 2:
        E = [(rng.randrange(i), i) for i in range(1, n)]
        name = "tree"
    elif k == 3:
        E = [(i, i + 1) for i in range(0, n - 1, 2)]
        name = "matching"
    else:
        pairs = [(a, b) for a in range(n) for b in range(a + 1, n)]
        rng.shuffle(pairs)
        E = pairs[:rng.randint(1, min(len(pairs), 3 * n))]
        name = "graph"
    # edge direction as given (second < first allowed), distinct undirected edges only
    E = [(b, a) if rng.random() < 0.4 else (a, b) for a, b in E]
    iso = rng.choice([0, 0, 1, 3])
    for _ in range(iso):
        pts.insert(rng.randrange(len(pts) + 1), [rng.uniform(-1, 1), rng.uniform(-1, 1), rng.uniform(-1, 1)])
    if iso:
        # the polyline lives on a random subset of n of the n+iso points (in order); the other points are isolated vertices
        keep = sorted(rng.sample(range(len(pts)), n))
        E = [(keep[a], keep[b]) for a, b in E]
        name += "+isolated"
    rng.shuffle(E)
    return pts, E, name


def pointcloud(rng, size):
    n = rng.choice([1, 2, 3, 5, 8 * size])
    return [[rng.uniform(-1, 1), rng.uniform(-1, 1), rng.uniform(-1, 1)] for _ in range(n)], "cloud"


# ----------------------------------------------------------------------------- hostile coordinates
COORD_MODES = ["zoo", "int", "negative", "tiny", "huge", "denormal", "digits17", "negzero", "mixed", "float32"]


def _digits17(rng):
    return struct.unpack(">d", struct.pack(">Q", rng.getrandbits(52) | (rng.randint(1000, 1046) << 52)))[0] * rng.choice([-1.0, 1.0])


def hostile_value(rng, mode, base):
    if mode == "zoo":
        return float(base)
    if mode == "int":
        return int(round(base * 7)) + rng.randint(-3, 3)
    if mode == "negative":
        return -abs(float(base)) - rng.random()
    if mode == "tiny":
        return (float(base) + rng.random()) * 10.0 ** rng.randint(-300, -200)
    if mode == "huge":
        return (float(base) + 1 + rng.random()) * 10.0 ** rng.randint(200, 300)
    if mode == "denormal":
        return rng.choice([5e-324, -5e-324, 2.2250738585072014e-308, 1e-310, rng.getrandbits(40) * 5e-324, -rng.getrandbits(51) * 5e-324])
    if mode == "digits17":
        return _digits17(rng)
    if mode == "negzero":
        return rng.choice([-0.0, 0.0, float(base), -0.0])
    if mode == "float32":
        return struct.unpack("<f", struct.pack("<f", float(base) * rng.choice([1.0, 1e-3, 1e3, -1.0]) + rng.random()))[0]
    raise KeyError(mode)


def hostile_coords(V, rng, mode):
    """Replaces / perturbs coordinates; returns a list of rows whose entries are Python floats or (mode 'int') Python ints."""
    out = []
    for p in V:
        row = []
        for c in p:
            m = mode
            if mode == "mixed":
                m = rng.choice(["zoo", "int", "negative", "tiny", "huge", "denormal", "digits17", "negzero"])
            row.append(hostile_value(rng, m, c))
        out.append(row)
    return out


def fits_float32(V):
    return all(abs(float(c)) < 3.0e38 for p in V for c in p)


# ----------------------------------------------------------------------------- attribute specifications
ATTR_TYPES = ["bool", "int", "float", "complex", "str"]
# (bracketed words are ordinary values: only the format's own chunk tags [HEAD] [ATTS] [ATTR] mean something to a reader)
WORDS = ["a", "b7", "edge", "Wing", "x_1", "ZZ", "mouette", "0", "k9k", "left.right", "[SEAM]", "[hard]", "[X1]"]


# text a line-oriented ASCII file can hold as one value: printable ASCII with interior blanks, no leading / trailing blank,
# no '#' (comment) and no '[' / ']' (chunk tags)
TEXT_ALPHABET = "abcdefghijklmnopqrstuvwxyzABCDEFGHIJKLMNOPQRSTUVWXYZ0123456789      _-+*/=.,;:!?%&|~^<>(){}@$'\"\\"
BIG_INTS = [2 ** 31, 2 ** 32 - 1, 2 ** 32, 2 ** 53 + 1, 2 ** 63 - 1, 2 ** 63, 2 ** 64 - 1, 2 ** 64, -2 ** 31 - 1, -2 ** 63, -2 ** 63 - 1, 10 ** 30]


def long_text(rng, lo=33, hi=200):
    n = rng.choice([lo, lo + 1, 40, 64, 65, 100, hi, rng.randint(lo, hi)])
    body = "".join(rng.choice(TEXT_ALPHABET) for _ in range(n - 2))
    return rng.choice("abcXYZ019(") + body + rng.choice("abcXYZ019).")


def attr_value(rng, typ, wide=None):
    """wide: None | "text" (strings of 33..200 characters with blanks and punctuation: sparse string attributes have no length limit)
    | "int" (integers outside 32 / 53 / 64 bits: a sparse scalar integer attribute holds Python ints)."""
    if wide == "text" and typ == "str" and rng.random() < 0.5:
        return long_text(rng)
    if wide == "int" and typ == "int" and rng.random() < 0.4:
        return rng.choice(BIG_INTS)
    if typ == "bool":
        return rng.random() < 0.5
    if typ == "int":
        return rng.choice([0, 1, -1, 7, -12345, 2147483647, -2147483648, rng.randint(-1000, 1000)])
    if typ == "float":
        return rng.choice([0.0, 1.5, -2.25, 1e-300, 1e300, 0.1 + 0.2, 1 / 3.0, -5e-324, rng.uniform(-10, 10), _digits17(rng)])
    if typ == "complex":
        return complex(rng.choice([0.0, 1.0, -2.5, rng.uniform(-3, 3)]), rng.choice([0.0, 1.0, -0.125, rng.uniform(-3, 3)]))
    return rng.choice(WORDS)


def attr_spec(rng, typ, arity, dense, custom_default, n_items, fill, force_wide=False):
    """name encodes type/arity/storage so that mechanism strings never carry random text.
    Sparse string attributes also get long texts, sparse scalar integer attributes also get integers beyond 64 bits
    (force_wide: at least the first two written values are of that kind)."""
    wide = None
    if not dense and typ == "str":
        wide = "text"
    if not dense and typ == "int" and arity == 1:
        wide = "int"
    name = "u_%s%d_%s%s" % (typ, arity, "dense" if dense else "sparse", "_dflt" if custom_default else "")
    default = None
    if custom_default and arity == 1:
        default = {"bool": True, "int": 5, "float": 2.5, "complex": complex(1, -1), "str": "none"}[typ]
    values = {}
    for i in range(n_items):
        if rng.random() < fill:
            values[i] = attr_value(rng, typ, wide) if arity == 1 else [attr_value(rng, typ, wide) for _ in range(arity)]
    if force_wide and wide and n_items:
        for k, i in enumerate(sorted(values)[:2] or [0]):
            one = (lambda: long_text(rng, 33 + 167 * k, 33 + 167 * k)) if wide == "text" else (lambda: BIG_INTS[(5 + 3 * k) % len(BIG_INTS)])
            values[i] = one() if arity == 1 else [one() if j == k % arity else attr_value(rng, typ) for j in range(arity)]
    return {"name": name, "type": typ, "arity": arity, "dense": dense, "default": default, "values": values}
