"""Connectivity monitor for VolumeMesh (tetrahedral): query script + verification against RefVolume.  Shared by C03, C02, C13."""
import numpy as np

from .ref.volume_ref import RefVolume, tri, edge
from .surfconn import _t


def probes(ref, rng):
    nC = len(ref.C)
    cf = []
    for ci in range(nC):
        for t in ref.opp_face[ci]:
            cf.append((ci, t))
        cf.append((ci, rng.choice(sorted(ref.faces))))
    cc = []
    for ci in range(nC):
        for cj in ref.cell_nbrs[ci]:
            cc.append((ci, cj))
        cc.append((ci, rng.randrange(nC)))
    cv = []
    for ci, c in enumerate(ref.C):
        for v in c:
            cv.append((ci, v))
        cv.append((ci, rng.randrange(ref.nV)))
    return {"cf": cf, "cc": cc, "cv": cv}


def script(P, ref):
    S = []
    K = lambda m: m.connectivity  # noqa

    def fid(m, t):
        return m.connectivity.face_id(*t)
    S.append(("face_to_cells", lambda m: [_t(K(m).face_to_cells(f)) for f in range(len(m.faces))]))
    S.append(("cell_to_face", lambda m: [_t(K(m).cell_to_face(c)) for c in range(len(m.cells))]))
    S.append(("cell_to_cell", lambda m: [_t(K(m).cell_to_cell(c)) for c in range(len(m.cells))]))
    S.append(("other_face_side", lambda m: [_t(K(m).other_face_side(c, fid(m, t))) for (c, t) in P["cf"]]))
    S.append(("common_face", lambda m: [_t(K(m).common_face(a, b)) for (a, b) in P["cc"]]))
    S.append(("vertex_to_cell", lambda m: [_t(K(m).vertex_to_cell(v)) for v in range(len(m.vertices))]))
    S.append(("cell_to_edge", lambda m: [_t(K(m).cell_to_edge(c)) for c in range(len(m.cells))]))
    S.append(("edge_to_cell", lambda m: [_t(K(m).edge_to_cell(e)) for e in range(len(m.edges))]))
    S.append(("edge_to_face", lambda m: [_t(K(m).edge_to_face(e)) for e in range(len(m.edges))]))
    S.append(("is_face_on_border", lambda m: [_t(m.is_face_on_border(f)) for f in range(len(m.faces))]))
    S.append(("is_face_on_border_verts", lambda m: [_t(m.is_face_on_border(*[int(x) for x in m.faces[f]])) for f in range(len(m.faces))]))
    S.append(("is_edge_on_border", lambda m: [_t(m.is_edge_on_border(e)) for e in range(len(m.edges))]))
    S.append(("is_edge_on_border_verts", lambda m: [_t(m.is_edge_on_border(int(m.edges[e][1]), int(m.edges[e][0]))) for e in range(len(m.edges))]))
    S.append(("is_vertex_on_border", lambda m: [_t(m.is_vertex_on_border(v)) for v in range(len(m.vertices))]))
    for nm in ("boundary_faces", "interior_faces", "boundary_edges", "interior_edges", "boundary_vertices", "interior_vertices"):
        S.append((nm, (lambda nm: lambda m: sorted(_t(getattr(m, nm))))(nm)))
    S.append(("in_cell_index", lambda m: [_t(K(m).in_cell_index(c, v)) for (c, v) in P["cv"]]))
    S.append(("in_cell_face_index", lambda m: [_t(K(m).in_cell_face_index(c, fid(m, t))) for (c, t) in P["cf"]]))
    S.append(("cell_to_vertex", lambda m: [_t(K(m).cell_to_vertex(c)) for c in range(len(m.cells))]))
    S.append(("edge_id", lambda m: [_t(K(m).edge_id(b, a)) for (a, b) in sorted(ref.edges)] + [_t(K(m).edge_id(0, 0))]))
    S.append(("face_id", lambda m: [_t(K(m).face_id(t[2], t[0], t[1])) for t in sorted(ref.faces)]))
    S.append(("face_to_edges", lambda m: [_t(K(m).face_to_edges(f)) for f in range(len(m.faces))]))
    S.append(("vertex_to_vertices", lambda m: [sorted(_t(K(m).vertex_to_vertices(v))) for v in range(len(m.vertices))]))
    return S


def verify(ctx, table, ref, faces, edges, P, sorted_on, monitor="vconn"):
    C = ref.C
    nC = len(C)

    def bad(op, mech, what, **w):
        ctx.violation(monitor, op, mech, what, **w)

    try:
        ftri = [tri(*f) for f in faces]
    except Exception:
        bad("faces", "malformed", "face container does not hold vertex triples", got=faces[:5])
        return
    etup = [tuple(e) for e in edges]
    ctx.obs(monitor, "containers")
    if not (set(ftri) == ref.faces and len(ftri) == len(ref.faces)):
        bad("faces", "face_container_mismatch", "face container is not the set of cell faces, each once", n=len(ftri), want=len(ref.faces))
        return
    if not (set(etup) == ref.edges and len(etup) == len(ref.edges)):
        bad("edges", "edge_container_mismatch", "edge container is not the set of cell edges, each once, low index first", n=len(etup), want=len(ref.edges))
        return
    face_index = {t: i for i, t in enumerate(ftri)}
    edge_index = {e: i for i, e in enumerate(etup)}

    def per(op, n, fn):
        """fn(i, got) -> None or (mech, what, witness)"""
        if op not in table:
            return
        got = table[op]
        ctx.obs(monitor, op, n)
        if len(got) != n:
            bad(op, "wrong_length", "%s answered for %d elements, expected %d" % (op, len(got), n))
            return
        for i in range(n):
            try:
                r = fn(i, got[i])
            except (TypeError, ValueError, IndexError, KeyError) as e:
                r = ("malformed_answer", "%s gave an answer the oracle cannot interpret (%s)" % (op, type(e).__name__), {})
            if r is not None:
                bad(op, r[0], r[1], index=i, got=got[i], **r[2])
                return

    per("face_to_cells", len(ftri), lambda i, g: None if sorted(g) == sorted(ref.face_cells[ftri[i]]) else
        ("wrong_answer", "face_to_cells(f) are not the cells containing f", {"want": ref.face_cells[ftri[i]]}))
    per("cell_to_face", nC, lambda i, g: None if len(g) == 4 and [ftri[x] for x in g] == ref.opp_face[i] else
        ("wrong_answer", "i-th face of the cell is not the face opposite its i-th vertex", {"cell": C[i]}))
    per("cell_to_cell", nC, lambda i, g: None if sorted(g) == sorted(ref.cell_nbrs[i]) else
        ("wrong_answer", "cell_to_cell(c) are not the cells sharing a face with c", {"want": ref.cell_nbrs[i]}))

    def ofs(i, g):
        c, t = P["cf"][i]
        l = ref.face_cells[t]
        want = None
        if len(l) == 2 and c in l:
            want = l[0] if l[1] == c else l[1]
        return None if g == want else ("wrong_answer", "other_face_side(c,f) is not the cell across f", {"want": want, "c": c, "f": list(t)})
    per("other_face_side", len(P["cf"]), ofs)

    def cface(i, g):
        a, b = P["cc"][i]
        s = set(C[a]) & set(C[b])
        want = face_index.get(tri(*s)) if len(s) == 3 else None
        return None if g == want else ("wrong_answer", "common_face(c1,c2) is not the shared face", {"want": want, "c1": a, "c2": b})
    per("common_face", len(P["cc"]), cface)
    per("vertex_to_cell", ref.nV, lambda i, g: None if sorted(g) == sorted(ref.v2c[i]) else
        ("wrong_answer", "vertex_to_cell(v) are not the cells containing v", {"want": sorted(ref.v2c[i])}))
    per("cell_to_edge", nC, lambda i, g: None if sorted(etup[x] for x in g) == sorted(edge(C[i][a], C[i][b]) for a in range(4) for b in range(a)) else
        ("wrong_answer", "cell_to_edge(c) are not the six edges of c", {}))

    def e2c(i, g):
        e = etup[i]
        if sorted_on:
            r = ref.check_cell_ring(e, g)
        else:
            r = None if sorted(g) == sorted(ref.edge_cells[e]) else "not_the_incident_cells"
        return None if r is None else (r, "edge_to_cell(e) is not %s" % ("a rotational order of the cells around e" if sorted_on else "the cells around e"),
                                       {"edge": list(e), "border": e in ref.border_edges})
    per("edge_to_cell", len(etup), e2c)

    def e2f(i, g):
        e = etup[i]
        ring = [ftri[x] for x in g]
        if sorted_on:
            r = ref.check_face_ring(e, ring)
        else:
            r = None if sorted(ring) == sorted(ref.edge_faces[e]) else "not_the_incident_faces"
        return None if r is None else (r, "edge_to_face(e) is not %s" % ("a rotational order of the faces around e" if sorted_on else "the faces around e"),
                                       {"edge": list(e), "border": e in ref.border_edges})
    per("edge_to_face", len(etup), e2f)
    for op in ("is_face_on_border", "is_face_on_border_verts"):
        per(op, len(ftri), lambda i, g: None if bool(g) == (ftri[i] in ref.border_faces) else
            ("wrong_answer", "border classification of a face disagrees with the cell list", {"face": list(ftri[i])}))
    for op in ("is_edge_on_border", "is_edge_on_border_verts"):
        per(op, len(etup), lambda i, g: None if bool(g) == (etup[i] in ref.border_edges) else
            ("wrong_answer", "border classification of an edge disagrees with the cell list", {"edge": list(etup[i])}))
    per("is_vertex_on_border", ref.nV, lambda i, g: None if bool(g) == (i in ref.border_vertices) else
        ("wrong_answer", "border classification of a vertex disagrees with the cell list", {}))

    def cmp_set(op, want):
        if op not in table:
            return
        ctx.obs(monitor, op, max(1, len(want)))
        if table[op] != sorted(want):
            bad(op, "wrong_answer", "%s is not the set derived from the cell list" % op, got=table[op][:30], want=sorted(want)[:30])
    cmp_set("boundary_faces", [i for i, t in enumerate(ftri) if t in ref.border_faces])
    cmp_set("interior_faces", [i for i, t in enumerate(ftri) if t not in ref.border_faces])
    cmp_set("boundary_edges", [i for i, e in enumerate(etup) if e in ref.border_edges])
    cmp_set("interior_edges", [i for i, e in enumerate(etup) if e not in ref.border_edges])
    cmp_set("boundary_vertices", sorted(ref.border_vertices))
    cmp_set("interior_vertices", sorted(set(range(ref.nV)) - ref.border_vertices))
    per("in_cell_index", len(P["cv"]), lambda i, g: None if g == (C[P["cv"][i][0]].index(P["cv"][i][1]) if P["cv"][i][1] in C[P["cv"][i][0]] else None) else
        ("wrong_answer", "in_cell_index(c,v) is not v's position in c", {}))

    def icfi(i, g):
        c, t = P["cf"][i]
        want = ref.opp_face[c].index(t) if t in ref.opp_face[c] else None
        return None if g == want else ("wrong_answer", "in_cell_face_index(c,f) is not the index of the vertex opposite f", {"want": want})
    per("in_cell_face_index", len(P["cf"]), icfi)
    per("cell_to_vertex", nC, lambda i, g: None if list(g) == C[i] else ("wrong_answer", "cell_to_vertex(c) is not the cell's vertex list", {}))
    se = sorted(ref.edges)
    per("edge_id", len(se) + 1, lambda i, g: None if (g is None if i == len(se) else (isinstance(g, int) and 0 <= g < len(etup) and etup[g] == se[i])) else
        ("wrong_answer", "edge_id(u,v) does not designate edge (u,v)", {}))
    sf = sorted(ref.faces)
    per("face_id", len(sf), lambda i, g: None if isinstance(g, int) and 0 <= g < len(ftri) and ftri[g] == sf[i] else
        ("wrong_answer", "face_id(a,b,c) does not designate that face", {}))

    def f2e(i, g):
        f = [int(x) for x in faces[i]]
        want = [edge(f[k], f[(k + 1) % 3]) for k in range(3)]
        return None if [etup[x] for x in g] == want else ("wrong_answer", "face_to_edges(f) are not the sides of f in order", {})
    per("face_to_edges", len(ftri), f2e)
    nb = {v: set() for v in range(ref.nV)}
    for (a, b) in ref.edges:
        nb[a].add(b)
        nb[b].add(a)
    per("vertex_to_vertices", ref.nV, lambda i, g: None if g == sorted(nb[i]) else ("wrong_answer", "vertex_to_vertices(v) are not v's edge neighbours", {}))


def check_boundary(ctx, ref, V, kind, bfaces, bverts, to_volume_vertex, monitor="boundary", expect_outward=True, face_map=None, note_only_orientation=False):
    """bfaces: face list of the extracted surface (its own numbering); bverts: its coordinates;
    to_volume_vertex: dict boundary vertex -> volume vertex."""
    from .ref import topo

    def bad(mech, what, **w):
        ctx.violation(monitor, kind, mech, what, **w)
    ctx.obs(monitor, kind)
    try:
        tris = [tri(*[to_volume_vertex[int(v)] for v in f]) for f in bfaces]
    except Exception as e:
        bad("index_map_incomplete", "a boundary vertex has no image in the volume through the index map (%s)" % type(e).__name__)
        return None
    if sorted(tris) != sorted(ref.border_faces):
        bad("not_the_border_faces", "the extracted surface does not consist of exactly the border faces", n=len(tris), want=len(ref.border_faces))
        return None
    und = {}
    for f in bfaces:
        f = [int(x) for x in f]
        for k in range(len(f)):
            e = edge(f[k], f[(k + 1) % len(f)])
            und[e] = und.get(e, 0) + 1
    open_edges = [e for e, n in und.items() if n != 2]  # orientation-independent closedness
    if open_edges:
        bad("not_closed", "the extracted boundary surface has edges that do not lie in exactly two faces", edges=open_edges[:10])
    # coordinates agree through the map
    for bv, mv in to_volume_vertex.items():
        if not np.array_equal(np.asarray(bverts[bv], float), np.asarray(V[mv], float)):
            bad("coordinates_disagree", "a boundary vertex does not carry the coordinates of its volume vertex", bv=bv, mv=mv)
            break
    # orientation
    inward = outward = 0
    for f in bfaces:
        vf = [to_volume_vertex[int(v)] for v in f]
        t = tri(*vf)
        ci = ref.face_cells[t][0]
        pa, pb, pc = (np.asarray(V[v], float) for v in vf)
        n = np.cross(pb - pa, pc - pa)
        cf = (pa + pb + pc) / 3
        cc = np.mean([np.asarray(V[v], float) for v in ref.C[ci]], axis=0)
        if np.dot(n, cf - cc) > 0:
            outward += 1
        else:
            inward += 1
    if expect_outward:
        ctx.obs(monitor, kind + "_orientation", len(bfaces))
        if inward:
            bad("inward_faces", "boundary faces are not all oriented outwards", inward=inward, outward=outward)
    else:
        ctx.note("%s_%s" % (kind, "all_outward" if inward == 0 else ("all_inward" if outward == 0 else "mixed_orientation")))
    return tris
