"""Connectivity monitor for SurfaceMesh: the query script (every public adjacency accessor on every element) and
the comparison of an answer table with the reference built from the face list.  Shared by C01, C02, C13."""
import random

from .ref.surface_ref import RefSurface


def _t(x):
    """Normalises an answer to plain python data (tuples/lists of ints/None/bools)."""
    import numpy as np
    if x is None or isinstance(x, (bool, int)):
        return x
    if isinstance(x, np.bool_):
        return bool(x)
    if isinstance(x, np.integer):
        return int(x)
    if isinstance(x, (list, tuple, np.ndarray)):
        return [_t(y) for y in x]
    if isinstance(x, (set, frozenset)):
        return sorted(_t(y) for y in x)
    return x


def _ring(x):
    """Answers that are documented as lists (something that can be indexed and has an order): an unordered container is not one."""
    if isinstance(x, (set, frozenset, dict)):
        return ["<answer is an unordered %s, not a list>" % type(x).__name__]
    return _t(x)


def probes(ref, rng):
    """Argument lists used by the script, derived from the face list only (identical for every query order)."""
    F = ref.F
    he = sorted(ref.he)
    pairs = list(he) + [(v, u) for (u, v) in he if (v, u) not in ref.he]
    non = []
    nV = ref.nV
    tries = 0
    while len(non) < min(12, nV) and tries < 200:
        tries += 1
        u, v = rng.randrange(nV), rng.randrange(nV)
        if u != v and (min(u, v), max(u, v)) not in ref.edges:
            non.append((u, v))
    pairs += non
    triples = []
    for (u, v) in pairs:
        fs = {ref.direct_face(u, v), ref.direct_face(v, u), rng.randrange(len(F))}
        for f in fs:
            if f is not None:
                triples.append((u, v, f))
    fpairs = []
    for fi in range(len(F)):
        for g in set(ref.face_neighbours(fi)):
            fpairs.append((fi, g))
        fpairs.append((fi, rng.randrange(len(F))))
    # faces that touch fi at vertices only (no common side), those sharing two or more vertices first (e.g. across the diagonal of a quad)
    vfaces = {}
    for fi, f in enumerate(F):
        for v in f:
            vfaces.setdefault(v, set()).add(fi)
    for fi, f in enumerate(F):
        nb = set(ref.face_neighbours(fi))
        touch = {}
        for v in f:
            for g in vfaces[v]:
                if g != fi and g not in nb:
                    touch[g] = touch.get(g, 0) + 1
        for g in sorted(touch, key=lambda g: (-touch[g], g))[:3]:
            fpairs.append((fi, g))
    vf = []
    for fi, f in enumerate(F):
        for v in f:
            vf.append((v, fi))
        vf.append((rng.randrange(nV), fi))
    fids = []
    for fi, f in enumerate(F):
        g = list(f)
        rng.shuffle(g)
        fids.append(g)
    return {"pairs": pairs, "triples": triples, "fpairs": fpairs, "vf": vf, "fids": fids}


def script(P):
    """Ordered list of (accessor name, function(mesh) -> list of answers)."""
    def over(name, args, call):
        return (name, lambda m: [_t(call(m, *a)) for a in args])
    S = []
    S.append(("next_corner", lambda m: [_t(m.connectivity.next_corner(c)) for c in range(len(m.face_corners))]))
    S.append(("previous_corner", lambda m: [_t(m.connectivity.previous_corner(c)) for c in range(len(m.face_corners))]))
    S.append(("opposite_corner", lambda m: [_t(m.connectivity.opposite_corner(c)) for c in range(len(m.face_corners))]))
    S.append(("corner_to_half_edge", lambda m: [_t(m.connectivity.corner_to_half_edge(c)) for c in range(len(m.face_corners))]))
    S.append(("corner_to_face", lambda m: [_t(m.connectivity.corner_to_face(c)) for c in range(len(m.face_corners))]))
    S.append(over("half_edge_to_corner", P["pairs"], lambda m, u, v: m.connectivity.half_edge_to_corner(u, v)))
    S.append(over("direct_face", P["pairs"], lambda m, u, v: m.connectivity.direct_face(u, v)))
    S.append(over("direct_face_inds", P["pairs"], lambda m, u, v: m.connectivity.direct_face(u, v, True)))
    S.append(over("edge_to_faces", P["pairs"], lambda m, u, v: m.connectivity.edge_to_faces(u, v)))
    S.append(over("edge_id", P["pairs"], lambda m, u, v: m.connectivity.edge_id(u, v)))
    S.append(over("is_edge_on_border", P["pairs"], lambda m, u, v: m.is_edge_on_border(u, v)))
    S.append(over("opposite_face", P["triples"], lambda m, u, v, f: m.connectivity.opposite_face(u, v, f)))
    S.append(over("opposite_face_inds", P["triples"], lambda m, u, v, f: m.connectivity.opposite_face(u, v, f, True)))
    S.append(over("common_edge", P["fpairs"], lambda m, f, g: m.connectivity.common_edge(f, g)))
    S.append(("vertex_to_vertices", lambda m: [_ring(m.connectivity.vertex_to_vertices(v)) for v in range(len(m.vertices))]))
    S.append(("vertex_to_edges", lambda m: [_ring(m.connectivity.vertex_to_edges(v)) for v in range(len(m.vertices))]))
    S.append(("vertex_to_faces", lambda m: [_ring(m.connectivity.vertex_to_faces(v)) for v in range(len(m.vertices))]))
    S.append(("vertex_to_corners", lambda m: [_ring(m.connectivity.vertex_to_corners(v)) for v in range(len(m.vertices))]))
    S.append(("is_vertex_on_border", lambda m: [_t(m.is_vertex_on_border(v)) for v in range(len(m.vertices))]))
    S.append(over("vertex_to_corner_in_face", P["vf"], lambda m, v, f: m.connectivity.vertex_to_corner_in_face(v, f)))
    S.append(over("in_face_index", P["vf"], lambda m, v, f: m.connectivity.in_face_index(f, v)))
    S.append(("face_to_vertices", lambda m: [_ring(m.connectivity.face_to_vertices(f)) for f in range(len(m.faces))]))
    S.append(("face_to_edges", lambda m: [_ring(m.connectivity.face_to_edges(f)) for f in range(len(m.faces))]))
    S.append(("face_to_first_corner", lambda m: [_t(m.connectivity.face_to_first_corner(f)) for f in range(len(m.faces))]))
    S.append(("face_to_corners", lambda m: [_ring(m.connectivity.face_to_corners(f)) for f in range(len(m.faces))]))
    S.append(("face_to_faces", lambda m: [_ring(m.connectivity.face_to_faces(f)) for f in range(len(m.faces))]))
    S.append(("edge_to_vertices", lambda m: [_t(m.connectivity.edge_to_vertices(e)) for e in range(len(m.edges))]))
    S.append(("other_edge_end", lambda m: [[_t(m.connectivity.other_edge_end(e, m.edges[e][0])), _t(m.connectivity.other_edge_end(e, m.edges[e][1])),
                                            _t(m.connectivity.other_edge_end(e, -7))] for e in range(len(m.edges))]))
    S.append(("face_id", lambda m: [_t(m.connectivity.face_id(*g)) for g in P["fids"]] + [_t(m.connectivity.face_id(-1, -2, -3))]))
    S.append(("boundary_edges", lambda m: sorted(_t(m.boundary_edges))))
    S.append(("interior_edges", lambda m: sorted(_t(m.interior_edges))))
    S.append(("boundary_vertices", lambda m: sorted(_t(m.boundary_vertices))))
    S.append(("interior_vertices", lambda m: sorted(_t(m.interior_vertices))))
    S.append(("mesh_kind", lambda m: [_t(m.is_triangular()), _t(m.is_quad())]))
    S.append(("ith_vertex_of_face", lambda m: [[_t(m.ith_vertex_of_face(f, i)) for i in range(len(m.faces[f]))] for f in range(len(m.faces))]))
    return S


def run_script(ctx, mesh, S, order, monitor="order", clear_at=None):
    """Runs the batches of S in the given order on `mesh`; returns {name: answers}.  An exception is a violation
    (a query that fails on a fresh mesh) and leaves that accessor out of the table."""
    table = {}
    for pos, idx in enumerate(order):
        name, fn = S[idx]
        if clear_at is not None and pos == clear_at:
            mesh.connectivity.clear()
            mesh.clear_boundary_data()
        ok, ans = ctx.call(name, fn, mesh, monitor=monitor, abort=False)
        if ok:
            table[name] = ans
        ctx.obs(monitor, "batches")
    return table


def verify(ctx, table, ref, edges, P, sorted_on, monitor="conn", face_corners=None):
    """Compares one answer table with the reference."""
    F = ref.F
    nC = ref.nC

    def bad(op, mech, what, **w):
        ctx.violation(monitor, op, mech, what, **w)

    def cmp_list(op, want):
        if op not in table:
            return
        got = table[op]
        ctx.obs(monitor, op, len(want))
        if len(got) != len(want):
            bad(op, "wrong_length", "%s answered for %d elements, expected %d" % (op, len(got), len(want)))
            return
        for i, (g, w) in enumerate(zip(got, want)):
            if g != w and not (isinstance(w, tuple) and list(w) == g):
                bad(op, "wrong_answer", "%s disagrees with the face list" % op, index=i, got=g, want=w)
                return

    if face_corners is not None:
        ctx.obs(monitor, "face_corners", nC)
        want = [(F[fi][k], fi) for (fi, k) in ref.corner]
        if [tuple(x) for x in face_corners] != want:
            bad("face_corners", "wrong_corner_records", "face corner records are not the face-vertex incidences in element order",
                got=face_corners[:12], want=want[:12])
            return
    cmp_list("next_corner", [ref.next_corner(c) for c in range(nC)])
    cmp_list("previous_corner", [ref.previous_corner(c) for c in range(nC)])
    cmp_list("opposite_corner", [ref.opposite_corner(c) for c in range(nC)])
    cmp_list("corner_to_half_edge", [list(ref.half_edge(c)) for c in range(nC)])
    cmp_list("corner_to_face", [ref.corner[c][0] for c in range(nC)])
    cmp_list("half_edge_to_corner", [ref.half_edge_to_corner(u, v) for (u, v) in P["pairs"]])
    cmp_list("direct_face", [ref.direct_face(u, v) for (u, v) in P["pairs"]])
    cmp_list("direct_face_inds", [list(ref.direct_face_inds(u, v)) for (u, v) in P["pairs"]])
    cmp_list("edge_to_faces", [[ref.direct_face(u, v), ref.direct_face(v, u)] for (u, v) in P["pairs"]])
    cmp_list("is_edge_on_border", [(min(u, v), max(u, v)) in ref.border_edges for (u, v) in P["pairs"]])
    cmp_list("opposite_face", [ref.opposite_face(u, v, f) for (u, v, f) in P["triples"]])
    if "opposite_face_inds" in table:
        want = []
        for (u, v, f) in P["triples"]:
            o = ref.opposite_face(u, v, f)
            if o is None:
                want.append([None, None, None])
            else:
                g = F[o]
                want.append([o, g.index(u), g.index(v)])
        cmp_list("opposite_face_inds", want)
    # edge ids: checked against the mesh's own edge list, no edge order assumed
    edges = [tuple(e) for e in edges]
    if "edge_id" in table:
        ctx.obs(monitor, "edge_id", len(P["pairs"]))
        for (u, v), g in zip(P["pairs"], table["edge_id"]):
            key = (min(u, v), max(u, v))
            if key in ref.edges:
                if not (isinstance(g, int) and 0 <= g < len(edges) and tuple(edges[g]) == key):
                    bad("edge_id", "wrong_answer", "edge_id(u,v) does not designate edge (u,v) in the edge list", u=u, v=v, got=g)
                    break
            elif g is not None:
                bad("edge_id", "non_edge_has_id", "edge_id of a pair that is not an edge is not None", u=u, v=v, got=g)
                break
    if "common_edge" in table:
        ctx.obs(monitor, "common_edge", len(P["fpairs"]))
        for (f, g), ans in zip(P["fpairs"], table["common_edge"]):
            sh = ref.shared_edges(f, g) if f != g else set()
            if sh:
                if tuple(sorted(ans)) not in sh:
                    bad("common_edge", "wrong_answer", "common_edge(f,g) is not a shared edge", f=f, g=g, got=ans, want=sorted(sh))
                    break
            elif list(ans) != [None, None]:
                bad("common_edge", "wrong_answer", "common_edge of non-adjacent faces is not (None,None)", f=f, g=g, got=ans)
                break
    # rings
    for op, checker in (("vertex_to_faces", "face"), ("vertex_to_corners", "corner"), ("vertex_to_vertices", "vertex"), ("vertex_to_edges", "edge")):
        if op not in table:
            continue
        ctx.obs(monitor, op, ref.nV)
        for v in range(ref.nV):
            ring = table[op][v]
            if ring is None:
                bad(op, "missing_ring", "%s(v) is None for a vertex of the mesh" % op, v=v)
                break
            try:
                if checker == "corner":
                    if any((not isinstance(c, int)) or not (0 <= c < nC) or F[ref.corner[c][0]][ref.corner[c][1]] != v for c in ring):
                        bad(op, "not_corners_of_v", "vertex_to_corners(v) lists a corner that is not at v", v=v, got=ring)
                        break
                    fr = [ref.corner[c][0] for c in ring]
                    reason = ref.check_face_ring(v, fr) if sorted_on else (None if sorted(fr) == sorted(ref.v2f[v]) else "not_the_incident_faces")
                elif checker == "face":
                    reason = ref.check_face_ring(v, ring) if sorted_on else (None if sorted(ring) == sorted(ref.v2f[v]) else "not_the_incident_faces")
                elif checker == "vertex":
                    reason = ref.check_vertex_ring(v, ring) if sorted_on else (None if sorted(ring) == sorted(ref.nbrs[v]) else "not_the_neighbours")
                else:
                    if any((not isinstance(e, int)) or not (0 <= e < len(edges)) or v not in edges[e] for e in ring):
                        bad(op, "not_edges_at_v", "vertex_to_edges(v) lists something that is not an edge at v", v=v, got=ring)
                        break
                    vr = [edges[e][0] if edges[e][1] == v else edges[e][1] for e in ring]
                    reason = ref.check_vertex_ring(v, vr) if sorted_on else (None if sorted(vr) == sorted(ref.nbrs[v]) else "not_the_neighbours")
            except (ValueError, IndexError, TypeError, KeyError):
                reason = "malformed_ring"
            if reason is not None:
                bad(op, reason, "%s(v) is not %s" % (op, "a rotational order of v's neighbourhood" if sorted_on else "v's neighbourhood"),
                    v=v, got=ring, on_border=v in ref.border_vertices)
                break
    cmp_list("is_vertex_on_border", [v in ref.border_vertices for v in range(ref.nV)])
    if "vertex_to_corner_in_face" in table:
        cmp_list("vertex_to_corner_in_face", [ref.offset[f] + F[f].index(v) if v in F[f] else None for (v, f) in P["vf"]])
    if "in_face_index" in table:
        cmp_list("in_face_index", [F[f].index(v) if v in F[f] else None for (v, f) in P["vf"]])
    cmp_list("face_to_vertices", [list(f) for f in F])
    if "face_to_edges" in table:
        ctx.obs(monitor, "face_to_edges", len(F))
        for fi, f in enumerate(F):
            got = table["face_to_edges"][fi]
            want = [(min(f[k], f[(k + 1) % len(f)]), max(f[k], f[(k + 1) % len(f)])) for k in range(len(f))]
            try:
                ok = [tuple(edges[e]) for e in got] == want
            except Exception:
                ok = False
            if not ok:
                bad("face_to_edges", "wrong_answer", "face_to_edges(f) are not the sides of f in order", f=fi, got=got)
                break
    cmp_list("face_to_first_corner", [ref.offset[f] for f in range(len(F))])
    cmp_list("face_to_corners", [[ref.offset[f] + k for k in range(len(F[f]))] for f in range(len(F))])
    if "face_to_faces" in table:
        ctx.obs(monitor, "face_to_faces", len(F))
        for fi in range(len(F)):
            got = table["face_to_faces"][fi]
            try:
                ok = sorted(got) == sorted(ref.face_neighbours(fi))
            except TypeError:
                ok = False
            if not ok:
                bad("face_to_faces", "wrong_answer", "face_to_faces(f) are not the faces across f's sides", f=fi, got=got, want=ref.face_neighbours(fi))
                break
    cmp_list("edge_to_vertices", [list(e) for e in edges])
    cmp_list("other_edge_end", [[e[1], e[0], None] for e in edges])
    cmp_list("face_id", list(range(len(F))) + [None])
    if set(edges) == ref.edges and len(edges) == len(ref.edges):
        be = sorted(i for i, e in enumerate(edges) if e in ref.border_edges)
        ie = sorted(i for i, e in enumerate(edges) if e not in ref.border_edges)
        cmp_list("boundary_edges", be)
        cmp_list("interior_edges", ie)
    cmp_list("boundary_vertices", sorted(ref.border_vertices))
    cmp_list("interior_vertices", sorted(set(range(ref.nV)) - ref.border_vertices))
    cmp_list("mesh_kind", [all(len(f) == 3 for f in F), all(len(f) == 4 for f in F)])
    cmp_list("ith_vertex_of_face", [list(f) for f in F])
