"""C03 - volume connectivity answers agree with the cell list; boundary extraction is exact.

Shape: reference-model differential monitor (RefVolume from the cell list) + query-order history monitor + boundary-map monitor."""
import random

import numpy as np

from .. import build, volconn
from ..ref.volume_ref import RefVolume, tri, edge
from ..zoo import volumes
from ..ctx import stable_hash

ID = "C03"
RULE = ("certified conforming tetrahedral meshes with closed manifold boundary from the volume zoo (Kuhn / 5-tet blocks and random sub-blocks, "
        "3-D Delaunay, stars, edge rings, anchors, disjoint unions; renumbered; cell vertex order permuted arbitrarily, or by even permutations "
        "of (S)-positive cells for the orientation clause); per mesh several fresh objects driven through the accessor script in different orders; "
        "non-trivial = at least 6 cells with an interior face and an interior edge; distinct = distinct (vertex count, cell list) hash"
        "; variants: units 1e-9..1e5, boxes of 320-480 cells, single cells refined by interior insertions in interior-first/last/random numbering, embeddings collapsed onto a plane (embedding-free clauses only), save/reload routes")
REQUIRED = {"vconn": 3000, "order/batches": 300, "order_equal": 30, "boundary/enable": 20, "boundary/standalone": 20, "maps": 100}
CASE_TIMEOUT = {"quick": 30.0, "thorough": 600.0}
ASSUMPTIONS = ["inputs are conforming tetrahedral meshes whose boundary is a closed manifold surface, without unused vertices",
               "'positively oriented' is read as the library's own signed-volume expression det(p0-p3,p1-p3,p2-p3) > 0 (DESIGN C03)",
               "rings around an edge are compared up to rotation/reflection"]


def cases(seed, tier):
    rng = random.Random(seed * 104729 + 3)
    n = 240 if tier == "quick" else 12000
    out = []
    for i in range(n):
        out.append({"gen": "zoo", "seed": rng.randrange(2 ** 31), "max_size": 2 if tier == "quick" else rng.choice([2, 3, 4]),
                    "orient": [None, None, "S+", "S-"][i % 4], "sorted": i % 5 != 4, "orders": 3 if tier == "quick" else 7,
                    "first": (i * 3) % 27, "irows": ["list", "tuple", "npint"][i % 3]})
    # meshes with several hundred cells (element ids beyond the range in which small integers are shared objects, table sizes past 256)
    for i in range(3 if tier == "quick" else 40):
        out.append({"gen": "zoo", "seed": rng.randrange(2 ** 31), "max_size": 2, "big": rng.choice([50, 60, 90]), "orient": [None, "S+", None][i % 3], "sorted": i % 2 == 0,
                    "orders": 1, "first": (i * 5) % 27, "irows": ["list", "npint", "tuple"][i % 3]})
    # few border vertices among many interior ones (a coarse cell refined by inserting points inside it), in every numbering: interior
    # vertices numbered before, after or between the border ones
    for i in range(12 if tier == "quick" else 400):
        out.append({"gen": "refined", "seed": rng.randrange(2 ** 31), "max_size": 2, "base": ["tet", "cube", "tet"][i % 3], "inserted": rng.choice([5, 6, 8, 12, 30, 40]),
                    "numbering": ["interior_first", "random", "interior_last", "random"][i % 4],
                    "orient": [None, "S+", None, "S-"][i % 4], "sorted": i % 2 == 0, "orders": 1, "first": (i * 7) % 27, "irows": ["list", "npint", "tuple"][i % 3]})
    return out


def _refined(desc):
    """A single tetrahedron (or a cube cut in six) refined by inserting points strictly inside cells: the border keeps its 4 (8) vertices."""
    rb = random.Random(desc["seed"] ^ 0x3ef1)
    if desc["base"] == "tet":
        V = [[0.0, 0.0, 0.0], [1.0, 0.0, 0.0], [0.0, 1.0, 0.0], [0.0, 0.0, 1.0]]
        C = [[0, 1, 2, 3]]
    else:
        V, C = volumes.kuhn_block(volumes.random_cubes(rb, 0, full=(1, 1, 1)))
        V, C = [list(map(float, p)) for p in V], [list(map(int, c)) for c in C]
    nb = len(V)
    for _ in range(desc["inserted"]):
        k = rb.randrange(len(C))
        c = C[k]
        w = [rb.uniform(0.15, 1.0) for _ in range(4)]
        p = sum(np.asarray(V[v], float) * wi for v, wi in zip(c, w)) / sum(w)
        V.append([float(x) for x in p])
        n = len(V) - 1
        C[k] = [n, c[1], c[2], c[3]]
        C += [[c[0], n, c[2], c[3]], [c[0], c[1], n, c[3]], [c[0], c[1], c[2], n]]
    V = np.asarray(V, float)
    nV = len(V)
    if desc["numbering"] == "random":
        V, C = volumes.renumber(V, C, rb)
    elif desc["numbering"] == "interior_first":
        perm = [(v + nV - nb) % nV for v in range(nV)]
        V2 = np.zeros_like(V)
        for i in range(nV):
            V2[perm[i]] = V[i]
        V, C = V2, [[perm[v] for v in c] for c in C]
    if desc["orient"] in ("S+", "S-"):
        C = volumes.orient_cells(V, C, positive=desc["orient"] == "S+")
        C = volumes.permute_cells(C, rb, even_only=True)
    else:
        C = volumes.permute_cells(C, rb)
    order = list(range(len(C)))
    rb.shuffle(order)
    return V, [list(map(int, C[i])) for i in order]


def _maps_inverse(ctx, name, a2b, b2a):
    ok = len(a2b) == len(b2a) and all(b2a.get(v, None) == k for k, v in a2b.items())
    ctx.check(ok, "maps", name, "maps_not_mutually_inverse", "%s index maps to and from the volume are not mutually inverse" % name,
              n_m2b=len(a2b), n_b2m=len(b2a))
    return ok


def _boundary_enable(ctx, m, ref, V, again=False):
    if not again:
        ok, _ = ctx.call("enable_boundary_connectivity", m.enable_boundary_connectivity, monitor="boundary")
    bc = m.boundary_connectivity
    bm = m.boundary_mesh
    if not ctx.check(bm is not None and bc is not None, "boundary", "enable", "no_boundary_mesh", "boundary_mesh is None after enable_boundary_connectivity"):
        return
    faces = build.faces_list(m)
    edges = build.edges_list(m)
    ftri = [tri(*f) for f in faces]
    bF = build.faces_list(bm)
    bV = build.vertices_array(bm)
    bE = build.edges_list(bm)
    try:
        b2m_v = {int(k): int(v) for k, v in bc.b2m_vertex.items()}
        m2b_v = {int(k): int(v) for k, v in bc.m2b_vertex.items()}
        b2m_f = {int(k): int(v) for k, v in bc.b2m_face.items()}
        m2b_f = {int(k): int(v) for k, v in bc.m2b_face.items()}
        b2m_e = {int(k): int(v) for k, v in bc.b2m_edge.items()}
        m2b_e = {int(k): int(v) for k, v in bc.m2b_edge.items()}
    except Exception as e:
        ctx.violation("maps", "enable", "malformed_maps", "index maps are not integer dictionaries: %s" % e)
        return
    _maps_inverse(ctx, "vertex", m2b_v, b2m_v)
    _maps_inverse(ctx, "edge", m2b_e, b2m_e)
    _maps_inverse(ctx, "face", m2b_f, b2m_f)
    ctx.check(set(m2b_v) == ref.border_vertices and set(b2m_v) == set(range(len(bV))), "maps", "vertex_domain", "wrong_domain",
              "vertex map does not cover exactly the border vertices / all boundary-mesh vertices")
    ctx.check({ftri[f] for f in m2b_f if 0 <= f < len(ftri)} == ref.border_faces and set(b2m_f) == set(range(len(bF))), "maps", "face_domain", "wrong_domain",
              "face map does not cover exactly the border faces / all boundary-mesh faces")
    ctx.check({edges[e] for e in m2b_e if 0 <= e < len(edges)} == ref.border_edges and set(b2m_e) == set(range(len(bE))), "maps", "edge_domain", "wrong_domain",
              "edge map does not cover exactly the border edges / all boundary-mesh edges", n=len(m2b_e), want=len(ref.border_edges), nbe=len(bE))
    good = True
    for bf, mf in b2m_f.items():
        try:
            if tri(*[b2m_v[v] for v in bF[bf]]) != ftri[mf]:
                good = False
                break
        except Exception:
            good = False
            break
    ctx.check(good, "maps", "face_consistency", "face_map_inconsistent", "a boundary face does not map to the volume face with the same vertices")
    good = True
    for be, me in b2m_e.items():
        try:
            if edge(*[b2m_v[v] for v in bE[be]]) != edges[me]:
                good = False
                break
        except Exception:
            good = False
            break
    ctx.check(good, "maps", "edge_consistency", "edge_map_inconsistent", "a boundary edge does not map to the volume edge with the same end points")
    volconn.check_boundary(ctx, ref, V, "enable", bF, bV, b2m_v, expect_outward=not getattr(ref, "flat_embedding", False))
    if getattr(ref, "flat_embedding", False):
        # the library orients each boundary face with the sign of its cell's volume: with zero volumes the faces are not consistently oriented,
        # and the neighbourhood answers of the boundary surface (which rely on a consistent orientation) are outside what is judged here
        return
    # translated accessors of the boundary connectivity (volume ids in, volume ids out)
    nb = {}
    for t in ref.border_faces:
        for a in t:
            nb.setdefault(a, set()).update(x for x in t if x != a)
    for v in list(sorted(ref.border_vertices))[:40]:
        ok, g = ctx.call("bc.vertex_to_vertices", bc.vertex_to_vertices, v, monitor="boundary")
        ctx.check(sorted(int(x) for x in g) == sorted(nb[v]), "boundary", "bc.vertex_to_vertices", "wrong_answer",
                  "boundary_connectivity.vertex_to_vertices(v) are not v's neighbours on the border (volume ids)", v=v, got=g, want=sorted(nb[v]))
        ok, g = ctx.call("bc.vertex_to_faces", bc.vertex_to_faces, v, monitor="boundary")
        want = sorted(i for i, t in enumerate(ftri) if t in ref.border_faces and v in t)
        ctx.check(g is not None and sorted(int(x) for x in g) == want, "boundary", "bc.vertex_to_faces", "wrong_answer",
                  "boundary_connectivity.vertex_to_faces(v) are not the border faces at v (volume ids)", v=v, got=g, want=want)
        ok, g = ctx.call("bc.vertex_to_edges", bc.vertex_to_edges, v, monitor="boundary")
        try:
            ge = sorted(edges[int(x)] for x in g)
        except Exception:
            ge = None
        ctx.check(ge == sorted(edge(v, w) for w in nb[v]), "boundary", "bc.vertex_to_edges", "wrong_answer",
                  "boundary_connectivity.vertex_to_edges(v) are not the border edges at v (volume ids)", v=v, got=g)
    eid = {e: i for i, e in enumerate(edges)}
    fid = {t: i for i, t in enumerate(ftri)}
    by_edge = {}
    for t in ref.border_faces:
        for k in range(3):
            by_edge.setdefault(edge(t[k], t[(k + 1) % 3]), []).append(t)
    for t in list(sorted(ref.border_faces))[:40]:
        F = fid.get(t)
        if F is None:
            continue
        ok, g = ctx.call("bc.face_to_edges", bc.face_to_edges, F, monitor="boundary")
        want = sorted(eid[edge(t[k], t[(k + 1) % 3])] for k in range(3))
        ctx.check(g is not None and sorted(int(x) for x in g) == want, "boundary", "bc.face_to_edges", "wrong_answer",
                  "boundary_connectivity.face_to_edges(F) are not the three sides of the border face (volume ids)", F=F, got=g, want=want)
        ok, g = ctx.call("bc.face_to_faces", bc.face_to_faces, F, monitor="boundary")
        want = sorted(fid[t2] for k in range(3) for t2 in by_edge[edge(t[k], t[(k + 1) % 3])] if t2 != t)
        ctx.check(g is not None and sorted(int(x) for x in g) == want, "boundary", "bc.face_to_faces", "wrong_answer",
                  "boundary_connectivity.face_to_faces(F) are not the border faces across the sides of F (volume ids)", F=F, got=g, want=want)
        for v in t:
            ok, k = ctx.call("bc.in_face_index", bc.in_face_index, F, v, monitor="boundary")
            try:
                good = b2m_v[int(bF[m2b_f[F]][int(k)])] == v
            except Exception:
                good = False
            ctx.check(good, "boundary", "bc.in_face_index", "wrong_answer",
                      "boundary_connectivity.in_face_index(F, v) is not the position of v in the boundary face of F", F=F, v=v, got=k)
    interior_f = [i for i, t in enumerate(ftri) if t not in ref.border_faces][:5]
    for F in interior_f:
        ok, g = ctx.call("bc.face_to_edges", bc.face_to_edges, F, monitor="boundary")
        ok2, g2 = ctx.call("bc.face_to_faces", bc.face_to_faces, F, monitor="boundary")
        ctx.check(not g and not g2, "boundary", "bc.interior_face", "interior_face_has_boundary_neighbourhood",
                  "boundary_connectivity answers a non-empty neighbourhood for an interior face", F=F, got=[g, g2])
    for v in sorted(set(range(len(V))) - ref.border_vertices)[:5]:
        ok, g = ctx.call("bc.vertex_to_vertices", bc.vertex_to_vertices, v, monitor="boundary")
        ok2, g2 = ctx.call("bc.vertex_to_edges", bc.vertex_to_edges, v, monitor="boundary")
        ctx.check(not g and not g2, "boundary", "bc.interior_vertex", "interior_vertex_has_boundary_neighbourhood",
                  "boundary_connectivity answers a non-empty neighbourhood for an interior vertex", v=v, got=[g, g2])


def _boundary_standalone(ctx, m, ref, V, orient):
    import mouette as M
    ok, res = ctx.call("extract_boundary_of_volume", M.processing.extract_boundary_of_volume, m, monitor="boundary")
    try:
        bm, m2b, b2m = res
        m2b = {int(k): int(v) for k, v in m2b.items()}
        b2m = {int(k): int(v) for k, v in b2m.items()}
    except Exception as e:
        ctx.violation("boundary", "standalone", "malformed_result", "extract_boundary_of_volume did not return (surface, m2b, b2m): %s" % e)
        return
    _maps_inverse(ctx, "standalone_vertex", m2b, b2m)
    bF = build.faces_list(bm)
    bV = build.vertices_array(bm)
    ctx.check(set(m2b) == ref.border_vertices and set(b2m) == set(range(len(bV))), "maps", "standalone_vertex_domain", "wrong_domain",
              "standalone vertex map does not cover exactly the border vertices")
    volconn.check_boundary(ctx, ref, V, "standalone", bF, bV, b2m, expect_outward=(orient == "S+") and not getattr(ref, "flat_embedding", False))


def run_case(desc, ctx):
    z = volumes.make(desc["seed"], max_size=desc["max_size"], orient=desc["orient"])
    V, C = z["V"], z["C"]
    if desc["gen"] == "refined":
        V, C = _refined(desc)
        if volumes.certify(V, C) is None:
            raise RuntimeError("harness: the refined cell is not a conforming mesh")
        z = dict(z, cls="refined_%s_%d_points_inside" % (desc["base"], desc["inserted"]))
        ctx.cls("numbering:" + desc["numbering"])
    if desc.get("big"):
        rb = random.Random(desc["seed"] ^ 0xb16)
        Vb, Cb = (volumes.kuhn_block if rb.random() < 0.5 else volumes.five_tet_block)(volumes.random_cubes(rb, 0, full=(4, 4, 4 if desc["big"] < 90 else 5)))
        Vb, Cb = volumes.renumber(np.asarray(Vb, float), Cb, rb)[:2]
        Cb = volumes.permute_cells(Cb, rb)
        if desc["orient"] in ("S+", "S-"):
            Cb = volumes.orient_cells(Vb, Cb, positive=desc["orient"] == "S+")
        V, C = Vb, [list(map(int, c)) for c in Cb]
        z = dict(z, cls="big_block")
        ctx.cls("size:%d_cells" % len(C))
    unit = [1.0, 1.0, 1e-6, 1.0, 1e5, 1e-9][desc["seed"] % 6]
    if unit != 1.0:
        # the same mesh in very small / large units: every clause of the statement is combinatorial or a sign, hence unit-free
        V = np.asarray(V, float) * unit
        ctx.cls("units:%g" % unit)
    flat = desc["seed"] % 7 == 3
    if flat:
        # collapsed embedding: every vertex pushed onto one coordinate plane, every cell has exactly zero volume.  The combinatorial clauses
        # (which faces make up the boundary, closedness, index maps) do not depend on the embedding; "outwards" has no meaning here and is not judged
        V = np.array(V, float)
        V[:, desc["seed"] % 3] = [0.0, 2.5][(desc["seed"] // 21) % 2]
        ctx.cls("embedding:collapsed_onto_a_plane")
    ref = RefVolume(len(V), C)
    ref.flat_embedding = flat
    rng = random.Random(desc["seed"] ^ 0x9e37)
    P = volconn.probes(ref, rng)
    S = volconn.script(P, ref)
    nacc = len(S)
    sorted_on = desc["sorted"]
    ctx.cls("class:" + z["cls"].split("~")[0])
    ctx.cls("orient:" + str(desc["orient"]))
    ctx.cls("sorting:" + ("on" if sorted_on else "off"))
    ctx.cls("rows:" + desc["irows"])
    interior_faces = len(ref.faces) - len(ref.border_faces)
    interior_edges = len(ref.edges) - len(ref.border_edges)
    ctx.cls("interior_vertices:" + ("yes" if len(ref.border_vertices) < len(V) else "no"))
    if len(C) >= 6 and interior_faces >= 1 and interior_edges >= 1:
        ctx.nontrivial(stable_hash([len(V), C]))
    with build.config(sort_neighborhoods=sorted_on):
        ok, m0 = ctx.call("construct", build.volume, V, C, "list", desc["irows"])
        T0 = _run_volume_script(ctx, m0, S, list(range(nacc)))
        volconn.verify(ctx, T0, ref, build.faces_list(m0), build.edges_list(m0), P, sorted_on)
        for j in range(desc["orders"]):
            first = (desc["first"] + j) % nacc
            rest = [i for i in range(nacc) if i != first]
            rng.shuffle(rest)
            ok, m = ctx.call("construct", build.volume, V, C, "list", desc["irows"])
            boundary_first = j % 2 == 0
            if boundary_first:
                if j % 4 == 0:
                    _boundary_enable(ctx, m, ref, V)
                else:
                    _boundary_standalone(ctx, m, ref, V, desc["orient"])
            T = _run_volume_script(ctx, m, S, [first] + rest, clear_at=rng.randrange(2, nacc) if j % 3 == 2 else None)
            for name, _ in S:
                if name in T0 and name in T:
                    ctx.check(T[name] == T0[name], "order_equal", name, "answer_depends_on_query_order",
                              "%s answers differ when the queries are issued in another order" % name, first_accessor=S[first][0])
                elif (name in T0) != (name in T):
                    ctx.obs("order_equal", name)
            if not boundary_first:
                if j % 4 == 1:
                    _boundary_enable(ctx, m, ref, V)
                else:
                    _boundary_standalone(ctx, m, ref, V, desc["orient"])
            if j == 0 and desc["seed"] % 4 == 1:
                # history: two live volumes.  Another mesh (other cells, other numbering) gets its boundary connectivity while this one is alive;
                # the maps and boundary answers of this one are then read again (without enabling again)
                ctx.cls("history:boundary_of_another_live_volume_enabled_in_between")
                _boundary_enable(ctx, m, ref, V)
                zo = volumes.make(desc["seed"] ^ 0x2b2b, max_size=2)
                ok, other = ctx.call("construct", build.volume, zo["V"], zo["C"], "list", desc["irows"])
                ctx.call("enable_boundary_connectivity", other.enable_boundary_connectivity, monitor="boundary")
                _boundary_enable(ctx, m, ref, V, again=True)
            if desc["orders"] == 1:
                # single-order cases (big and refined meshes): both ways of extracting the boundary are exercised on the one object
                _boundary_standalone(ctx, m, ref, V, desc["orient"])
        # route: the mesh is written to a file and read back (geogram files carry the cell adjacency computed at save time; medit/tet files do not);
        # the reloaded object must answer like the reference built from ITS OWN cell list
        if desc["seed"] % 3 == 0:
            import mouette as M
            import tempfile, os as _os
            ext = [".geogram_ascii", ".mesh", ".tet"][(desc["seed"] // 3) % 3]
            ctx.cls("route:reloaded_from" + ext)
            with tempfile.TemporaryDirectory(prefix="mv_c03_") as td:
                path = _os.path.join(td, "vol" + ext)
                ok, m1 = ctx.call("construct", build.volume, V, C, "list", desc["irows"])
                ok, _ = ctx.call("save", M.mesh.save, m1, path, monitor="order")
                ok, m2 = ctx.call("load", M.mesh.load, path, monitor="order")
            C2 = build.cells_list(m2)
            V2 = build.vertices_array(m2)
            if ctx.check(sorted(sorted(c) for c in C2) == sorted(sorted(c) for c in C) and len(V2) == len(V), "order", "reload", "reloaded_mesh_has_other_cells",
                         "the volume written to %s and read back does not have the same cells" % ext):
                ref2 = RefVolume(len(V2), C2)
                P2 = volconn.probes(ref2, random.Random(desc["seed"] ^ 0x51f))
                S2 = volconn.script(P2, ref2)
                order2 = list(range(len(S2)))
                random.Random(desc["seed"] ^ 0x77).shuffle(order2)
                T2 = _run_volume_script(ctx, m2, S2, order2)
                volconn.verify(ctx, T2, ref2, build.faces_list(m2), build.edges_list(m2), P2, sorted_on)
    if len(C) <= 3:
        ctx.sample({"vertices": len(V), "cells": C, "class": z["cls"], "compared": "%d accessors x %d orders + boundary maps" % (nacc, desc["orders"] + 1)})


def _run_volume_script(ctx, mesh, S, order, clear_at=None):
    table = {}
    for pos, idx in enumerate(order):
        name, fn = S[idx]
        if clear_at is not None and pos == clear_at:
            mesh.connectivity.clear()
        ok, ans = ctx.call(name, fn, mesh, monitor="order", abort=False)
        if ok:
            table[name] = ans
        ctx.obs("order", "batches")
    return table
