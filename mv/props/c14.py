"""C14 - procedural generators give valid meshes of the promised shape, for all admissible parameters.

Shape: postcondition monitor.  One case = one generator call (parameters drawn from the case seed, passed positionally,
by keyword, mixed, or with defaults omitted); the returned mesh is judged with the reference analyser `ref/topo.py`
and the docstring facts collected in `ref/procedural_ref.py` (topology of the named shape, documented counts,
geometry, switches)."""
import math
import random
import signal
import time

import numpy as np

from .. import build
from ..ctx import stable_hash, CaseTimeout
from ..ref import topo
from ..ref import procedural_ref as R
from ..zoo import surfaces

ID = "C14"
RULE = ("one generator call per case; every public generator of mouette.procedural x integer resolutions from the minimum admissible "
        "(ring N>=3 documented; >=3 segments around an axis, >=2 latitudes, >=2 grid lines, >=4 Fibonacci points where the docstring is silent) "
        "up to 40 (thorough: all pairs), unequal pairs in both orders, radii 1e-3..1e3 (floats, Python ints, numpy scalars), random centres / "
        "end points / axes (incl. coordinate axes and near-z), every boolean switch combination, arguments passed positionally / by keyword / "
        "mixed / defaults omitted; ring defects incl. 0, 2pi-0.01 and values equal to a bisection midpoint; float64/float32/int arrays for the "
        "polyline builders; dual_mesh on certified closed manifolds of the surface zoo; documented exceptions (ring N<3, vector_field shapes); "
        "non-trivial = unequal resolutions or at least one non-default switch/parameter; distinct = distinct (generator, parameters) hash")
REQUIRED = {"call": 800, "valid": 3000, "shape": 500, "counts": 700, "geometry": 500, "switch": 1000, "apex": 150,
            "dual": 150, "polyline": 100, "volume": 15, "raises": 10}
CASE_TIMEOUT = {"quick": 30.0, "thorough": 300.0}
ASSUMPTIONS = [
    "admissible = documented minimum where the docstring gives one (ring N>=3), otherwise the smallest resolution for which the named shape "
    "exists as a polyhedral surface: cylinder N>=3, torus segments>=3, sphere_uv n_lat>=2 and n_long>=3, unit_grid/unit_triangle nu,nv>=2, "
    "sphere_fibonacci n_pts>=4, flat_ring N>=3, icosphere n_refine>=0; radii > 0; torus major_radius > minor_radius; distinct end points",
    "points are passed as mouette.Vec (the documented type); arrays for chain_of_vertices / vector_field are numpy arrays",
    "a ring's angle defect is judged for n_cover=1 and 0 <= defect <= 2pi-0.01 (the generator's own documented-in-code clamp), tolerance 1e-5 "
    "(10x the bisection's stopping width)",
    "volume=True results are judged on their cells and on the face list as an unoriented boundary (face orientation of a VolumeMesh "
    "is the mesh layer's convention, C03); colored/triangulate together with volume=True are not judged",
    "unit_triangle with unequal arguments is judged only as a valid disk inside the unit right triangle with its three corners present",
    "cylindrify_edges accepts either `radius` or `radius * mean edge length` as the cylinders' radius; icosahedron(uv=True) is not judged",
    "config.sort_neighborhoods is left at its default (True) - dual_mesh relies on ordered vertex rings",
    "dual_mesh: dual vertex i corresponds to face i and dual face i to vertex i of the input (index-aligned, as V'=F and F'=V suggest); "
    "inputs are closed manifolds whose reference dual is itself a valid closed manifold (vertex degrees >= 3, faces share at most one edge)",
]

# signature order of every generator (positional passing follows it) and the defaults (for the 'defaults omitted' style)
SIG = {
    "tetrahedron": (["P1", "P2", "P3", "P4", "volume"], {"volume": False}),
    "hexahedron": (["P1", "P2", "P3", "P4", "P5", "P6", "P7", "P8", "colored", "triangulate", "volume"],
                   {"colored": False, "triangulate": False, "volume": False}),
    "axis_aligned_cube": (["colored", "triangulate"], {"colored": False, "triangulate": False}),
    "hexahedron_4pts": (["P1", "P2", "P3", "P4", "colored", "volume"], {"colored": False, "volume": False}),
    "octahedron": ([], {}),
    "icosahedron": (["center", "radius", "uv"], {"center": [0., 0., 0.], "radius": 1., "uv": False}),
    "dodecahedron": ([], {}),
    "cylinder": (["P1", "P2", "radius", "N", "fill_caps"], {"radius": 1., "N": 50, "fill_caps": True}),
    "torus": (["major_segments", "minor_segments", "major_radius", "minor_radius", "triangulate"],
              {"major_segments": 50, "minor_segments": 30, "major_radius": 1., "minor_radius": 0.3, "triangulate": False}),
    "sphere_uv": (["n_lat", "n_long", "center", "radius"], {"n_lat": 30, "n_long": 50, "center": [0., 0., 0.], "radius": 1.}),
    "icosphere": (["n_refine", "center", "radius"], {"n_refine": 3, "center": [0., 0., 0.], "radius": 1.}),
    "sphere_fibonacci": (["n_pts", "radius", "build_surface"], {"radius": 1., "build_surface": True}),
    "ring": (["N", "defect", "open", "n_cover"], {"open": False, "n_cover": 1}),
    "flat_ring": (["N", "defect", "n_cover"], {"n_cover": 1}),
    "triangle": (["P0", "P1", "P2"], {}),
    "quad": (["P0", "P1", "P2", "triangulate"], {"triangulate": False}),
    "unit_grid": (["nu", "nv", "triangulate", "generate_uvs"], {"triangulate": False, "generate_uvs": False}),
    "unit_triangle": (["nu", "nv", "generate_uvs"], {"generate_uvs": False}),
    "chain_of_vertices": (["vertices", "loop"], {"loop": False}),
    "vector_field": (["origins", "vectors", "length_mult"], {"length_mult": 1.}),
    "spherify_vertices": (["points", "radius", "n_subdiv"], {"radius": 1e-2, "n_subdiv": 1}),
    "cylindrify_edges": (["mesh", "radius", "N"], {"radius": 5e-2, "N": 50}),
    "dual_mesh": (["mesh", "mode"], {"mode": "barycenter"}),
}
RING_DEADLINE = 4.0  # CPU seconds; a ring call normally takes 1-5 ms
POINT_PARAMS = {"P0", "P1", "P2", "P3", "P4", "P5", "P6", "P7", "P8", "center"}
STYLES = ["pos", "kw", "mix", "dflt"]
TWO_RES = {"unit_grid": ("nu", "nv"), "unit_triangle": ("nu", "nv"), "torus": ("major_segments", "minor_segments"),
           "sphere_uv": ("n_lat", "n_long")}


# ============================================================================= workload
def _r6(x):
    return float("%.6g" % x)


def _pt(rng, scale=1.0):
    return [_r6(rng.uniform(-1, 1) * scale) for _ in range(3)]


def _radius(rng):
    k = rng.random()
    if k < 0.55:
        return _r6(10 ** rng.uniform(-3, 3))
    if k < 0.7:
        return float("%.3e" % (10 ** rng.uniform(-6, 6)))  # very small / very large units
    if k < 0.8:
        return rng.choice([1, 2, 3, 10])  # a Python int where a float is documented
    return rng.choice([1.0, 1e-3, 1e3, 0.5, 2.0])


def _center(rng, r):
    k = rng.random()
    if k < 0.15:
        return [0., 0., 0.]
    if k < 0.35:
        return [float(rng.randint(-12, 12)) for _ in range(3)]  # whole numbers: handed over as an integer Vec / array (see _materialise)
    return _pt(rng, r * rng.choice([0.5, 3.0, 30.0]))


def _pairs(rng, lo_a, lo_b, hi, n, exhaustive_to=0):
    """Resolution pairs: minimal ones, unequal pairs in both orders, equal ones."""
    out = [(lo_a, lo_b), (lo_a, lo_b + 1), (lo_a + 1, lo_b), (lo_a, hi), (hi, lo_b), (hi, hi), (lo_a + 1, lo_b + 1)]
    for a in range(lo_a, exhaustive_to + 1):
        for b in range(lo_b, exhaustive_to + 1):
            out.append((a, b))
    while len(out) < n:
        a = rng.randint(lo_a, hi) if rng.random() < 0.5 else rng.randint(lo_a, min(hi, lo_a + 6))
        b = rng.randint(lo_b, hi) if rng.random() < 0.5 else rng.randint(lo_b, min(hi, lo_b + 6))
        out.append((a, b))
        if a != b and a >= lo_b and b >= lo_a:
            out.append((b, a))
    seen, res = set(), []
    for ab in out:
        if ab not in seen:
            seen.add(ab)
            res.append(ab)
    return res


def _bools(k):
    return [[bool((m >> i) & 1) for i in range(k)] for m in range(2 ** k)]


def _nondegenerate_pts(rng, n, scale):
    while True:
        P = [_pt(rng, scale) for _ in range(n)]
        A = np.array(P)
        d = min(np.linalg.norm(A[i] - A[j]) for i in range(n) for j in range(i))
        if d > 0.05 * scale:
            return P


def cases(seed, tier):
    rng = random.Random(seed * 104729 + 14)
    quick = tier == "quick"
    out = []

    def add(gen, p, **extra):
        d = {"gen": gen, "p": p, "style": STYLES[len(out) % 4] if rng.random() < 0.6 else rng.choice(STYLES),
             "num": "np" if rng.random() < 0.2 else "py", "seed": rng.randrange(2 ** 31)}
        d.update(extra)
        out.append(d)

    rep = 1 if quick else 24
    geo = 1 if quick else 3  # geometry variants per resolution pair
    hi = 40
    # ---- fixed solids ----------------------------------------------------------------
    for _ in range(6 * rep):
        for vol in (False, True):
            add("tetrahedron", {**{"P%d" % (i + 1): q for i, q in enumerate(_nondegenerate_pts(rng, 4, _radius(rng)))}, "volume": vol})
    for _ in range(2 * rep):
        for col, tri, vol in _bools(3):
            s = _radius(rng)
            c = _center(rng, s)
            base = [(-1, -1, -1), (1, -1, -1), (1, 1, -1), (-1, 1, -1), (-1, -1, 1), (1, -1, 1), (1, 1, 1), (-1, 1, 1)]
            P = [[_r6(c[k] + s * (b[k] + rng.uniform(-0.3, 0.3))) for k in range(3)] for b in base]
            add("hexahedron", {**{"P%d" % (i + 1): q for i, q in enumerate(P)}, "colored": col, "triangulate": tri, "volume": vol})
            add("hexahedron", {**{"P%d" % (i + 1): q for i, q in enumerate(P)}, "colored": col, "triangulate": tri, "volume": vol})
    for _ in range(2 * rep):
        for col, tri in _bools(2):
            add("axis_aligned_cube", {"colored": col, "triangulate": tri})
    for _ in range(5 * rep):
        for col, vol in _bools(2):
            s = _radius(rng)
            P1 = _center(rng, s)
            while True:
                X, Y, Z = (np.array(_pt(rng, s)) for _ in range(3))
                if abs(np.linalg.det(np.array([X, Y, Z]))) > 0.02 * s ** 3:
                    break
            P = [P1] + [[_r6(P1[k] + w[k]) for k in range(3)] for w in (X, Y, Z)]
            if abs(np.linalg.det(np.array(P[1:]) - np.array(P1))) <= 0.01 * s ** 3:
                P = [P1] + [[P1[k] + w[k] for k in range(3)] for w in (X, Y, Z)]  # rounding to six decimals would flatten a tiny box: keep it as drawn
            add("hexahedron_4pts", {**{"P%d" % (i + 1): q for i, q in enumerate(P)}, "colored": col, "volume": vol})
    for _ in range(2 * rep):
        add("octahedron", {})
        add("dodecahedron", {})
    for i in range(16 * rep):
        r = 1.0 if i % 4 == 0 else _radius(rng)
        add("icosahedron", {"center": [0., 0., 0.] if i % 3 == 0 else _center(rng, r), "radius": r, "uv": i % 5 == 4})
    # ---- spheres, cylinder, torus ----------------------------------------------------
    for i in range(24 * rep):
        r = _radius(rng)
        n = [0, 1, 2, 3, 1, 2, 0, 3][i % 8] if quick else [0, 1, 2, 3, 4, 1, 2, 0][i % 8]
        add("icosphere", {"n_refine": n, "center": _center(rng, r), "radius": r})
    for i in range(40 * rep):
        n = [4, 5, 6, 7, 8][i % 5] if i < 10 else rng.randint(4, 60 if quick else 400)
        r = [1e-3, 3e-4, 1e-5, 2e-7, 1e4, 3e6][(i // 4) % 6] if i % 4 == 1 else _radius(rng)  # small and large spheres: orientation must not depend on the unit
        add("sphere_fibonacci", {"n_pts": n, "radius": r, "build_surface": i % 6 != 5})
    for (a, b) in _pairs(rng, 2, 3, hi, 90 if quick else 1200, exhaustive_to=5 if quick else 40):
        for _ in range(geo):
            r = _radius(rng)
            add("sphere_uv", {"n_lat": a, "n_long": b, "center": _center(rng, r), "radius": r})
    # segment counts for which 2*pi / (2*pi / n) rounds above n (a float-step arange over-runs there), next to ordinary ones
    odd_counts = [61, 122, 197, 244] if quick else [61, 122, 197, 244, 343, 345, 355, 359]
    torus_pairs = list(_pairs(rng, 3, 3, hi, 50 if quick else 1200, exhaustive_to=4 if quick else 40))
    torus_pairs += [(n_, rng.randint(3, 6)) for n_ in odd_counts] + [(rng.randint(3, 6), n_) for n_ in odd_counts[:2 if quick else 8]]
    for (a, b) in torus_pairs:
        for tri in (False, True) * geo:
            R_ = _radius(rng)
            add("torus", {"major_segments": a, "minor_segments": b, "major_radius": R_,
                          "minor_radius": _r6(R_ * rng.uniform(0.02, 0.95)), "triangulate": tri})
    axes = ["x", "y", "z", "-z", "nearz7", "nearz5", "nearz3", "rand", "rand", "rand", "rand", "rand"]
    for i in range(100 * rep):
        r = _radius(rng)
        L = r * 10 ** rng.uniform(-1.5, 1.5)
        P1 = _center(rng, r)
        ax = axes[i % len(axes)]
        if ax == "rand":
            d = np.array(_pt(rng, 1.0))
            d = d / (np.linalg.norm(d) or 1.0) if np.linalg.norm(d) > 0.1 else np.array([0.6, 0., 0.8])
        else:
            d = {"x": (1, 0, 0), "y": (0, 1, 0), "z": (0, 0, 1), "-z": (0, 0, -1), "nearz7": (3e-7, -4e-7, 1),
                 "nearz5": (1e-5, 2e-5, 1), "nearz3": (1e-3, -1e-3, -1)}[ax]
            d = np.array(d, float)
        P2 = [float(P1[k] + L * d[k]) for k in range(3)]
        N = [3, 4, 5][i % 3] if i < 9 else rng.randint(3, hi)
        add("cylinder", {"P1": P1, "P2": P2, "radius": r, "N": N, "fill_caps": i % 2 == 0}, axis=ax)
    # very short cylinders (end points less than 1e-6 apart, e.g. one edge of a tiny polyline cylindrified) along each axis direction
    for i, ax in enumerate(["x", "-x", "y", "z", "-z", "x"] * rep):
        d = np.array({"x": (1, 0, 0), "-x": (-1, 0, 0), "y": (0, 1, 0), "z": (0, 0, 1), "-z": (0, 0, -1)}[ax], float)
        L = 10 ** rng.uniform(-9, -6.2)
        r = L * 10 ** rng.uniform(-1, 1)
        P1 = [0.0, 0.0, 0.0] if i % 2 else [float(L * rng.randint(-5, 5)) for _ in range(3)]
        P2 = [float(P1[k] + L * d[k]) for k in range(3)]
        add("cylinder", {"P1": P1, "P2": P2, "radius": r, "N": rng.randint(3, 12), "fill_caps": i % 2 == 0}, axis=ax.lstrip("-") if ax != "-z" else "-z")
    # ---- rings ------------------------------------------------------------------------
    for i in range(110 * rep):
        N = [3, 4, 5, 6][i % 4] if i < 16 else rng.randint(3, hi)
        k = i % 10
        defect = [0.0, 2 * math.pi - 0.01, 1e-4, math.pi / 2, math.pi, 6.0][k] if k < 6 else _r6(rng.uniform(0, 2 * math.pi - 0.01))
        add("ring", {"N": N, "defect": defect, "open": (i // 2) % 2 == 1, "n_cover": 1 if i % 5 else rng.choice([2, 3])})
    # adversarial: the requested defect is exactly the defect of a point the bisection visits (heights 5, 2.5, 7.5 are its first midpoints)
    for i, z in enumerate([5.0, 2.5, 7.5] * (1 if quick else 4)):  # 12 values of N at most
        add("ring", {"N": [3, 4, 6, 5, 8, 12, 7, 20, 40, 9, 10, 11][i], "defect": None, "open": i % 2 == 1, "n_cover": 1}, defect_from_height=z)
    for N in ([0, 1, 2, -1] if quick else [0, 1, 2, -1, -5]):
        for op in (False, True):
            add("ring", {"N": N, "defect": 0.5, "open": op, "n_cover": 1}, expect_raise=True)
    for i in range(40 * rep):
        N = [3, 4, 5][i % 3] if i < 6 else rng.randint(3, hi)
        add("flat_ring", {"N": N, "defect": [0.0, math.pi / 2, 1.0][i % 3] if i < 9 else _r6(rng.uniform(0, 2 * math.pi - 0.01)),
                          "n_cover": 1 if i % 4 else 2})
    # ---- flat ---------------------------------------------------------------------------
    for _ in range(10 * rep):
        s = _radius(rng)
        add("triangle", {"P%d" % i: q for i, q in enumerate(_nondegenerate_pts(rng, 3, s))})
    for i in range(24 * rep):
        s = _radius(rng)
        add("quad", {**{"P%d" % j: q for j, q in enumerate(_nondegenerate_pts(rng, 3, s))}, "triangulate": i % 2 == 1})
    for (a, b) in _pairs(rng, 2, 2, hi, 45 if quick else 1000, exhaustive_to=4 if quick else 40):
        for tri, uv in _bools(2):
            add("unit_grid", {"nu": a, "nv": b, "triangulate": tri, "generate_uvs": uv})
    for (a, b) in _pairs(rng, 2, 2, hi, 50 if quick else 1000, exhaustive_to=4 if quick else 40):
        for uv in (False, True):
            add("unit_triangle", {"nu": a, "nv": b, "generate_uvs": uv})
    # ---- polylines ---------------------------------------------------------------------
    for i in range(40 * rep):
        loop = i % 2 == 1
        n = rng.randint(3 if loop else 2, 30)
        add("chain_of_vertices", {"n": n, "dim": 3 if i % 4 < 3 else 2, "loop": loop, "scale": _radius(rng),
                                  "container": ["ndarray", "f32", "ndarray", "int"][i % 4]})
    for i in range(40 * rep):
        add("vector_field", {"n": rng.randint(1, 25), "dim": [3, 2, 3, 1][i % 4], "length_mult": [1.0, _r6(rng.uniform(-3, 3)), 0.0, 2.5][i % 4]
                             if i % 7 else 1.0, "scale": _radius(rng), "container": ["ndarray", "ndarray", "int"][i % 3]})
    for kind in ("shape_mismatch", "dim4"):
        for _ in range(3):
            add("vector_field", {"n": rng.randint(2, 6), "dim": 3, "length_mult": 1.0, "scale": 1.0, "container": "ndarray"},
                expect_raise=kind)
    # ---- transformations --------------------------------------------------------------
    for i in range(20 * rep):
        add("spherify_vertices", {"n": rng.randint(1, 6), "radius": _radius(rng), "n_subdiv": [1, 0, 2, 1][i % 4], "scale": _radius(rng)})
    for i in range(20 * rep):
        add("cylindrify_edges", {"n": rng.randint(2, 7), "radius": _r6(10 ** rng.uniform(-2.5, -0.5)), "N": rng.randint(3, 20),
                                 "scale": _radius(rng), "loop": i % 3 == 0})
    # ---- dual mesh -----------------------------------------------------------------------
    for i in range(70 * rep):
        add("dual_mesh", {"mode": ["barycenter", "circumcenter", "barycenter", "Barycenter"][i % 4] if i % 2 else "barycenter",
                          "max_size": rng.choice([2, 4, 6, 8])})
    rng.shuffle(out)
    # a few small readable calls are marked as evidence samples (one per kind)
    size = {"unit_grid": lambda p: (p["nu"] == p["nv"], p["nu"] * p["nv"], p["triangulate"]),
            "sphere_uv": lambda p: (p["n_lat"] * p["n_long"],), "torus": lambda p: (p["major_segments"] == p["minor_segments"], p["major_segments"] * p["minor_segments"], p["triangulate"]),
            "ring": lambda p: (p["N"] * p["n_cover"], p["open"]), "cylinder": lambda p: (p["N"], p["fill_caps"]),
            "unit_triangle": lambda p: (p["nu"] != 3 or p["nv"] != 3, p["nu"] * p["nv"])}
    for g, key in size.items():
        cand = [d for d in out if d["gen"] == g and not d.get("expect_raise")]
        if cand:
            min(cand, key=lambda d: key(d["p"]))["sample"] = True
    return out


# ============================================================================= driving
def _tag(gen, p):
    if gen in ("unit_grid", "unit_triangle"):
        a, b = p["nu"], p["nv"]
        return "[nu<nv]" if a < b else ("[nu>nv]" if a > b else "[nu==nv]")
    if gen == "icosphere":
        return "[n_refine=0]" if p["n_refine"] == 0 else "[n_refine>0]"
    if gen == "spherify_vertices":
        return "[n_subdiv=0]" if p["n_subdiv"] == 0 else "[n_subdiv>0]"
    if gen in ("tetrahedron", "hexahedron", "hexahedron_4pts"):
        return "[volume]" if p.get("volume") else "[surface]"
    if gen == "cylinder":
        return "[caps]" if p["fill_caps"] else "[open]"
    if gen == "ring":
        return "[open]" if p["open"] else "[closed]"
    return ""


def _materialise(gen, p, desc):
    """JSON parameters -> actual Python arguments (dict by parameter name) + auxiliary reference data."""
    import mouette as M
    aux = {}
    args = {}
    rng = np.random.default_rng(desc["seed"])
    if gen == "chain_of_vertices":
        A = rng.uniform(-1, 1, size=(p["n"], p["dim"])) * p["scale"]
        aux["A"] = A.copy()
        if p["container"] == "f32":
            A = A.astype(np.float32)
        elif p["container"] == "int":
            A = rng.integers(-9, 10, size=(p["n"], p["dim"]))
        aux["A"] = np.array(A, dtype=float)
        return {"vertices": A, "loop": p["loop"]}, aux
    if gen == "vector_field":
        n, k = p["n"], p["dim"]
        if p["container"] == "int":
            O = rng.integers(-9, 10, size=(n, k))
            W = rng.integers(-9, 10, size=(n, k))
        else:
            O = rng.uniform(-1, 1, size=(n, k)) * p["scale"]
            W = rng.uniform(-1, 1, size=(n, k)) * p["scale"]
        er = desc.get("expect_raise")
        if er == "shape_mismatch":
            W = W[:-1]
        elif er == "dim4":
            O = rng.uniform(-1, 1, size=(n, 4))
            W = rng.uniform(-1, 1, size=(n, 4))
        aux["O"], aux["W"] = np.array(O, float), np.array(W, float)
        return {"origins": O, "vectors": W, "length_mult": p["length_mult"]}, aux
    if gen == "spherify_vertices":
        while True:
            A = rng.uniform(-1, 1, size=(p["n"], 3)) * p["scale"]
            if p["n"] == 1 or min(np.linalg.norm(A[i] - A[j]) for i in range(len(A)) for j in range(i)) > 1e-3 * p["scale"]:
                break
        aux["A"] = A.copy()
        return {"points": build.pointcloud(A), "radius": p["radius"], "n_subdiv": p["n_subdiv"]}, aux
    if gen == "cylindrify_edges":
        n = p["n"]
        while True:
            A = rng.uniform(-1, 1, size=(n, 3)) * p["scale"]
            if min(np.linalg.norm(A[i] - A[j]) for i in range(n) for j in range(i)) > 0.05 * p["scale"]:
                break
        E = [(i, i + 1) for i in range(n - 1)] + ([(0, n - 1)] if p["loop"] and n >= 3 else [])
        aux["A"], aux["E"] = A.copy(), E
        return {"mesh": build.polyline(A, E), "radius": p["radius"], "N": p["N"]}, aux
    if gen == "dual_mesh":
        tri_only = p["mode"].lower() == "circumcenter"
        z = None
        for k in range(40):
            z = surfaces.make(desc["seed"] + 7919 * k, closed=True, tri_only=tri_only, max_size=p["max_size"], allow_union=(k % 2 == 0))
            d = R.dual_faces(len(z["V"]), z["F"])
            if d is None:
                continue
            a = topo.analyse(len(z["F"]), d)
            if a["manifold"] and a["oriented"] and a["closed"] and a["repeated_faces"] == 0 and a["unused_vertices"] == 0:
                aux["dual"], aux["dual_topo"] = d, a
                break
        else:
            return None, aux
        aux["z"] = z
        return {"mesh": build.surface(z["V"], z["F"]), "mode": p["mode"]}, aux
    for k, v in p.items():
        if k in POINT_PARAMS and all(float(x).is_integer() for x in v) and any(x != 0 for x in v) and desc["seed"] % 3 != 0:
            iv = [int(x) for x in v]
            # a point written with whole numbers is an integer array (Vec or plain ndarray: the parameters are documented as Vec, whose arithmetic
            # both have; plain tuples are not handed over, hexahedron_4pts legitimately subtracts its arguments)
            args[k] = [M.Vec(*iv), M.Vec(*iv), np.array(iv)][desc["seed"] % 3]
        elif k in POINT_PARAMS:
            args[k] = M.Vec(*v)
        elif desc.get("num") == "np" and isinstance(v, int) and not isinstance(v, bool):
            args[k] = np.int64(v)
        elif desc.get("num") == "np" and isinstance(v, float):
            args[k] = np.float64(v)
        else:
            args[k] = v
    return args, aux


def _split(gen, args, style, seed):
    order, defaults = SIG[gen]
    if style == "pos":
        return [args[k] for k in order], {}
    if style == "kw":
        return [], dict(args)
    if style == "mix":
        nreq = len([k for k in order if k not in defaults])
        r = random.Random(seed).randint(nreq, len(order)) if len(order) > nreq else nreq
        return [args[k] for k in order[:r]], {k: args[k] for k in order[r:]}
    # defaults omitted: required ones positionally, the others by keyword only when they differ from the default
    pos = [args[k] for k in order if k not in defaults]
    kw = {}
    for k in order:
        if k in defaults:
            v = args[k]
            vv = [float(x) for x in v] if k in POINT_PARAMS else v
            if vv != defaults[k] or type(vv) is not type(defaults[k]):
                kw[k] = v
    return pos, kw


def _nontrivial(gen, p):
    order, defaults = SIG[gen]
    if gen in TWO_RES:
        a, b = TWO_RES[gen]
        if p[a] != p[b]:
            return True
    for k, d in defaults.items():
        if k in p and p[k] != d:
            return True
    return gen in ("chain_of_vertices", "vector_field", "spherify_vertices", "cylindrify_edges", "dual_mesh")


class _Stop(Exception):
    pass


def _defect_at_height(M, N, z):
    """The angle defect of the ring whose apex is at height z, evaluated with the library's own angle function so that the value
    is bit-identical to the one the generator's bisection compares against (input construction only, not an oracle)."""
    from math import cos, sin, pi
    A, B = M.Vec(1., 0., 0.), M.Vec(cos(2 * pi / N), sin(2 * pi / N), 0.)
    return float(2 * pi - N * M.geometry.angle_3pts(A, M.Vec(0., 0., z), B))


def _with_deadline(seconds, fn):
    """Runs fn() under a shorter watchdog than the case budget; returns (finished, value).  The watchdog counts CPU time of this process
    (ITIMER_PROF, like the worker's case budget), not wall-clock time: a loaded machine cannot make a terminating call look non-terminating."""
    old = signal.setitimer(signal.ITIMER_PROF, seconds)
    try:
        return True, fn()
    except CaseTimeout:
        return False, None
    finally:
        left = signal.getitimer(signal.ITIMER_PROF)[0]
        used = max(0.0, seconds - left)
        signal.setitimer(signal.ITIMER_PROF, max(old[0] - used, 1.0) if old[0] > 0 else 0.0)


def run_case(desc, ctx):
    import mouette as M
    gen, p, style = desc["gen"], desc["p"], desc["style"]
    if "defect_from_height" in desc:
        p = dict(p)
        p["defect"] = _defect_at_height(M, p["N"], desc["defect_from_height"])
        ctx.cls("ring_defect:equal_to_a_bisection_midpoint")
    tag = _tag(gen, p)
    fn = getattr(M.procedural, gen)
    args, aux = _materialise(gen, p, desc)
    if args is None:
        ctx.note("dual_mesh:no_certified_input")
        return
    pos, kw = _split(gen, args, style, desc["seed"])
    ctx.cls("gen:" + gen)
    ctx.cls("style:" + style)
    ctx.cls("numbers:" + ("numpy scalars" if desc.get("num") == "np" else "python"))
    if tag:
        ctx.cls("class:" + gen + tag)
    if gen in TWO_RES:
        a, b = (p[k] for k in TWO_RES[gen])
        ctx.cls("resolutions:" + ("equal" if a == b else ("first<second" if a < b else "first>second")))
        if min(a, b) <= 3:
            ctx.cls("resolutions:minimal")
    for k, v in p.items():
        if isinstance(v, bool):
            ctx.cls("switch:%s.%s=%s" % (gen, k, v))
    if "axis" in desc:
        ctx.cls("cylinder_axis:" + desc["axis"])
    if _nontrivial(gen, p):
        ctx.nontrivial(stable_hash([gen, p]))

    if desc.get("expect_raise"):
        ok, res = ctx.call(gen, fn, *pos, expect=(Exception,), monitor="call", **kw)
        ctx.check(not ok, "raises", gen, "documented_exception_not_raised",
                  "%s accepted an input for which its docstring announces an exception" % gen,
                  params={k: v for k, v in p.items()}, kind=str(desc["expect_raise"]))
        return
    if gen == "ring":
        # the generator places the apex by bisection: termination is part of "returns a mesh" (normal cost: a few ms)
        done, res = _with_deadline(RING_DEADLINE, lambda: ctx.call(gen, fn, *pos, monitor="call", **kw))
        if not ctx.check(done, "call", gen, "bisection_does_not_terminate", "ring(N=%d, defect=%r) did not return within %g s" % (p["N"], p["defect"], RING_DEADLINE),
                         N=p["N"], defect=p["defect"], defect_is="defect at apex height %s" % desc.get("defect_from_height", "n/a")):
            return
        ok, m = res
    else:
        ok, m = ctx.call(gen, fn, *pos, monitor="call", **kw)
        ctx.obs("call", gen)
    try:
        _judge(ctx, M, gen, p, tag, m, aux, desc)
    except _Stop:
        pass
    _sample(ctx, desc, m)
    # history: the caller edits the mesh it was given in place (moves and rescales it, overwrites a vertex) and then asks the generator again
    # with the same arguments: the second mesh must again be the named shape (a generator must not hand out a shared or cached object)
    if (desc["seed"] % 4 == 1 or not p) and gen != "ring" and not ctx.violations:  # always for the generators without parameters
        try:
            T = M.geometry.transform if hasattr(M.geometry, "transform") else M.transform
            T.translate(m, M.Vec(7.5, -3.25, 11.0))
            T.scale(m, 3.0)
            if len(m.vertices):
                m.vertices[0] = M.Vec(1e3, 1e3, 1e3)
        except Exception as e:
            ctx.note("second_call:in_place_edit_failed:" + type(e).__name__)
            return
        args2, aux2 = _materialise(gen, p, desc)
        if args2 is None:
            return
        pos2, kw2 = _split(gen, args2, style, desc["seed"])
        ctx.cls("history:second_call_after_first_result_was_edited")
        ok, m2 = ctx.call(gen, fn, *pos2, monitor="call", **kw2)
        ctx.obs("call", gen + ":second_call")
        if m2 is m:
            ctx.violation("call", gen, "generator_returns_the_same_object_twice", "two calls of the generator returned the same mesh object")
            return
        try:
            _judge(ctx, M, gen, p, tag, m2, aux2, desc)
        except _Stop:
            pass


def _sample(ctx, desc, m):
    if not desc.get("sample"):
        return
    try:
        faces = [[int(v) for v in f] for f in m.faces][:16]
        pr = {k: ([float("%.3g" % x) for x in v] if isinstance(v, list) else v) for k, v in desc["p"].items()}
        ctx.sample({"generator": desc["gen"], "parameters": pr, "passing": desc["style"], "returned": type(m).__name__,
                    "vertices": len(m.vertices), "faces": faces,
                    "judged": "indices/unused/repeated/manifold/orientation, topology of the named shape, documented counts, geometry, switches"})
    except Exception:
        pass


# ============================================================================= judging
def _read(ctx, gen, m, want_faces=True):
    ok, V = ctx.call(gen + ":read_vertices", build.vertices_array, m, monitor="call")
    F = []
    if want_faces:
        ok, F = ctx.call(gen + ":read_faces", build.faces_list, m, monitor="call")
    return V, F


def _valid_surface(ctx, gen, tag, nV, F, p):
    """indices in range, no unused vertex, no degenerate / repeated face, manifold, consistently oriented."""
    a = topo.analyse(nV, F)
    w = {"params": _brief(p), "n_vertices": nV, "n_faces": len(F), "faces_head": F[:8]}
    if not ctx.check(a["valid_indices"], "valid", gen, "index_out_of_range" + tag, "%s: a face refers to a vertex index outside 0..%d" % (gen, nV - 1),
                     bad=[f for f in F if any(not (0 <= v < nV) for v in f)][:4], **w):
        raise _Stop()
    if not ctx.check(a["unused_vertices"] == 0, "valid", gen, "unused_vertex" + tag, "%s: %d vertices belong to no face" % (gen, a["unused_vertices"]),
                     unused=sorted(set(range(nV)) - set(a["used_vertices"]))[:12], **w):
        raise _Stop()
    if not ctx.check(a["degenerate_faces"] == 0, "valid", gen, "degenerate_face" + tag, "%s: a face repeats a vertex" % gen, **w):
        raise _Stop()
    if not ctx.check(a["repeated_faces"] == 0, "valid", gen, "repeated_face" + tag, "%s: two faces have the same vertex set" % gen, **w):
        raise _Stop()
    if not ctx.check(a["manifold"] and a["border_ok"], "valid", gen, "non_manifold" + tag, "%s: result is not a manifold surface" % gen,
                     edge_manifold=a["edge_manifold"], vertex_manifold=a["vertex_manifold"], **w):
        raise _Stop()
    if not ctx.check(a["oriented"], "valid", gen, "not_consistently_oriented" + tag,
                     "%s: two faces traverse a shared edge in the same direction" % gen, **w):
        raise _Stop()
    return a


def _shape(ctx, gen, tag, a, want, p):
    got = R.shape_of(a)
    if not ctx.check(got == want, "shape", gen, "not_a_%s%s" % (want, tag), "%s: expected the topology of a %s, got %s" % (gen, want, got),
                     params=_brief(p), got=got):
        raise _Stop()


def _brief(p):
    return {k: (v if not isinstance(v, list) or len(v) <= 3 else "...") for k, v in p.items()}


def _counts(ctx, gen, tag, p, nV, nF):
    c = R.counts(gen, p)
    if c["V"] is not None:
        ctx.check(nV == c["V"], "counts", gen, "vertex_count" + tag, "%s: %d vertices, documented %d" % (gen, nV, c["V"]), params=_brief(p))
    if c["F"] is not None:
        ctx.check(nF == c["F"], "counts", gen, "face_count" + tag, "%s: %d faces, documented %d" % (gen, nF, c["F"]), params=_brief(p))


def _arity(ctx, gen, tag, F, k, what):
    ar = sorted({len(f) for f in F})
    ctx.check(ar == [k], "switch", gen, what + tag, "%s: faces should all have %d vertices, arities seen %s" % (gen, k, ar), arities=ar)


def _type(ctx, gen, tag, m, want, mech):
    got = type(m).__name__
    if not ctx.check(got == want, "switch", gen, mech + tag, "%s returned a %s where a %s is promised" % (gen, got, want), returned=got):
        raise _Stop()


def _has_attr(container, name):
    return bool(container.has_attribute(name))


def _points_equal(ctx, gen, tag, V, P, mech, tol):
    P = np.asarray(P, float)
    okk = V.shape == P.shape and bool(np.all(np.abs(V - P) <= tol))
    ctx.check(okk, "geometry", gen, mech + tag, "%s: vertices are not the requested points" % gen,
              got=V[:8], want=P[:8])


def _at_radius(ctx, gen, tag, V, c, r, mech="vertex_not_at_radius"):
    c = np.asarray(c, float)
    d = R.dist_to_point(V, c)
    tol = 1e-9 * (float(np.linalg.norm(c)) + r) + 1e-12 * r
    i = int(np.argmax(np.abs(d - r)))
    ctx.check(bool(abs(d[i] - r) <= tol), "geometry", gen, mech + tag,
              "%s: vertex %d lies at distance %.9g from the centre, radius %.9g requested (ratio %.6g)" % (gen, i, d[i], r, d[i] / r),
              center=c, radius=r, ratio=float(d[i] / r))


def _judge(ctx, M, gen, p, tag, m, aux, desc):
    surf_gens_volume = gen in ("tetrahedron", "hexahedron", "hexahedron_4pts") and p.get("volume")
    # ---------------------------------------------------------------- polylines
    if gen in ("chain_of_vertices", "vector_field"):
        _judge_polyline(ctx, M, gen, p, m, aux)
        return
    if gen == "sphere_fibonacci" and not p["build_surface"]:
        _type(ctx, gen, tag, m, "PointCloud", "build_surface_false_not_a_point_cloud")
        V, _ = _read(ctx, gen, m, want_faces=False)
        _counts(ctx, gen, tag, p, len(V), 0)
        _at_radius(ctx, gen, tag, V, [0, 0, 0], p["radius"])
        return
    if surf_gens_volume:
        _judge_volume(ctx, M, gen, p, tag, m)
        return
    _type(ctx, gen, tag, m, "SurfaceMesh", "not_a_surface_mesh")
    V, F = _read(ctx, gen, m)
    nV = len(V)
    # ---------------------------------------------------------------- composite results
    if gen in ("spherify_vertices", "cylindrify_edges"):
        _judge_composite(ctx, gen, p, tag, V, F, aux)
        return
    a = _valid_surface(ctx, gen, tag, nV, F, p)
    want = {"tetrahedron": "sphere", "hexahedron": "sphere", "axis_aligned_cube": "sphere", "hexahedron_4pts": "sphere", "octahedron": "sphere",
            "icosahedron": "sphere", "dodecahedron": "sphere", "icosphere": "sphere", "sphere_uv": "sphere", "sphere_fibonacci": "sphere",
            "torus": "torus", "ring": "disk", "flat_ring": "disk", "triangle": "disk", "quad": "disk", "unit_grid": "disk",
            "unit_triangle": "disk"}.get(gen)
    if gen == "cylinder":
        want = "sphere" if p["fill_caps"] else "annulus"
    if gen == "dual_mesh":
        _judge_dual(ctx, gen, p, V, F, a, aux)
        return
    _shape(ctx, gen, tag, a, want, p)
    _counts(ctx, gen, tag, p, nV, len(F))
    G = globals().get("_geo_" + gen)
    if G is not None:
        G(ctx, M, gen, p, tag, m, V, F, a)


# ----------------------------------------------------------------------------- per generator geometry / switches
def _scale_of(P):
    P = np.asarray(P, float)
    return float(np.max(np.abs(P))) if P.size else 1.0


def _geo_tetrahedron(ctx, M, gen, p, tag, m, V, F, a):
    P = [p["P%d" % i] for i in range(1, 5)]
    _points_equal(ctx, gen, tag, V, P, "vertices_are_not_the_given_points", 1e-12 * _scale_of(P))
    _arity(ctx, gen, tag, F, 3, "faces_not_triangles")


def _colored(ctx, gen, tag, m, p):
    ok, has = ctx.call(gen + ":has_attribute", _has_attr, m.faces, "color", monitor="call")
    ctx.check(has == bool(p["colored"]), "switch", gen, ("colored_true_but_no_color_attribute" if p["colored"] else "color_attribute_without_colored") + tag,
              "%s(colored=%s): face attribute 'color' present=%s" % (gen, p["colored"], has))
    if has:
        try:
            keys = [int(k) for k in m.faces.get_attribute("color")]
            if any(k >= len(m.faces) for k in keys):
                ctx.note("color attribute has entries for non-existent faces (%s)" % gen)
        except Exception:
            pass


def _geo_hexahedron(ctx, M, gen, p, tag, m, V, F, a):
    P = [p["P%d" % i] for i in range(1, 9)]
    _points_equal(ctx, gen, tag, V, P, "vertices_are_not_the_given_points", 1e-12 * _scale_of(P))
    _arity(ctx, gen, tag, F, 3 if p["triangulate"] else 4, "triangulate_true_but_not_triangles" if p["triangulate"] else "triangulate_false_but_not_quads")
    _sides(ctx, gen, tag, F, list(range(8)))
    _colored(ctx, gen, tag, m, p)


def _sides(ctx, gen, tag, F, label):
    """every face lies in one of the six sides of the docstring's numbering (label[i] = docstring number of vertex i)."""
    sides = [frozenset(s) for s in R.HEX_SIDES]
    bad = [f for f in F if not any(frozenset(label[v] for v in f) <= s for s in sides)]
    ctx.check(not bad, "geometry", gen, "face_not_on_a_side_of_the_hexahedron" + tag,
              "%s: a face joins vertices that do not share a side in the docstring's numbering" % gen, faces=bad[:4])


def _geo_axis_aligned_cube(ctx, M, gen, p, tag, m, V, F, a):
    ctx.check(bool(np.all(np.abs(np.abs(V) - 0.5) <= 1e-15)) and len({tuple(np.sign(v)) for v in V}) == 8, "geometry", gen, "not_the_unit_cube_corners",
              "axis_aligned_cube: vertices are not the eight corners (+-0.5)^3", vertices=V)
    _arity(ctx, gen, tag, F, 3 if p["triangulate"] else 4, "triangulate_true_but_not_triangles" if p["triangulate"] else "triangulate_false_but_not_quads")
    flat = all(any(len({float(V[v][k]) for v in f}) == 1 for k in range(3)) for f in F)
    ctx.check(flat, "geometry", gen, "face_not_axis_aligned", "axis_aligned_cube: a face is not contained in a coordinate plane", faces=F)
    _colored(ctx, gen, tag, m, p)


def _geo_hexahedron_4pts(ctx, M, gen, p, tag, m, V, F, a):
    P1, P2, P3, P4 = (np.array(p["P%d" % i], float) for i in range(1, 5))
    X, Y, Z = P2 - P1, P3 - P1, P4 - P1
    tol = 1e-12 * max(_scale_of([P1, P2, P3, P4]), 1e-300) * 8
    corners = {(i, j, k): P1 + i * X + j * Y + k * Z for i in (0, 1) for j in (0, 1) for k in (0, 1)}
    lab = []
    for v in V:
        hit = [key for key, c in corners.items() if np.all(np.abs(v - c) <= tol)]
        lab.append(hit[0] if len(hit) == 1 else None)
    okk = None not in lab and len(set(lab)) == 8
    if not ctx.check(okk, "geometry", gen, "vertices_are_not_the_parallelepiped_corners" + tag,
                     "hexahedron_4pts: vertices are not P1 + {0,1}(P2-P1) + {0,1}(P3-P1) + {0,1}(P4-P1)", vertices=V, params=_brief(p)):
        return
    _arity(ctx, gen, tag, F, 4, "faces_not_quads")
    planar = all(any(len({lab[v][k] for v in f}) == 1 for k in range(3)) for f in F)
    ctx.check(planar, "geometry", gen, "face_not_on_a_side_of_the_hexahedron" + tag, "hexahedron_4pts: a face is not one of the six sides", faces=F)
    _colored(ctx, gen, tag, m, p)


def _regular(ctx, gen, V, F, arity, degree):
    _arity(ctx, gen, "", F, arity, "wrong_face_arity")
    deg = R.vertex_degrees(len(V), F)
    ctx.check(set(deg) == {degree}, "geometry", gen, "wrong_vertex_degree", "%s: vertex degrees %s, expected all %d" % (gen, sorted(set(deg)), degree))
    L = R.edge_lengths(V, F)
    ctx.check(bool(np.ptp(L) <= 1e-9 * np.max(L)), "geometry", gen, "edges_not_all_equal", "%s: edge lengths range over [%.12g, %.12g]" % (gen, L.min(), L.max()))


def _geo_octahedron(ctx, M, gen, p, tag, m, V, F, a):
    _regular(ctx, gen, V, F, 3, 4)
    d = R.dist_to_point(V, [0, 0, 0])
    ctx.check(bool(np.ptp(d) <= 1e-12), "geometry", gen, "not_centred_at_origin", "octahedron: vertices are not equidistant from the origin", dist=d)


def _geo_dodecahedron(ctx, M, gen, p, tag, m, V, F, a):
    _regular(ctx, gen, V, F, 5, 3)
    d = R.dist_to_point(V, [0, 0, 0])
    ctx.check(bool(np.ptp(d) <= 1e-9 * d.max()), "geometry", gen, "not_centred_at_origin", "dodecahedron: vertices are not equidistant from the origin", dist=d)


def _geo_icosahedron(ctx, M, gen, p, tag, m, V, F, a):
    _regular(ctx, gen, V, F, 3, 5)
    c = np.array(p["center"], float)
    d = R.dist_to_point(V, c)
    tol = 1e-9 * (float(np.linalg.norm(c)) + float(d.max()))
    ctx.check(bool(np.ptp(d) <= tol), "geometry", gen, "not_centred_at_center", "icosahedron: vertices are not equidistant from `center`", dist=d, center=c)
    _at_radius(ctx, gen, tag, V, c, p["radius"])
    if p["uv"]:
        try:
            names = list(m.vertices.attributes) + list(m.face_corners.attributes)
        except Exception:
            names = []
        ctx.note("icosahedron(uv=True): " + ("some attribute created" if names else "no uv attribute created (switch ignored, not judged)"))


def _geo_icosphere(ctx, M, gen, p, tag, m, V, F, a):
    _arity(ctx, gen, tag, F, 3, "faces_not_triangles")
    _at_radius(ctx, gen, tag, V, p["center"], p["radius"])


def _geo_sphere_uv(ctx, M, gen, p, tag, m, V, F, a):
    _at_radius(ctx, gen, tag, V, p["center"], p["radius"])
    # n_long different longitudes among the vertices off the polar axis
    c = np.array(p["center"], float)
    W = (V - c) / p["radius"]
    off = W[np.hypot(W[:, 0], W[:, 1]) > 1e-6]
    lon = np.round(np.mod(np.arctan2(off[:, 1], off[:, 0]), 2 * math.pi) / (2 * math.pi) * p["n_long"], 3)
    lon = np.mod(lon, p["n_long"])
    nl = len(set(lon.tolist()))
    big = float(np.linalg.norm(c)) > 1e3 * p["radius"]
    if not big:
        ctx.check(nl == p["n_long"], "counts", gen, "wrong_number_of_longitudes", "sphere_uv: %d different longitudes, n_long=%d" % (nl, p["n_long"]))
        # "n_lat different latitudes for points": counted with or without the poles
        nz = R.n_clusters(W[:, 2], 1e-7)
        ctx.check(nz in (p["n_lat"], p["n_lat"] + 1, p["n_lat"] + 2), "counts", gen, "wrong_number_of_latitudes",
                  "sphere_uv: %d different latitudes (poles included), n_lat=%d" % (nz, p["n_lat"]))


def _geo_sphere_fibonacci(ctx, M, gen, p, tag, m, V, F, a):
    _arity(ctx, gen, tag, F, 3, "faces_not_triangles")
    _at_radius(ctx, gen, tag, V, [0, 0, 0], p["radius"])


def _geo_torus(ctx, M, gen, p, tag, m, V, F, a):
    R_, r = p["major_radius"], p["minor_radius"]
    rho = np.hypot(np.hypot(V[:, 0], V[:, 1]) - R_, V[:, 2])
    i = int(np.argmax(np.abs(rho - r)))
    ctx.check(bool(abs(rho[i] - r) <= 1e-9 * (R_ + r)), "geometry", gen, "vertex_not_on_the_torus",
              "torus: vertex %d lies at %.9g from the core circle of radius %.9g, minor radius %.9g" % (i, rho[i], R_, r), params=_brief(p))
    _arity(ctx, gen, tag, F, 3 if p["triangulate"] else 4, "triangulate_true_but_not_triangles" if p["triangulate"] else "triangulate_false_but_not_quads")
    # number of segments = number of different angular positions around the axis / around the core circle
    a, b = p["major_segments"], p["minor_segments"]
    hyp = np.hypot(V[:, 0], V[:, 1])
    u = np.mod(np.round(np.mod(np.arctan2(V[:, 1], V[:, 0]), 2 * math.pi) / (2 * math.pi) * a, 3), a)
    w = np.mod(np.round(np.mod(np.arctan2(V[:, 2], hyp - R_), 2 * math.pi) / (2 * math.pi) * b, 3), b)
    nu_, nw_ = len(set(u.tolist())), len(set(w.tolist()))
    ctx.check(nu_ == a and nw_ == b, "counts", gen, "wrong_number_of_segments",
              "torus: %d angular positions around the axis and %d around the core circle for %d x %d segments" % (nu_, nw_, a, b))


def _geo_cylinder(ctx, M, gen, p, tag, m, V, F, a):
    A, B, r, N = np.array(p["P1"], float), np.array(p["P2"], float), p["radius"], p["N"]
    t, rho = R.line_coords(V, A, B)
    L = float(np.linalg.norm(B - A))
    scale = float(np.linalg.norm(A)) + float(np.linalg.norm(B)) + r
    tol = 1e-9 * scale
    on_axis = rho <= tol
    on_wall = np.abs(rho - r) <= tol
    at_end = (np.abs(t) * L <= tol) | (np.abs(t - 1) * L <= tol)
    bad = np.where(~(at_end & (on_axis | on_wall)))[0]
    ctx.check(len(bad) == 0, "geometry", gen, "vertex_not_on_the_cylinder" + tag,
              "cylinder: a vertex is neither on an end circle of the requested radius nor an end point of the axis",
              first_bad=(int(bad[0]) if len(bad) else None), rho=(float(rho[bad[0]]) if len(bad) else None),
              t=(float(t[bad[0]]) if len(bad) else None), radius=r, params=_brief(p))
    n0 = int(np.sum(on_wall & (np.abs(t) * L <= tol)))
    n1 = int(np.sum(on_wall & (np.abs(t - 1) * L <= tol)))
    ctx.check(n0 == N and n1 == N, "counts", gen, "segments_per_end_circle" + tag, "cylinder: %d / %d vertices on the end circles, N=%d" % (n0, n1, N))
    if len(bad) == 0 and n0 == N and n1 == N:
        # N segments = N different angular positions on each end circle (chord between neighbours = 2 r sin(pi/N))
        for end in (0, 1):
            P = V[on_wall & ((np.abs(t - end)) * L <= tol)]
            dmin = min(float(np.linalg.norm(P[i] - P[j])) for i in range(len(P)) for j in range(i))
            ctx.check(dmin >= 2 * r * math.sin(math.pi / N) * (1 - 1e-6), "counts", gen, "end_circle_points_not_evenly_distinct" + tag,
                      "cylinder: two vertices of an end circle are closer than the chord of a regular %d-gon" % N, dmin=dmin)
    ncap = int(np.sum(on_axis))
    ctx.check(ncap == (2 if p["fill_caps"] else 0), "switch", gen, "fill_caps_not_honoured" + tag,
              "cylinder(fill_caps=%s): %d vertices on the axis" % (p["fill_caps"], ncap))
    if not p["fill_caps"]:
        ll = sorted(len(l) for l in a["border_loops"])
        ctx.check(ll == [N, N], "shape", gen, "border_loops_are_not_the_end_circles" + tag, "open cylinder: border loops of lengths %s, N=%d" % (ll, N))


def _apex_defect(ctx, gen, tag, p, V, F, cover):
    apex = R.apex_of_fan(len(V), F)
    if not ctx.check(apex is not None, "apex", gen, "no_apex_vertex" + tag, "%s: no vertex is common to all triangles" % gen):
        return
    s = R.angle_sum_at(V, F, apex)
    want = min(max(p["defect"], 0.0), 2 * math.pi - 0.01)
    got = 2 * math.pi - s
    ctx.check(abs(got - want) <= 1e-5, "apex", gen, "angle_defect_not_as_requested" + tag,
              "%s: angle defect at the apex is %.9g, requested %.9g" % (gen, got, want), N=p["N"], got=got, want=want)


def _geo_ring(ctx, M, gen, p, tag, m, V, F, a):
    _arity(ctx, gen, tag, F, 3, "faces_not_triangles")
    if p["n_cover"] == 1:
        _apex_defect(ctx, gen, tag, p, V, F, 1)
    apex = R.apex_of_fan(len(V), F)
    if apex is not None:
        on_border = any(apex in l for l in a["border_loops"])
        ctx.check(on_border == bool(p["open"]), "switch", gen, "open_not_honoured" + tag,
                  "ring(open=%s): apex on the border = %s" % (p["open"], on_border))


def _geo_flat_ring(ctx, M, gen, p, tag, m, V, F, a):
    _arity(ctx, gen, tag, F, 3, "faces_not_triangles")
    ctx.check(bool(np.all(np.abs(V[:, 2]) <= 1e-12)), "geometry", gen, "not_flat", "flat_ring: a vertex has z != 0")
    if p["n_cover"] == 1:
        _apex_defect(ctx, gen, tag, p, V, F, 1)


def _geo_triangle(ctx, M, gen, p, tag, m, V, F, a):
    P = [p["P%d" % i] for i in range(3)]
    _points_equal(ctx, gen, tag, V, P, "vertices_are_not_the_given_points", 1e-12 * _scale_of(P))


def _geo_quad(ctx, M, gen, p, tag, m, V, F, a):
    P0, P1, P2 = (np.array(p["P%d" % i], float) for i in range(3))
    want = [P0, P1, P2, P1 + P2 - P0]
    tol = 1e-12 * _scale_of(want) * 4
    ctx.check(R.match_point_sets(V, want, tol), "geometry", gen, "corners_are_not_P0_P1_P2_and_P1+P2-P0",
              "quad: the four vertices are not P0, P1, P2 and P1+P2-P0", vertices=V, want=want)
    _arity(ctx, gen, tag, F, 3 if p["triangulate"] else 4, "triangulate_true_but_not_triangles" if p["triangulate"] else "triangulate_false_but_not_quads")
    # the quad is the parallelogram P0 P1 P3 P2: the border loop visits P3 opposite to P0
    loop = a["border_loops"][0] if a["border_loops"] else []
    if len(loop) == 4:
        i0 = min(range(4), key=lambda i: float(np.linalg.norm(V[loop[i]] - P0)))
        opp = V[loop[(i0 + 2) % 4]]
        ctx.check(bool(np.all(np.abs(opp - want[3]) <= tol)), "geometry", gen, "fourth_point_not_opposite_P0",
                  "quad: the border does not run P0, P1, P1+P2-P0, P2", loop=[V[i] for i in loop])


def _uvs(ctx, gen, tag, m, V, p):
    ok, has = ctx.call(gen + ":has_attribute", _has_attr, m.vertices, "uv_coords", monitor="call")
    if not ctx.check(has == bool(p["generate_uvs"]), "switch", gen,
                     ("generate_uvs_true_but_no_uv_coords" if p["generate_uvs"] else "uv_coords_without_generate_uvs") + tag,
                     "%s(generate_uvs=%s): vertex attribute 'uv_coords' present=%s" % (gen, p["generate_uvs"], has)):
        return
    if has:
        def read():
            at = m.vertices.get_attribute("uv_coords")
            return np.array([np.asarray(at[i], float).reshape(-1)[:2] for i in range(len(V))], float)
        ok, UV = ctx.call(gen + ":read_uv_coords", read, monitor="call", abort=False)
        if not ok:
            return
        err = np.abs(UV - V[:, :2]).max(axis=1) if UV.shape == (len(V), 2) else np.array([1.0])
        i = int(np.argmax(err))
        ctx.check(bool(err[i] <= 1e-12), "geometry", gen, "uv_coords_differ_from_xy" + tag,
                  "%s: uv_coords of vertex %d is %s while the vertex lies at (x,y)=%s" % (gen, i, UV[i].tolist() if UV.ndim == 2 else "?", V[i, :2].tolist()),
                  params=_brief(p))


def _geo_unit_grid(ctx, M, gen, p, tag, m, V, F, a):
    nu, nv = p["nu"], p["nv"]
    tol = 1e-12
    inside = bool(np.all(V[:, :2] >= -tol) and np.all(V[:, :2] <= 1.0 + tol) and np.all(np.abs(V[:, 2]) <= tol))
    ctx.check(inside, "geometry", gen, "vertex_outside_unit_square" + tag, "unit_grid: a vertex is outside [0,1]^2 x {0}")
    ctx.check(all(R.has_point(V, c, tol) for c in ((0, 0, 0), (1, 0, 0), (0, 1, 0), (1, 1, 0))), "geometry", gen, "corner_missing" + tag,
              "unit_grid: a corner of the unit square is no vertex")
    nx, ny = R.n_clusters(V[:, 0], 1e-9), R.n_clusters(V[:, 1], 1e-9)
    ctx.check(nx == nu and ny == nv, "geometry", gen, "subdivisions_on_wrong_axis" + tag,
              "unit_grid(nu=%d, nv=%d): %d distinct abscissae (horizontal axis) and %d distinct ordinates" % (nu, nv, nx, ny))
    gx, gy = V[:, 0] * (nu - 1), V[:, 1] * (nv - 1)
    ix, iy = np.rint(gx), np.rint(gy)
    on = bool(np.all(np.abs(gx - ix) <= 1e-9) and np.all(np.abs(gy - iy) <= 1e-9))
    full = {(int(x), int(y)) for x, y in zip(ix, iy)} == {(x, y) for x in range(nu) for y in range(nv)}
    ctx.check(on and full, "geometry", gen, "not_the_regular_lattice" + tag, "unit_grid: vertices are not the regular nu x nv lattice of the unit square")
    _arity(ctx, gen, tag, F, 3 if p["triangulate"] else 4, "triangulate_true_but_not_triangles" if p["triangulate"] else "triangulate_false_but_not_quads")
    _uvs(ctx, gen, tag, m, V, p)


def _geo_unit_triangle(ctx, M, gen, p, tag, m, V, F, a):
    tol = 1e-12
    inside = bool(np.all(V[:, :2] >= -tol) and np.all(V[:, 0] + V[:, 1] <= 1.0 + tol) and np.all(np.abs(V[:, 2]) <= tol))
    ctx.check(inside, "geometry", gen, "vertex_outside_unit_triangle" + tag, "unit_triangle: a vertex is outside the triangle (0,0),(1,0),(0,1)",
              params=_brief(p))
    ctx.check(all(R.has_point(V, c, tol) for c in ((0, 0, 0), (1, 0, 0), (0, 1, 0))), "geometry", gen, "corner_missing" + tag,
              "unit_triangle: a corner of the unit right triangle is no vertex", params=_brief(p),
              extent=[float(V[:, 0].max()), float(V[:, 1].max())])
    _arity(ctx, gen, tag, F, 3, "faces_not_triangles")
    _uvs(ctx, gen, tag, m, V, p)


# ----------------------------------------------------------------------------- volume results
def _judge_volume(ctx, M, gen, p, tag, m):
    _type(ctx, gen, tag, m, "VolumeMesh", "volume_true_but_not_a_volume_mesh")
    V, F = _read(ctx, gen, m)
    ok, C = ctx.call(gen + ":read_cells", build.cells_list, m, monitor="call")
    if gen == "tetrahedron":
        P = [p["P%d" % i] for i in range(1, 5)]
        sides = [(1, 2, 3), (0, 2, 3), (0, 1, 3), (0, 1, 2)]
        _points_equal(ctx, gen, tag, V, P, "vertices_are_not_the_given_points", 1e-12 * _scale_of(P))
    else:
        sides = R.HEX_SIDES
        if gen == "hexahedron":
            P = [p["P%d" % i] for i in range(1, 9)]
            _points_equal(ctx, gen, tag, V, P, "vertices_are_not_the_given_points", 1e-12 * _scale_of(P))
        else:
            P1, P2, P3, P4 = (np.array(p["P%d" % i], float) for i in range(1, 5))
            X, Y = P2 - P1, P3 - P1
            P = [P1, P1 + X, P1 + X + Y, P1 + Y, P4, P4 + X, P4 + X + Y, P4 + Y]
            ctx.check(R.match_point_sets(V, P, 1e-11 * _scale_of(P)), "geometry", gen, "vertices_are_not_the_parallelepiped_corners" + tag,
                      "hexahedron_4pts: vertices are not the corners of the requested parallelepiped", vertices=V)
    ctx.check(len(V) == (4 if gen == "tetrahedron" else 8), "counts", gen, "vertex_count" + tag, "%s: %d vertices" % (gen, len(V)))
    bad = R.volume_report(len(V), C, F, sides)
    ctx.check(not bad, "volume", gen, (bad[0][0] if bad else "ok") + tag, "%s(volume=True): %s" % (gen, bad[0][1] if bad else ""),
              cells=C, faces=F, detail=(bad[0][2] if bad else None))
    if p.get("colored") or p.get("triangulate"):
        ctx.note("%s: colored/triangulate together with volume=True (not judged)" % gen)


# ----------------------------------------------------------------------------- polylines
def _judge_polyline(ctx, M, gen, p, m, aux):
    _type(ctx, gen, "", m, "PolyLine", "not_a_polyline")
    V, _ = _read(ctx, gen, m, want_faces=False)
    ok, E = ctx.call(gen + ":read_edges", build.edges_list, m, monitor="call")
    Es = sorted(tuple(sorted(e)) for e in E)
    if gen == "chain_of_vertices":
        A = aux["A"]
        n = len(A)
        A3 = np.pad(A, ((0, 0), (0, 3 - A.shape[1])))
        ctx.check(V.shape == A3.shape and bool(np.all(V == A3)), "polyline", gen, "vertices_are_not_the_given_points",
                  "chain_of_vertices: vertices differ from the input array", got=V[:4], want=A3[:4])
        want = [(i, i + 1) for i in range(n - 1)] + ([(0, n - 1)] if p["loop"] else [])
        ctx.check(Es == sorted(want), "polyline", gen, "edges_are_not_the_chain" + ("[loop]" if p["loop"] else "[open]"),
                  "chain_of_vertices(loop=%s): edges %s" % (p["loop"], Es[:8]), n=n)
    else:
        O, W = aux["O"], aux["W"]
        n = len(O)
        O3 = np.pad(O, ((0, 0), (0, 3 - O.shape[1])))
        W3 = np.pad(W, ((0, 0), (0, 3 - W.shape[1])))
        want = np.empty((2 * n, 3))
        want[0::2] = O3
        want[1::2] = O3 + p["length_mult"] * W3
        tol = 1e-12 * max(_scale_of(want), 1e-300)
        ctx.check(V.shape == want.shape and bool(np.all(np.abs(V - want) <= tol)), "polyline", gen, "vertices_are_not_origin_and_tip",
                  "vector_field: vertex 2i / 2i+1 are not origin_i / origin_i + length_mult*vector_i", got=V[:4], want=want[:4])
        ctx.check(Es == [(2 * i, 2 * i + 1) for i in range(n)], "polyline", gen, "edges_are_not_origin_to_tip",
                  "vector_field: edges are not (2i, 2i+1)", edges=Es[:8])


# ----------------------------------------------------------------------------- merged results
def _judge_composite(ctx, gen, p, tag, V, F, aux):
    nV = len(V)
    a = _valid_surface(ctx, gen, tag, nV, F, p)
    A = aux["A"]
    if gen == "spherify_vertices":
        k = len(A)
        each = R.counts("icosphere", {"n_refine": p["n_subdiv"]})
        ctx.check(nV == k * each["V"] and len(F) == k * each["F"], "counts", gen, "element_count" + tag,
                  "spherify_vertices: %d vertices / %d faces for %d points (icosphere: %d / %d)" % (nV, len(F), k, each["V"], each["F"]))
        want, kw = "sphere", k
    else:
        E = aux["E"]
        k = len(E)
        ctx.check(nV == k * 2 * p["N"], "counts", gen, "element_count", "cylindrify_edges: %d vertices for %d edges, N=%d" % (nV, k, p["N"]))
        want, kw = "annulus", k
    comps = R.split_components(F, a["face_component"])
    if not ctx.check(len(comps) == kw, "shape", gen, "wrong_number_of_components" + tag, "%s: %d components for %d inputs" % (gen, len(comps), kw)):
        return
    for (n_c, F_c, ids) in comps:
        a_c = topo.analyse(n_c, F_c)
        got = R.shape_of(a_c)
        if not ctx.check(got == want, "shape", gen, "component_not_a_%s%s" % (want, tag), "%s: a component is %s" % (gen, got)):
            return
    # geometry: each component around its point / edge
    if gen == "spherify_vertices":
        r = p["radius"]
        left = list(range(k))
        worst = 0.0
        okk = True
        for (n_c, F_c, ids) in comps:
            P = V[ids]
            c = P.mean(axis=0)
            j = min(left, key=lambda i: float(np.linalg.norm(A[i] - c))) if left else None
            if j is None:
                okk = False
                break
            left.remove(j)
            d = R.dist_to_point(P, A[j])
            worst = max(worst, float(np.max(np.abs(d - r))) / r)
            if np.max(np.abs(d - r)) > 1e-9 * (float(np.linalg.norm(A[j])) + r):
                okk = False
        ctx.check(okk, "geometry", gen, "vertex_not_at_radius" + tag,
                  "spherify_vertices: a sphere's vertices are not at `radius` from its point (worst relative deviation %.3g)" % worst,
                  radius=r, n_subdiv=p["n_subdiv"])
    else:
        E = aux["E"]
        Lmean = float(np.mean([np.linalg.norm(A[u] - A[v]) for (u, v) in E]))
        cand = [p["radius"], p["radius"] * Lmean]
        left = list(range(k))
        okk, which = True, set()
        for (n_c, F_c, ids) in comps:
            P = V[ids]
            c = P.mean(axis=0)
            j = min(left, key=lambda i: float(np.linalg.norm(0.5 * (A[E[i][0]] + A[E[i][1]]) - c)))
            left.remove(j)
            t, rho = R.line_coords(P, A[E[j][0]], A[E[j][1]])
            L = float(np.linalg.norm(A[E[j][0]] - A[E[j][1]]))
            scale = float(np.abs(A).max()) + max(cand)
            tol = 1e-9 * scale
            ends = bool(np.all((np.abs(t) * L <= tol) | (np.abs(t - 1) * L <= tol)))
            hit = [i for i, r in enumerate(cand) if np.all(np.abs(rho - r) <= tol)]
            if not ends or not hit:
                okk = False
                break
            which.update(hit)
        ctx.check(okk and len(which) >= 1, "geometry", gen, "component_is_not_a_cylinder_around_its_edge",
                  "cylindrify_edges: a component is not a cylinder of radius `radius` (absolute or relative to the mean edge length) around its edge",
                  radius=p["radius"], mean_edge_length=Lmean)
        if okk:
            ctx.note("cylindrify_edges radius is " + ("absolute" if which == {0} else "relative to mean edge length" if which == {1} else "ambiguous"))


# ----------------------------------------------------------------------------- dual
def _judge_dual(ctx, gen, p, V, F, a, aux):
    z = aux["z"]
    ZV, ZF = np.asarray(z["V"], float), z["F"]
    ra = aux["dual_topo"]
    ctx.cls("dual_input:" + z["cls"].split("~")[0].split("+")[0])
    ctx.check(len(V) == len(ZF) and len(F) == len(ZV), "dual", "counts", "dual_counts_not_swapped",
              "dual_mesh: %d vertices / %d faces for an input with %d faces / %d vertices" % (len(V), len(F), len(ZF), len(ZV)))
    ctx.check(a["closed"] and a["chi"] == ra["chi"] and a["n_components"] == ra["n_components"], "dual", "topology", "dual_topology_differs",
              "dual_mesh: closed=%s chi=%d components=%d, input chi=%d components=%d" % (a["closed"], a["chi"], a["n_components"], ra["chi"], ra["n_components"]),
              input_class=z["cls"])
    if len(F) == len(ZV):
        bad = [v for v in range(len(ZV)) if not R.same_cycle(F[v], aux["dual"][v])]
        ctx.check(not bad, "dual", "rings", "dual_face_is_not_the_vertex_ring", "dual_mesh: face %s is not the cycle of faces around that vertex" % bad[:3],
                  got=[F[v] for v in bad[:3]], want=[aux["dual"][v] for v in bad[:3]])
    if len(V) == len(ZF):
        scale = float(np.abs(ZV).max())
        if p["mode"].lower() == "barycenter":
            B = np.array([ZV[f].mean(axis=0) for f in ZF])
            ctx.check(bool(np.all(np.abs(V - B) <= 1e-12 * scale)), "dual", "positions", "dual_vertex_is_not_the_face_barycenter",
                      "dual_mesh(barycenter): a dual vertex is not the barycenter of its face")
        else:
            okk, n = True, 0
            for i, f in enumerate(ZF):
                P = ZV[f]
                angs = [R.corner_angle(P[k], P[(k + 1) % 3], P[(k + 2) % 3]) for k in range(3)]
                if min(angs) < 0.2:
                    continue
                n += 1
                d = R.dist_to_point(P, V[i])
                nrm = np.cross(P[1] - P[0], P[2] - P[0])
                off = abs(float((V[i] - P[0]) @ nrm)) / float(np.linalg.norm(nrm))
                rad = float(d.mean())
                if np.ptp(d) > 1e-7 * (rad + scale) or off > 1e-7 * (rad + scale):
                    okk = False
            if n:
                # the circumcentre itself is a geometric quantity of C07 (geometry.circumcenter); recorded, not judged here
                ctx.note("dual_mesh(circumcenter): dual vertices " + ("are" if okk else "are NOT") + " the face circumcentres (C07's quantity, not judged)")
