"""C10 - spanning trees and forests span, are acyclic, and respect exclusions.

Shape: reference-model differential monitor (reference adjacency from the raw lists, BFS distances, Kruskal weight)."""
import math
import random

import numpy as np

from .. import build
from ..ref import topo
from ..ref.surface_ref import RefSurface
from ..ref.volume_ref import RefVolume, tri
from ..zoo import surfaces, volumes, graphs
from ..ctx import stable_hash

ID = "C10"
RULE = ("polylines / surfaces / tetrahedral volumes from the zoos incl. disconnected ones; every tree kind (vertex BFS tree, minimal spanning tree, "
        "dual face tree, cell tree) and every forest kind; random roots; random exclusion sets (incl. disconnecting ones) and avoid_boundary; "
        "MST weights one/length/custom dict/Attribute with ties; both traversal orders; non-trivial = non-empty exclusion set (or avoid_boundary) on a "
        "graph with a cycle, or a disconnected mesh; distinct = (mesh, tree kind, root, exclusions) hash"
        "; variants: library-chosen roots, n_trees, deep trees, free (zero-cost) edges in a dict or as never-written entries of a sparse attribute")
REQUIRED = {"tree": 2000, "bfs_depth": 300, "mst": 100, "forest": 100, "traverse": 300}
CASE_TIMEOUT = {"quick": 30.0, "thorough": 600.0}
ASSUMPTIONS = ["exclusion sets are sets of edge ids (vertex / face trees) or face ids (cell trees) of the mesh's own numbering",
               "MST ties: only the total weight is compared"]


def cases(seed, tier):
    rng = random.Random(seed * 48271 + 10)
    n = 360 if tier == "quick" else 80000
    out = [{"gen": ["polyline", "surface", "surface", "volume"][i % 4], "seed": rng.randrange(2 ** 31)} for i in range(n)]
    out += [{"gen": "hexes", "seed": rng.randrange(2 ** 31)} for i in range(n // 12)]
    # trees whose depth is in the thousands (path graphs, one-triangle-wide strips): both traversal orders must still visit everything
    out += [{"gen": "deep", "seed": rng.randrange(2 ** 31), "n": [1500, 3000, 5000][i % 3], "what": ["polyline", "strip"][i % 2]} for i in range(4 if tier == "quick" else 40)]
    return out


def _components(nodes, adj):
    comp = {}
    for s in nodes:
        if s in comp:
            continue
        comp[s] = s
        st = [s]
        while st:
            u = st.pop()
            for v in adj.get(u, ()):
                if v not in comp:
                    comp[v] = s
                    st.append(v)
    return comp


def _check_tree(ctx, kind, tree, n, adj, root, bfs=True):
    """adj: admissible adjacency (dict node -> set).  Generic structural checks; returns reached set or None."""
    op = kind
    try:
        parent = list(tree.parent)
        children = [list(c) for c in tree.children]
        tedges = [tuple(sorted(int(x) for x in e)) for e in tree.edges]
    except Exception as e:
        ctx.violation("tree", op, "malformed_tables", "parent/children/edges tables are malformed: %s" % type(e).__name__)
        return None
    ctx.obs("tree", op)
    if len(parent) != n or len(children) != n:
        ctx.violation("tree", op, "wrong_table_size", "parent/children tables do not have one entry per element", got=len(parent), want=n)
        return None
    comp = _components(range(n), adj)
    want = {v for v in range(n) if comp[v] == comp[root]}
    reached = {v for v in range(n) if v == root or parent[v] is not None}
    if reached != want:
        ctx.violation("tree", op, "crosses_exclusion_or_leaves_component" if (reached - want) else "does_not_reach_component",
                      "reached elements are not exactly those connected to the root in the admissible graph",
                      extra=sorted(reached - want)[:8], missing=sorted(want - reached)[:8], root=root)
        return None
    if parent[root] is not None:
        ctx.violation("tree", op, "root_has_parent", "the root has a parent", root=root, parent=parent[root])
        return None
    # parent / children mutually inverse; tree edges
    for v in range(n):
        if v in reached and v != root:
            p = parent[v]
            if not (isinstance(p, (int, np.integer)) and 0 <= p < n and v in children[p]):
                ctx.violation("tree", op, "parent_children_inconsistent", "a node is not listed among the children of its parent", node=v, parent=p)
                return None
            if p not in adj.get(v, ()):
                ctx.violation("tree", op, "tree_edge_not_admissible", "a tree edge is not an admissible adjacency of the mesh (excluded or not adjacent)", node=v, parent=p)
                return None
        elif v not in reached and (parent[v] is not None or children[v]):
            ctx.violation("tree", op, "unreached_has_links", "an unreached element has a parent or children", node=v)
            return None
        for c in children[v]:
            if parent[c] != v:
                ctx.violation("tree", op, "parent_children_inconsistent", "a child does not name this node as its parent", node=v, child=c)
                return None
        if len(set(children[v])) != len(children[v]):
            ctx.violation("tree", op, "duplicate_child", "a node lists a child twice", node=v)
            return None
    if bfs:
        want_edges = sorted((min(v, parent[v]), max(v, parent[v])) for v in reached if v != root)
        if sorted(tedges) != want_edges or len(tedges) != len(reached) - 1:
            ctx.violation("tree", op, "edge_list_mismatch", "tree edge list is not {(parent,child)}: one fewer edges than reached elements",
                          n_edges=len(tedges), reached=len(reached))
            return None
    # acyclicity of parent chains (each reached node walks up to the root)
    for v in reached:
        x, steps = v, 0
        while x != root:
            x = parent[x]
            steps += 1
            if steps > n:
                ctx.violation("tree", op, "parent_cycle", "parent chain does not lead to the root", node=v)
                return None
    # traversal
    for order in ("BFS", "DFS"):
        ok, seq = ctx.call("traverse_" + order, lambda: list(tree.traverse(order)), monitor="traverse", abort=False)
        if not ok:
            continue
        ctx.obs("traverse", order)
        seen = set()
        good = True
        for item in seq:
            try:
                node, par = item
            except Exception:
                good = False
                break
            if node in seen or (par is None) != (node == root) or (par is not None and (par not in seen or parent[node] != par)):
                good = False
                break
            seen.add(node)
        if not good or seen != reached:
            ctx.violation("traverse", order, "bad_traversal", "traversal does not visit every reached element exactly once, parents before children",
                          visited=len(seen), reached=len(reached))
    # two traversals of the same tree alive at the same time (nested loops over its nodes, zip of a BFS and a DFS walk): each one is complete
    def interleaved():
        ita, itb = tree.traverse("BFS"), tree.traverse("DFS")
        out_a, out_b = [], []
        for a in ita:
            out_a.append(a)
            b = next(itb, None)
            if b is not None:
                out_b.append(b)
        out_b.extend(itb)
        return out_a, out_b
    ok, both = ctx.call("traverse_interleaved", interleaved, monitor="traverse", abort=False)
    if ok:
        ctx.obs("traverse", "interleaved")
        for order, seq in zip(("BFS", "DFS"), both):
            seen, good = set(), True
            for item in seq:
                try:
                    node, par = item
                except Exception:
                    good = False
                    break
                if node in seen or (par is not None and par not in seen):
                    good = False
                    break
                seen.add(node)
            if not good or seen != reached:
                ctx.violation("traverse", "interleaved", "bad_traversal_when_two_are_alive", "with two traversals of one tree alive at once, a traversal does not visit "
                              "every reached element exactly once", order=order, visited=len(seen), reached=len(reached))
    return reached


def _bfs_depth_check(ctx, kind, tree, adj, root, reached):
    dref = graphs.bfs(0, adj, root)
    parent = tree.parent
    ctx.obs("bfs_depth", kind)
    depth = {root: 0}
    for v in reached:
        chain = []
        x = v
        while x not in depth:
            chain.append(x)
            x = parent[x]
        d = depth[x]
        for y in reversed(chain):
            d += 1
            depth[y] = d
    bad = [v for v in reached if depth[v] != dref.get(v)]
    if bad:
        ctx.violation("bfs_depth", kind, "not_minimum_hop_distance", "a breadth-first tree gives an element a depth different from its hop distance to the root",
                      node=bad[0], depth=depth[bad[0]], hop=dref.get(bad[0]))


HEX_FACES = [(0, 1, 2, 3), (4, 5, 6, 7), (0, 3, 7, 4), (0, 1, 5, 4), (1, 2, 6, 5), (2, 3, 7, 6)]


def _deep_case(desc, ctx):
    import mouette as M
    T = M.processing.trees
    rng = random.Random(desc["seed"])
    n = desc["n"]
    ctx.cls("deep:%s:%d" % (desc["what"], n))
    ctx.nontrivial(stable_hash(["deep", desc["what"], n, desc["seed"]]))
    if desc["what"] == "polyline":
        V = [[float(i), 0.1 * math.sin(i), 0.0] for i in range(n)]
        E = [(i, i + 1) for i in range(n - 1)]
        ok, m = ctx.call("build", build.polyline, V, E, monitor="tree")
        adj = {v: set() for v in range(n)}
        for a, b in E:
            adj[a].add(b)
            adj[b].add(a)
        root = rng.choice([0, n - 1, rng.randrange(n)])
        ok, tree = ctx.call("EdgeSpanningTree", lambda: T.EdgeSpanningTree(m, root)(), monitor="tree", abort=False)
        if ok:
            _check_tree(ctx, "vertex_tree", tree, n, adj, root)
    else:
        k = n // 2
        V = [[float(i), 0.0, 0.0] for i in range(k + 1)] + [[float(i), 1.0, 0.0] for i in range(k + 1)]
        F = []
        for i in range(k):
            F += [[i, i + 1, k + 1 + i], [i + 1, k + 2 + i, k + 1 + i]]
        ok, m = ctx.call("build", build.surface, V, F, monitor="tree")
        nF = len(F)
        fadj = {f: set() for f in range(nF)}
        for f in range(nF - 1):
            fadj[f].add(f + 1)
            fadj[f + 1].add(f)
        root = rng.choice([0, nF - 1, rng.randrange(nF)])
        ok, tree = ctx.call("FaceSpanningTree", lambda: T.FaceSpanningTree(m, root)(), monitor="tree", abort=False)
        if ok:
            _check_tree(ctx, "face_tree", tree, nF, fadj, root)


def _hex_case(desc, ctx):
    """Cell trees / forests on hexahedral blocks (the statement speaks of cells, not of tetrahedra)."""
    import mouette as M
    T = M.processing.trees
    rng = random.Random(desc["seed"])
    V, C = volumes.hex_block(volumes.random_cubes(rng, rng.randint(2, 9)))
    ok, m = ctx.call("build", build.volume, V, C, monitor="tree")
    nC = len(C)
    ctx.cls("mesh:hexes")
    faces = [tuple(sorted(int(x) for x in f)) for f in m.faces]
    fid = {t: i for i, t in enumerate(faces)}
    face_cells = {}
    for ci, c in enumerate(C):
        for hf in HEX_FACES:
            face_cells.setdefault(tuple(sorted(c[i] for i in hf)), []).append(ci)
    for rep in range(3):
        forb = None
        if rep >= 1:
            forb = set(rng.sample(range(len(faces)), rng.randint(1, max(1, len(faces) // 3))))
            if rng.random() < 0.35:
                forb.add(0)
        cadj = {c: set() for c in range(nC)}
        for t, cl in face_cells.items():
            if len(cl) == 2 and not (forb is not None and fid.get(t) in forb):
                cadj[cl[0]].add(cl[1])
                cadj[cl[1]].add(cl[0])
        root = rng.randrange(nC)
        ctx.cls("cell_tree_hex:" + ("forbidden" if forb else "plain"))
        ok, tree = ctx.call("CellSpanningTree", lambda: T.CellSpanningTree(m, root, forb)(), monitor="tree", abort=False)
        if ok:
            reached = _check_tree(ctx, "cell_tree", tree, nC, cadj, root)
            if reached is not None:
                _bfs_depth_check(ctx, "cell_tree", tree, cadj, root, reached)
                if forb:
                    ctx.nontrivial(stable_hash([len(V), C[:40], "hex_ct", root, sorted(forb)]))
    cadj = {c: set() for c in range(nC)}
    for t, cl in face_cells.items():
        if len(cl) == 2:
            cadj[cl[0]].add(cl[1])
            cadj[cl[1]].add(cl[0])
    ok, forest = ctx.call("CellSpanningForest", lambda: T.CellSpanningForest(m)(), monitor="forest", abort=False)
    if ok:
        _check_forest(ctx, "cell_forest", forest, nC, cadj)


def run_case(desc, ctx):
    import mouette as M
    T = M.processing.trees
    rng = random.Random(desc["seed"])
    g = desc["gen"]
    if g == "hexes":
        return _hex_case(desc, ctx)
    if g == "deep":
        return _deep_case(desc, ctx)
    F = C = None
    if g == "polyline":
        V, E, cls = graphs.make(rng.randrange(2 ** 31))
        ok, m = ctx.call("build", build.polyline, V, E, monitor="tree")
        E = set(E)
    elif g == "surface":
        z = surfaces.make(rng.randrange(2 ** 31), max_size=6)
        V, F, cls = z["V"], z["F"], "surface"
        if desc["seed"] % 2 == 0:
            # faces in any order (the faces of two components interleaved, as after a merge followed by a sort, or in a triangle soup)
            F = [list(f) for f in F]
            random.Random(desc["seed"] ^ 0xface).shuffle(F)
            ctx.cls("surface:face_order_shuffled")
        ok, m = ctx.call("build", build.surface, V, F, monitor="tree")
        E = topo.edges_of(F)
    else:
        z = volumes.make(rng.randrange(2 ** 31), max_size=2)
        V, C, cls = z["V"], z["C"], "volume"
        if desc["seed"] % 2 == 0:
            C = [list(c) for c in C]
            random.Random(desc["seed"] ^ 0xce11).shuffle(C)
            ctx.cls("volume:cell_order_shuffled")
        ok, m = ctx.call("build", build.volume, V, C, monitor="tree")
        E = RefVolume(len(V), C).edges
    n = len(V)
    V = np.array(V, dtype=float)
    unit = rng.choice([1.0, 1.0, 1.0, 1e-9, 1e6])
    if unit != 1.0:
        ctx.cls("units:%g" % unit)
        V = V * unit
        for i in range(n):
            m.vertices[i] = M.Vec(V[i].copy())
    if rng.random() < 0.3:
        # history: measured earlier (persistent edge lengths), then deformed in place: 'length' weights are those of the current geometry
        ctx.cls("history:measured_then_deformed")
        ctx.call("attributes.edge_length", M.attributes.edge_length, m, monitor="tree")
        V = V * np.array([rng.choice([0.2, 1.0, 4.0]) for _ in range(3)])
        for i in range(n):
            m.vertices[i] = M.Vec(V[i].copy())
    ctx.cls("mesh:" + (("polyline:" + cls) if g == "polyline" else cls))
    edges = build.edges_list(m)
    eid = {e: i for i, e in enumerate(edges)}
    if set(edges) != E:
        ctx.violation("tree", "setup", "edge_container_mismatch", "mesh edge container differs from the reference edge set (C02)")
        return
    # border edges (reference)
    border = set()
    if F is not None:
        border = set(RefSurface(n, F).border_edges)
    elif C is not None:
        border = set(RefVolume(n, C).border_edges)
    comps_all = len(set(graphs.components(n, E)))
    has_cycle = len(E) > n - comps_all

    # ---------------- vertex BFS trees
    for rep in range(3):
        root = 0 if rng.random() < 0.2 else rng.randrange(n)
        avoid_b = (g != "polyline") and rep == 1
        avoid = None
        if rep == 2 or (rep == 0 and rng.random() < 0.5):
            k = rng.randint(1, max(1, len(edges) // 3))
            avoid = set(rng.sample(range(len(edges)), k))
            if rng.random() < 0.35:
                avoid.add(0)  # id 0 is a legitimate element of an exclusion set
        r_both = random.Random(desc["seed"] * 3 + rep).random()
        if rep == 1 and r_both < 0.5:
            # both options together (independent of each other): an exclusion set - possibly empty - next to avoid_boundary
            avoid = set() if r_both < 0.15 else set(random.Random(desc["seed"] + 17).sample(range(len(edges)), min(len(edges), 1 + len(edges) // 6)))
            ctx.cls("vertex_tree:both_options:%s" % ("empty_exclusion_set" if not avoid else "exclusion_set"))
        adj = {v: set() for v in range(n)}
        for e in E:
            if avoid is not None and eid[e] in avoid:
                continue
            if avoid_b and e in border:
                continue
            adj[e[0]].add(e[1])
            adj[e[1]].add(e[0])
        ctx.cls("vertex_tree:%s%s" % ("avoid_boundary" if avoid_b else "", "+avoid_edges" if avoid else ""))
        chosen_by_library = rng.random() < 0.15
        if chosen_by_library:
            # no root given: the library picks one; whatever it picks must be a vertex and the tree must be a tree of that root
            ctx.cls("vertex_tree:root_chosen_by_library")
            ok, tree = ctx.call("EdgeSpanningTree", lambda: T.EdgeSpanningTree(m, None, avoid_boundary=avoid_b, avoid_edges=avoid)(), monitor="tree", abort=False)
            try:
                root = int(tree.root)
                assert 0 <= root < n
            except Exception:
                ctx.violation("tree", "vertex_tree", "library_chosen_root_is_not_an_element", "a tree built without a root does not report a valid root", root=getattr(tree, "root", None))
                ok = False
        else:
            ok, tree = ctx.call("EdgeSpanningTree", lambda: T.EdgeSpanningTree(m, root, avoid_boundary=avoid_b, avoid_edges=avoid)(), monitor="tree", abort=False)
        if ok:
            reached = _check_tree(ctx, "vertex_tree", tree, n, adj, root)
            if reached is not None:
                _bfs_depth_check(ctx, "vertex_tree", tree, adj, root, reached)
                if (avoid or avoid_b) and has_cycle or comps_all > 1:
                    ctx.nontrivial(stable_hash([g, n, sorted(E)[:60], "vt", root, sorted(avoid or []), avoid_b]))

    # ---------------- minimal spanning tree
    for rep in range(2):
        mode = ["one", "length", "dict", "attr", "dict_ties", "dict_zero_or_small", "attr_partly_unset", "dict_with_infinite_costs"][(desc["seed"] + rep) % 8]
        salt = rng.randrange(2 ** 31)

        def w(e):
            if mode == "one":
                return 1.0
            if mode == "length":
                return float(np.linalg.norm(np.asarray(V[e[0]], float) - np.asarray(V[e[1]], float)))
            r = random.Random((e[0] * 1000003 + e[1]) ^ salt)
            if mode == "dict_with_infinite_costs":
                # some edges are "never to be taken unless there is no other way" (cost inf): still admissible, a bridge among them must be taken
                return float("inf") if r.random() < 0.3 else r.uniform(0.1, 5)
            if mode in ("dict_zero_or_small", "attr_partly_unset"):
                # free edges (cost exactly 0: a 0/1 cost, or an entry of a sparse attribute that was never written) next to costs below 1
                return 0.0 if r.random() < 0.35 else r.choice([0.25, 0.5, 1.0, r.uniform(0.05, 0.95)])
            return float(r.randint(1, 3)) if mode == "dict_ties" else r.uniform(0.1, 5)
        if mode in ("one", "length"):
            warg = mode
        elif mode == "attr":
            warg = m.edges.create_attribute("mst_w%d" % rep, float)
            for i, e in enumerate(edges):
                warg[i] = w(e)
        elif mode == "attr_partly_unset":
            warg = m.edges.create_attribute("mst_w%d" % rep, float)
            for i, e in enumerate(edges):
                if w(e) != 0.0:
                    warg[i] = w(e)
        else:
            warg = {i: w(e) for i, e in enumerate(edges)}
        avoid_b = (g != "polyline") and rep == 1
        adm = [e for e in E if not (avoid_b and e in border)]
        root = rng.randrange(n)
        ctx.cls("mst:" + mode + ("+avoid_boundary" if avoid_b else ""))
        ok, tree = ctx.call("EdgeMinimalSpanningTree", lambda: T.EdgeMinimalSpanningTree(m, root, avoid_boundary=avoid_b, weights=warg)(), monitor="mst", abort=False)
        if not ok:
            continue
        ctx.obs("mst", mode)
        try:
            tedges = [tuple(sorted(int(x) for x in e)) for e in tree.edges]
        except Exception:
            ctx.violation("mst", mode, "malformed_edges", "MST edge list is malformed")
            continue
        admset = set(adm)
        if any(e not in admset for e in tedges):
            ctx.violation("mst", mode, "edge_not_admissible", "an MST edge is not an admissible mesh edge", example=[e for e in tedges if e not in admset][:3])
            continue
        # acyclic + spanning every component of the admissible graph
        par = list(range(n))

        def find(x):
            while par[x] != x:
                par[x] = par[par[x]]
                x = par[x]
            return x
        cyc = False
        for a, b in tedges:
            ra, rb = find(a), find(b)
            if ra == rb:
                cyc = True
                break
            par[ra] = rb
        if cyc:
            ctx.violation("mst", mode, "has_cycle", "MST edge list contains a cycle")
            continue
        ncomp = len(set(graphs.components(n, adm)))
        if len(tedges) != n - ncomp:
            ctx.violation("mst", mode, "does_not_span", "MST edge list does not span every component of the admissible graph", n_edges=len(tedges), want=n - ncomp)
            continue
        # reference Kruskal weight
        par2 = list(range(n))

        def find2(x):
            while par2[x] != x:
                par2[x] = par2[par2[x]]
                x = par2[x]
            return x
        wref = 0.0
        for e in sorted(adm, key=w):
            ra, rb = find2(e[0]), find2(e[1])
            if ra != rb:
                par2[ra] = rb
                wref += w(e)
        wgot = sum(w(e) for e in tedges)
        if math.isinf(wref):
            # an infinitely expensive edge is unavoidable: every spanning forest weighs inf, the spanning clauses above are what is judged
            ctx.note("mst_weight_not_compared(infinite_cost_unavoidable)")
        elif abs(wgot - wref) > 1e-9 * max(1.0, wref):
            ctx.violation("mst", mode, "not_minimum_weight", "total MST weight is not the minimum", got=wgot, want=wref)
            continue
        # orientation of the root's component
        tadj = {v: set() for v in range(n)}
        for a, b in tedges:
            tadj[a].add(b)
            tadj[b].add(a)
        _check_tree(ctx, "mst_orientation", tree, n, tadj, root, bfs=False)
        if has_cycle:
            ctx.nontrivial(stable_hash([g, n, sorted(E)[:60], "mst", root, mode, avoid_b]))

    # ---------------- vertex forest
    ok, forest = ctx.call("EdgeSpanningForest", lambda: T.EdgeSpanningForest(m)(), monitor="forest", abort=False)
    if ok:
        adj = {v: set() for v in range(n)}
        for e in E:
            adj[e[0]].add(e[1])
            adj[e[1]].add(e[0])
        _check_forest(ctx, "vertex_forest", forest, n, adj)
        if comps_all > 1:
            ctx.nontrivial(stable_hash([g, n, sorted(E)[:60], "vforest"]))

    # ---------------- dual face trees
    if F is not None:
        ref = RefSurface(n, F)
        nF = len(F)
        for rep in range(3):
            forb = None
            if rep >= 1:
                forb = set(rng.sample(range(len(edges)), rng.randint(1, max(1, len(edges) // (2 if rep == 1 else 1) // 2))))
                if rng.random() < 0.35:
                    forb.add(0)
            fadj = {f: set() for f in range(nF)}
            for (u, v), (fi, k) in ref.he.items():
                o = ref.he.get((v, u))
                if o is None:
                    continue
                if forb is not None and eid[(min(u, v), max(u, v))] in forb:
                    continue
                fadj[fi].add(o[0])
            root = rng.randrange(nF)
            ctx.cls("face_tree:" + ("forbidden" if forb else "plain"))
            if rng.random() < 0.15:
                ctx.cls("face_tree:root_chosen_by_library")
                ok, tree = ctx.call("FaceSpanningTree", lambda: T.FaceSpanningTree(m, None, forb)(), monitor="tree", abort=False)
                try:
                    root = int(tree.root)
                    assert 0 <= root < nF
                except Exception:
                    ctx.violation("tree", "face_tree", "library_chosen_root_is_not_an_element", "a tree built without a root does not report a valid root", root=getattr(tree, "root", None))
                    ok = False
            else:
                ok, tree = ctx.call("FaceSpanningTree", lambda: T.FaceSpanningTree(m, root, forb)(), monitor="tree", abort=False)
            if ok:
                reached = _check_tree(ctx, "face_tree", tree, nF, fadj, root)
                if reached is not None:
                    _bfs_depth_check(ctx, "face_tree", tree, fadj, root, reached)
                    if forb:
                        ctx.nontrivial(stable_hash([n, F[:40], "ft", root, sorted(forb)]))
            if rep == 2:
                ok, forest = ctx.call("FaceSpanningForest", lambda: T.FaceSpanningForest(m, forb)(), monitor="forest", abort=False)
                if ok:
                    _check_forest(ctx, "face_forest", forest, nF, fadj)

    # ---------------- cell trees
    if C is not None:
        ref = RefVolume(n, C)
        nC = len(C)
        faces = [tri(*f) for f in build.faces_list(m)]
        fid = {t: i for i, t in enumerate(faces)}
        for rep in range(3):
            forb = None
            if rep >= 1:
                forb = set(rng.sample(range(len(faces)), rng.randint(1, max(1, len(faces) // 3))))
                if rng.random() < 0.35:
                    forb.add(0)
            cadj = {c: set() for c in range(nC)}
            for t, cl in ref.face_cells.items():
                if len(cl) == 2 and not (forb is not None and fid[t] in forb):
                    cadj[cl[0]].add(cl[1])
                    cadj[cl[1]].add(cl[0])
            root = rng.randrange(nC)
            ctx.cls("cell_tree:" + ("forbidden" if forb else "plain"))
            if rng.random() < 0.15:
                ctx.cls("cell_tree:root_chosen_by_library")
                ok, tree = ctx.call("CellSpanningTree", lambda: T.CellSpanningTree(m, None, forb)(), monitor="tree", abort=False)
                try:
                    root = int(tree.root)
                    assert 0 <= root < nC
                except Exception:
                    ctx.violation("tree", "cell_tree", "library_chosen_root_is_not_an_element", "a tree built without a root does not report a valid root", root=getattr(tree, "root", None))
                    ok = False
            else:
                ok, tree = ctx.call("CellSpanningTree", lambda: T.CellSpanningTree(m, root, forb)(), monitor="tree", abort=False)
            if ok:
                reached = _check_tree(ctx, "cell_tree", tree, nC, cadj, root)
                if reached is not None:
                    _bfs_depth_check(ctx, "cell_tree", tree, cadj, root, reached)
                    if forb:
                        ctx.nontrivial(stable_hash([n, C[:40], "ct", root, sorted(forb)]))
        cadj = {c: set() for c in range(nC)}
        for t, cl in ref.face_cells.items():
            if len(cl) == 2:
                cadj[cl[0]].add(cl[1])
                cadj[cl[1]].add(cl[0])
        ok, forest = ctx.call("CellSpanningForest", lambda: T.CellSpanningForest(m)(), monitor="forest", abort=False)
        if ok:
            _check_forest(ctx, "cell_forest", forest, nC, cadj)
    if n <= 7:
        ctx.sample({"mesh": g, "vertices": n, "edges": sorted(E), "faces": F, "cells": C, "checked": "trees, MST, forests vs reference graph"})


def _check_forest(ctx, kind, forest, n, adj):
    ctx.obs("forest", kind)
    # the forest's edge list is read first, twice: reading it must not change the trees
    ok, fe1 = ctx.call("forest.edges", lambda: [tuple(sorted(int(x) for x in e)) for e in forest.edges], monitor="forest", abort=False)
    ok2, fe2 = ctx.call("forest.edges", lambda: [tuple(sorted(int(x) for x in e)) for e in forest.edges], monitor="forest", abort=False)
    if ok and ok2:
        try:
            union = sorted(tuple(sorted(int(x) for x in e)) for t in forest.trees for e in t.edges)
        except Exception:
            union = None
        if sorted(fe1) != sorted(fe2) or union is None or sorted(fe2) != union or len(set(fe2)) != len(fe2):
            ctx.violation("forest", kind, "forest_edge_list_inconsistent", "forest.edges is not the union of the trees' edges, each once (or changes when read again)",
                          first=len(fe1), second=len(fe2), union=None if union is None else len(union))
            return
    comp = _components(range(n), adj)
    ncomp = len(set(comp.values()))
    try:
        trees = list(forest.trees)
        roots = [int(r) for r in forest.roots]
    except Exception:
        ctx.violation("forest", kind, "malformed_forest", "forest has no trees/roots lists")
        return
    try:
        nt = int(forest.n_trees)
        same = all(forest[i] is trees[i] for i in range(len(trees)))
    except Exception:
        nt, same = None, False
    if nt != len(trees) or not same:
        ctx.violation("forest", kind, "tree_count_or_indexing_inconsistent", "forest.n_trees / forest[i] do not agree with forest.trees", n_trees=nt, trees=len(trees))
        return
    if len(trees) != ncomp or len(roots) != ncomp:
        ctx.violation("forest", kind, "wrong_number_of_trees", "forest does not have exactly one tree per connected component", trees=len(trees), roots=len(roots), components=ncomp)
        return
    if len({comp[r] for r in roots}) != ncomp:
        ctx.violation("forest", kind, "roots_not_representatives", "forest roots are not one per component")
        return
    covered = {}
    for t, r in zip(trees, roots):
        reached = _check_tree(ctx, kind + "_tree", t, n, adj, int(t.root))
        if reached is None:
            return
        for v in reached:
            covered[v] = covered.get(v, 0) + 1
    if set(covered) != set(range(n)) or any(c != 1 for c in covered.values()):
        ctx.violation("forest", kind, "not_a_partition", "forest trees do not cover every element exactly once",
                      uncovered=sorted(set(range(n)) - set(covered))[:8], multiply=[v for v, c in covered.items() if c > 1][:8])
        return
    ok, seq = ctx.call("forest_traverse", lambda: list(forest.traverse("BFS")), monitor="forest", abort=False)
    if ok:
        nodes = [x[0] for x in seq]
        if sorted(nodes) != list(range(n)):
            ctx.violation("forest", kind, "bad_traversal", "forest traversal does not visit every element exactly once", visited=len(nodes), n=n)


def timeout_verdict(desc, rec):
    """The per-case watchdog counts CPU time of the worker (virtual time, not wall-clock): these cases are small graphs / short histories that take
    milliseconds, so a case that has burnt the whole CPU budget (hundreds of times the slowest case ever observed) contains a call that does not
    terminate - which refutes the property for that input.  A *hang* (no CPU burnt) stays inconclusive."""
    if rec.get("status") != "timeout":
        return None
    return {"monitor": "termination", "op": str(desc.get("gen", "case")), "mechanism": "termination:%s:call_still_running_after_the_cpu_budget" % desc.get("gen", "case"),
            "what": "a call into the library was still running when the case had used its whole CPU-time budget (%.0f s; such cases take milliseconds)" % CASE_TIMEOUT["quick"],
            "witness": {"case": desc}}
