"""C08 - discrete differential operators satisfy their defining identities.

Shape: reference-model differential monitor.  `mv/ref/operators_ref.py` assembles dense matrices from the raw data
(V, F, C, E) alone; every sparse matrix returned by `mouette.operators.*` is densified and compared entry by entry, and the
algebraic identities of the statement (symmetry, zero row sums, Re(G^H A G) = L, affine gradients, mass sums, entrywise
inverse/sqrt, one entry per incidence) are evaluated on the returned matrices themselves.

Histories: every operator on its own fresh mesh object ("fresh"), or all operators in a random order on one object that shares
the cached attributes ("shared"), or the same after corner angles were cached, which switches the cotangent code path ("angles"),
or the same on an object that already carries the attributes the operators pick up by name ("area", "cotan", "angles", vertex
"normals", cell "volume"), stored as dictionaries ("cached_sparse") or arrays ("cached_dense").

Units: a share of every input kind is re-expressed in very small / very large units of length (uniform scale 1e-7, 1e-9, 1e6);
every identity is homogeneous in the unit and every tolerance is relative to the size of the operator's own entries."""
import math
import random

import numpy as np

from .. import build
from ..ctx import stable_hash
from ..ref import operators_ref as R
from ..ref import topo
from ..zoo import surfaces, volumes, graphs, c08_inputs

ID = "C08"
RULE = ("certified oriented manifold triangulations from the surface zoo (grids, holes, annuli, tori, genus 2, spheres, Delaunay disks, fans, "
        "anchors, disjoint unions; flipped / renumbered / face-rotated / rigidly moved and scaled; regular and generic position), planar "
        "triangulations (flat connection), polygon surfaces (graph operators, documented rejections), tetrahedral meshes of the volume zoo and "
        "graph polylines; each operator option (cotan/uniform, weights one/length/custom, inverse, sqrt, oriented, complex/real gradient, matrix "
        "format); each kind also in units of 1e-7, 1e-9 and 1e6; operators evaluated on fresh objects, or in random order on one object sharing "
        "mouette's cached attributes, or on an object that already carries those attributes stored sparsely (dict) or densely (array); "
        "non-trivial = triangulated surface with >= 20 faces and a border, or >= 20 cells; distinct = distinct (coordinates, element list) hash")
REQUIRED = {
    "lap_cotan/stiffness": 60, "lap_cotan/symmetric": 60, "lap_cotan/row_sum": 60, "lap_uniform/stiffness": 60,
    "grad/divgrad": 60, "grad/affine_complex": 120, "grad/affine_real": 120, "grad/basis": 60,
    "mass/vertex_sum": 60, "mass/vertex_option": 150, "mass/faces": 60, "mass/edges": 60,
    "graph_lap/degree_minus_adjacency": 100, "adjacency/one": 100, "adjacency/length": 100, "adjacency/custom": 100,
    "incidence/vertex_edge": 100, "incidence/vertex_edge_oriented": 100, "incidence/vertex_face": 60,
    "dual_lap/symmetric": 100, "dual_lap/row_sum": 100, "dual_lap/uniform_values": 50,
    "edge_lap/symmetric": 100, "edge_lap/row_sum": 100,
    "vol_lap/symmetric": 20, "vol_lap/row_sum": 20, "vol_lap/stiffness": 8, "tet_lap/degree_minus_adjacency": 20,
    "vol_mass/vertex_sum": 20, "vol_mass/cells": 20, "vol_mass/option": 60,
    "conn_lap/vertices_hermitian": 50, "conn_lap/faces_hermitian": 50, "conn_lap/edges_hermitian": 50,
}
CASE_TIMEOUT = {"quick": 30.0, "thorough": 600.0}
ASSUMPTIONS = [
    "surfaces are oriented manifold triangulations without unused vertices, every corner angle has sine >= 0.02 (else the case is skipped and noted)",
    "sign convention read from the code and the div-grad test: the Laplacian is the positive semi-definite stiffness matrix (positive diagonal)",
    "laplacian(cotan=False) is read as the stiffness matrix with every cotangent replaced by 1 (border edges weigh 1/2); equality with the "
    "graph Laplacian is accepted as well",
    "vertex mass = sum of the areas (volumes) of the incident faces (cells): entries sum to 3 x area (4 x volume); faces/edges/cells 1 x",
    "oriented vertex-edge incidence: -1 at the first (origin) and +1 at the second (arrival) end of the edge as stored in mesh.edges",
    "volume_laplacian is compared with the P1 stiffness matrix only on meshes without obtuse dihedral angle (the code uses |cot|; what it "
    "returns elsewhere is outside the statement and only noted)",
    "laplacian_edges is compared with the edge-based (Crouzeix-Raviart) stiffness matrix up to one global positive factor; "
    "laplacian_triangles(cotan=True) off-diagonal magnitudes with 1/|cot a + cot b| (sign left open, entries near the 1e-8 clamp not judged)",
    "vertex_to_face_operator is accepted in either orientation (|F|x|V| as returned, |V|x|F| as its docstring says)",
    "edge-indexed operators are compared in the edge numbering of mesh.edges (C01/C02 decide that numbering); values are recomputed",
    "connection (vector) Laplacians are not among the statement's options: only Hermitian symmetry and entry moduli equal to the scalar "
    "operator's are required of them",
    "config.sort_neighborhoods stays at its default",
]

EPS = 2.220446049250313e-16
FORMATS = ["csc", "csr", "coo", "lil", "dia"]
# histories (see module docstring); "cached_*": the attributes the operators pick up by name were put on the mesh beforehand,
# stored as dictionaries (sparse) or as arrays (dense)
HIST = ["fresh", "shared", "angles", "cached_sparse", "shared", "cached_dense"]
VHIST = ["fresh", "shared", "cached_sparse", "cached_dense"]
# uniform change of the unit of length applied to the certified input (1 = as drawn)
UNITS = [1e-7, 1e-9, 1e6]
SCALES = [1.0, 1.0, 1e-7, 1.0, 1e6, 1e-9, 1.0]  # period 7: coprime with the periods of the histories, formats and containers


# ----------------------------------------------------------------------------- case plan
def cases(seed, tier):
    rng = random.Random(seed * 15485863 + 8)
    quick = tier == "quick"
    n_tri, n_flat, n_poly, n_vol, n_graph = (220, 40, 30, 64, 46) if quick else (28000, 5000, 2500, 9000, 3500)
    out = []
    # anchors: the smallest inputs of each kind (one element, two elements, smallest closed surface), every history
    for h in ("fresh", "shared", "angles", "cached_sparse", "cached_dense"):
        for a in ("one_triangle", "two_triangles", "tetra_surface", "octahedron"):
            out.append({"gen": "tri", "anchor": a, "seed": 1, "generic": False, "history": h, "vrows": "list", "irows": "list", "fmt": "csc"})
    for h in ("fresh", "shared", "cached_sparse", "cached_dense"):
        for a in ("one_tet", "two_tets"):
            out.append({"gen": "vol", "anchor": a, "seed": 1, "jitter": 0.0, "history": h, "irows": "list", "fmt": "csr"})
    # the anchors again in very small and very large units (every identity is homogeneous in the unit of length)
    for k, sc in enumerate(UNITS):
        for a in ("two_triangles", "octahedron"):
            out.append({"gen": "tri", "anchor": a, "seed": 1, "generic": False, "history": HIST[k % len(HIST)], "vrows": "list", "irows": "list",
                        "fmt": "csc", "scale": sc})
        out.append({"gen": "vol", "anchor": "two_tets", "seed": 1, "jitter": 0.0, "history": VHIST[k % len(VHIST)], "irows": "list", "fmt": "csr",
                    "scale": sc})
    hist, vhist, scales = HIST, VHIST, SCALES
    vr = ["list", "tuple", "nprow", "vec"]
    ir = ["list", "tuple", "npint", "nprow"]
    for i in range(n_tri):
        big = i % 3 == 0  # a third of the surfaces: at least 20 faces and a border (the non-trivial class of RULE)
        out.append({"gen": "tri", "seed": rng.randrange(2 ** 31), "max_size": [6, 4, 8][i % 3] if quick else [8, 4, 12, 6][i % 4],
                    "generic": i % 2 == 0, "history": hist[i % len(hist)], "scale": scales[i % len(scales)], "vrows": vr[i % 4], "irows": ir[(i // 4) % 4],
                    "closed": False if big else [None, None, False, True][(i // 2) % 4], "min_faces": 20 if big else 1, "fmt": FORMATS[i % 5]})
    for i in range(n_flat):
        out.append({"gen": "flat", "seed": rng.randrange(2 ** 31), "max_size": [6, 4, 8][i % 3], "min_faces": 20 if i % 3 == 0 else 1,
                    "generic": i % 2 == 0, "history": hist[i % len(hist)], "scale": scales[(i + 2) % len(scales)], "vrows": vr[i % 4],
                    "irows": ir[(i // 4) % 4], "fmt": FORMATS[i % 5]})
    for i in range(max(8, n_flat // 3)):
        out.append({"gen": "flat", "seed": rng.randrange(2 ** 31), "max_size": [4, 6][i % 2], "min_faces": 1, "sliver": [1e-2, 2e-3, 5e-4][i % 3],
                    "generic": True, "history": hist[i % len(hist)], "vrows": vr[i % 4], "irows": ir[(i // 4) % 4], "fmt": FORMATS[i % 5]})
    for i in range(n_poly):
        out.append({"gen": "poly", "seed": rng.randrange(2 ** 31), "max_size": 5, "history": hist[i % 2], "scale": scales[(i + 1) % len(scales)],
                    "vrows": vr[i % 4], "irows": ir[(i // 4) % 4]})
    for i in range(n_vol):
        out.append({"gen": "vol", "seed": rng.randrange(2 ** 31), "max_size": [2, 3][i % 2] if quick else [2, 3, 4][i % 3],
                    "jitter": [0.0, 0.0, 0.02][i % 3], "history": vhist[i % len(vhist)], "scale": scales[(i + 3) % len(scales)], "irows": ir[i % 3], "fmt": FORMATS[i % 5]})
    for i in range(n_graph):
        out.append({"gen": "graph", "seed": rng.randrange(2 ** 31), "max_n": 30 if quick else 60, "history": hist[i % 2], "scale": scales[i % len(scales)],
                    "reverse": i % 3 == 1})
    # one vertex of very high valence (hub of a star-shaped polyline, apex of a fan or cone): degrees of 127, 128 and more
    for i, hub in enumerate([127, 128, 200] if quick else [127, 128, 129, 200, 255, 256, 257, 300, 1000]):
        out.append({"gen": "graph", "seed": rng.randrange(2 ** 31), "max_n": 30, "history": hist[i % 2], "scale": 1.0, "reverse": i % 2 == 1, "hub": hub})
        out.append({"gen": "tri", "anchor": "fan%d" % hub, "seed": 1, "generic": False, "history": HIST[i % len(HIST)], "vrows": "list", "irows": "list", "fmt": "csc"})
    return out


# ----------------------------------------------------------------------------- small helpers
def _dense(ctx, monitor, op, res, shape=None):
    """Densifies a returned sparse matrix; a malformed answer becomes a violation (returns None)."""
    import scipy.sparse as sp
    if res is None:
        return None
    if not sp.issparse(res):
        ctx.violation(monitor, op, "not_a_sparse_matrix", "operator did not return a scipy sparse matrix", type=type(res).__name__)
        return None
    try:
        D = np.asarray(res.toarray())
    except Exception as e:  # noqa
        ctx.violation(monitor, op, "matrix_not_densifiable", "returned matrix cannot be densified: %s" % str(e)[:100])
        return None
    if shape is not None:
        if not ctx.check(tuple(D.shape) == tuple(shape), monitor, "shape", "wrong_shape", "%s: returned matrix has the wrong shape" % op,
                         got=list(D.shape), want=list(shape), operator=op):
            return None
    return D


def _close(ctx, monitor, op, mech, what, got, ref, rel, classify=None, absolute=0.0, **w):
    """Entry-by-entry comparison with tolerance rel * max(row 1-norms) (+ absolute)."""
    got = np.asarray(got)
    ref = np.asarray(ref)
    if got.shape != ref.shape:
        ctx.check(False, monitor, op, mech + ":shape", what + " (shape)", got=list(got.shape), want=list(ref.shape), **w)
        return False
    if got.ndim == 1:
        got, ref = got[:, None], ref[:, None]
    tol = rel * R.row_norms(got, ref) + absolute
    ok, i, j, val = R.worst_entry(got - ref, tol)
    if ok:
        ctx.obs(monitor, op)
        return True
    where = classify(i, j) if classify else None
    ctx.check(False, monitor, op, mech + ("@" + where if where else ""), what, row=i, col=j, got=got[i, j], want=ref[i, j],
              tolerance=float(tol[i]), **w)
    return False


def _symmetric(ctx, monitor, L, rel, op="symmetric", classify=None, **w):
    tol = rel * R.row_norms(L, L.T)
    ok, i, j, val = R.worst_entry(L - L.T, tol)
    where = classify(i, j) if (classify and not ok) else None
    return ctx.check(ok, monitor, op, "not_symmetric" + ("@" + where if where else ""), "matrix differs from its transpose",
                     row=i, col=j, a_ij=L[i, j] if i >= 0 else None, a_ji=L[j, i] if i >= 0 else None, **w)


def _row_sums(ctx, monitor, L, rel, op="row_sum", **w):
    s = L.sum(axis=1)
    tol = rel * R.row_norms(L)
    bad = ~(np.abs(s) <= tol)
    i = int(np.argmax(np.where(bad, np.abs(np.nan_to_num(s, nan=np.inf)), -1))) if bad.any() else -1
    return ctx.check(not bad.any(), monitor, op, "row_sum_nonzero", "rows do not sum to zero (constants are not in the kernel)",
                     row=i, row_sum_abs=float(np.abs(s[i])) if i >= 0 else 0.0, row_norm1=float(np.abs(L[i]).sum()) if i >= 0 else 0.0, **w)


def _positive_diagonal(ctx, monitor, op, D, **w):
    d = np.diag(D)
    off = D - np.diag(d)
    ok = bool((off == 0).all()) and bool((d > 0).all()) and bool(np.isfinite(d).all())
    ctx.check(ok, monitor, op, "not_a_positive_diagonal", "mass matrix is not a diagonal matrix with strictly positive finite entries",
              n_offdiagonal=int((off != 0).sum()), min_diag=float(np.min(d)) if len(d) else None, **w)
    return d, ok


def _custom_weights(rng, m):
    w = {}
    for e in range(m):
        r = rng.random()
        w[e] = 0.0 if r < 0.03 else (-rng.uniform(0.1, 3) if r < 0.15 else rng.uniform(0.05, 7))
    if rng.random() < 0.6:
        # the same mapping filled in another order (border edges first, reversed ids, from a set ...): a dict is keyed by edge id, its insertion
        # order means nothing
        keys = list(w)
        rng.shuffle(keys)
        w = {k: w[k] for k in keys}
    return w


def _rescale(ctx, desc, V):
    """The certified input expressed in another unit of length (uniform scale about the origin)."""
    V = np.array(V, dtype=float)
    sc = float(desc.get("scale", 1.0) or 1.0)
    ctx.cls("unit:%g" % sc)
    if sc != 1.0:
        V = V * sc
    return V


def _attach(container, name, values, dense):
    """Stores `values` (one float per element) on the mesh under `name`, as a dictionary (sparse) or array (dense) attribute."""
    attr = container.create_attribute(name, float, dense=dense)
    for i in range(len(container)):
        attr[i] = float(values[i])
    return attr


def _precache_surface(ctx, M, m, dense, rng):
    """History "cached_*": before any operator runs, the mesh already carries the attributes that the operators pick up by name
    ("area" on faces always; "angles" / "cotan" on corners and "normals" on vertices for a random subset), holding the values
    mouette itself computes for them, stored sparsely (dictionary) or densely (array)."""
    A = M.attributes
    kind = "dense" if dense else "sparse"
    ctx.call("face_area", A.face_area, m, dense=dense, monitor="construct", abort=False)
    ctx.cls("precached:area:" + kind)
    if rng.random() < 0.5:
        ctx.call("vertex_normals", A.vertex_normals, m, dense=dense, monitor="construct", abort=False)
        ctx.cls("precached:normals:" + kind)
    want_angles, want_cotan = rng.random() < 0.4, rng.random() < 0.6
    try:  # corner attributes can only be made persistent as arrays by mouette; the dictionary flavour is attached by hand
        if want_angles:
            vals = A.corner_angles(m, persistent=False, dense=True)
            _attach(m.face_corners, "angles", vals, dense)
            ctx.cls("precached:angles:" + kind)
        if want_cotan:
            vals = A.cotangent(m, persistent=False, dense=True)
            _attach(m.face_corners, "cotan", vals, dense)
            ctx.cls("precached:cotan:" + kind)
    except Exception:  # noqa
        ctx.note("precache_failed")


class _Meshes:
    """Hands out the mesh object for the next operator call: a fresh one each time, or one shared object."""

    def __init__(self, ctx, maker, history, prepare=None):
        self.ctx, self.maker, self.history, self.prepare = ctx, maker, history, prepare
        self.shared = None
        self.count = 0

    def get(self):
        if self.history == "fresh" or self.shared is None:
            ok, m = self.ctx.call("construct", self.maker, monitor="construct")
            self.count += 1
            if self.history != "fresh":
                self.shared = m
                if self.prepare is not None:
                    self.prepare(m)
            return m
        return self.shared


# call-site names used in exception mechanisms: the operator's function name (one mechanism per function, whatever the options)
_SITE = {
    "adjacency_one": "adjacency_matrix", "adjacency_length": "adjacency_matrix", "adjacency_custom": "adjacency_matrix",
    "vertex_edge": "vertex_to_edge_operator", "vertex_edge_oriented": "vertex_to_edge_operator", "vertex_face": "vertex_to_face_operator",
    "laplacian_cotan": "laplacian", "laplacian_uniform": "laplacian", "gradient_flat": "gradient",
    "mass_faces": "area_weight_matrix_faces", "mass_faces_inverse": "area_weight_matrix_faces",
    "mass_edges": "area_weight_matrix_edges", "mass_edges_inverse": "area_weight_matrix_edges",
    "dual_cotan": "laplacian_triangles", "dual_uniform": "laplacian_triangles", "edge_cotan": "laplacian_edges", "edge_uniform": "laplacian_edges",
    "cotan_diag_inverse": "cotan_edge_diagonal", "cotan_diag": "cotan_edge_diagonal",
    "laplacian_connection": "laplacian(connection)", "dual_connection": "laplacian_triangles(connection)", "edge_connection": "laplacian_edges(connection)",
    "mass_cells": "volume_weight_matrix_cells", "mass_cells_inverse": "volume_weight_matrix_cells",
    "mass_cells_sqrt": "volume_weight_matrix_cells", "mass_cells_inverse_sqrt": "volume_weight_matrix_cells",
    "mass_vertices": "vertex_weight_matrix", "mass_vertices_inverse": "vertex_weight_matrix",
    "mass_vertices_sqrt": "vertex_weight_matrix", "mass_vertices_inverse_sqrt": "vertex_weight_matrix",
}


def _run_ops(ctx, meshes, ops, rng, shuffle):
    """ops: list of (name, monitor, fn(mesh) -> value).  Returns name -> value (None when the call raised: already reported)."""
    order = list(range(len(ops)))
    if shuffle:
        rng.shuffle(order)
    res = {}
    for k in order:
        name, monitor, fn = ops[k]
        m = meshes.get()
        ok, val = ctx.call(_SITE.get(name, name), fn, m, monitor=monitor, abort=False)
        res[name] = val if ok else None
    return res


# ----------------------------------------------------------------------------- graph-type operators (any mesh with edges)
def _graph_ops(O, rng_w, nE_hint):
    wdict = _custom_weights(rng_w, nE_hint)
    again = rng_w.random() < 0.5

    def graph_lap(m):
        if again:
            # history on the same mesh object: the vertex degrees were stored by the user, and the operator was already built once
            import mouette as _M
            _M.attributes.degree(m)
            O.graph_laplacian(m)
        return (O.graph_laplacian(m), build.edges_list(m))
    ops = [
        ("graph_laplacian", "graph_lap", graph_lap),
        ("adjacency_one", "adjacency", lambda m: (O.adjacency_matrix(m), build.edges_list(m))),
        ("adjacency_length", "adjacency", lambda m: (O.adjacency_matrix(m, weights="length"), build.edges_list(m))),
        ("adjacency_custom", "adjacency", lambda m: (O.adjacency_matrix(m, dict(wdict)), build.edges_list(m))),
        ("vertex_edge", "incidence", lambda m: (O.vertex_to_edge_operator(m), build.edges_list(m))),
        ("vertex_edge_oriented", "incidence", lambda m: (O.vertex_to_edge_operator(m, oriented=True), build.edges_list(m))),
    ]
    return ops, wdict


def _edges_ok(ctx, E, want_set):
    if E is None:
        return None
    try:
        E = [tuple(int(v) for v in e) for e in E]
    except Exception:
        ctx.note("edges_unreadable")
        return None
    keys = [R.edge_key(*e) for e in E if len(e) == 2]
    if len(keys) != len(E) or len(set(keys)) != len(keys) or set(keys) != want_set:
        ctx.note("edge_list_differs_from_raw_data")
        return None
    return E


def _verify_graph_ops(ctx, res, V, want_edges, wdict):
    import scipy.sparse as sp
    nV = len(V)

    def entries(M):
        try:
            C = M.tocoo()
            rows = [int(x) for x in C.row]
            cols = [int(x) for x in C.col]
            return list(zip(rows, cols))
        except Exception:
            return None

    def edge_class(E):
        es = {R.edge_key(a, b) for (a, b) in E}
        return lambda i, j: "diagonal" if i == j else ("edge" if R.edge_key(i, j) in es else "non_edge")

    # graph Laplacian
    r = res.get("graph_laplacian")
    if r is not None:
        E = _edges_ok(ctx, r[1], want_edges)
        D = _dense(ctx, "graph_lap", "graph_laplacian", r[0], (nV, nV))
        if E is not None and D is not None:
            _close(ctx, "graph_lap", "degree_minus_adjacency", "differs_from_degree_minus_adjacency",
                   "graph_laplacian is not (vertex degree) - (adjacency) of the edge list", D, R.graph_laplacian(nV, E), 1e-12,
                   classify=edge_class(E))
    # adjacency
    for name, wname in (("adjacency_one", "one"), ("adjacency_length", "length"), ("adjacency_custom", "custom")):
        r = res.get(name)
        if r is None:
            continue
        E = _edges_ok(ctx, r[1], want_edges)
        D = _dense(ctx, "adjacency", name, r[0], (nV, nV))
        if E is None or D is None:
            continue
        if wname == "one":
            w, rel = None, 1e-12
        elif wname == "length":
            w, rel = R.edge_lengths(V, E), 1e-9
        else:
            if len(wdict) != len(E):
                ctx.note("custom_weight_count_mismatch")
                continue
            w, rel = [wdict[e] for e in range(len(E))], 1e-12
        ent = entries(r[0])
        inc = sorted([(a, b) for (a, b) in E] + [(b, a) for (a, b) in E])
        ctx.check(ent is not None and sorted(ent) == inc, "adjacency", wname + "_entries", "not_one_entry_per_incidence",
                  "adjacency_matrix(%s) does not store exactly one entry per (edge, direction)" % wname,
                  stored=None if ent is None else len(ent), distinct=None if ent is None else len(set(ent)), want=len(inc))
        _close(ctx, "adjacency", wname, "wrong_weight_" + wname, "adjacency_matrix(%s) has a wrong value" % wname, D, R.adjacency(nV, E, w), rel,
               classify=edge_class(E))
    # vertex-edge incidence
    for name, oriented in (("vertex_edge", False), ("vertex_edge_oriented", True)):
        r = res.get(name)
        if r is None:
            continue
        E = _edges_ok(ctx, r[1], want_edges)
        D = _dense(ctx, "incidence", name, r[0], (nV, len(r[1]) if r[1] is not None else 0))
        if E is None or D is None:
            continue
        ref = R.vertex_edge_incidence(nV, E, oriented)
        ent = entries(r[0])
        inc = sorted([(a, e) for e, (a, b) in enumerate(E)] + [(b, e) for e, (a, b) in enumerate(E)])
        ctx.check(ent is not None and sorted(ent) == inc, "incidence", name + "_entries", "not_one_entry_per_incidence",
                  "vertex_to_edge_operator does not store exactly one entry per (vertex, edge) incidence",
                  stored=None if ent is None else len(ent), want=len(inc))
        if oriented:
            def cl(i, j, E=E):
                return "origin" if E[j][0] == i else ("arrival" if E[j][1] == i else "non_incident")
        else:
            def cl(i, j, E=E):
                return "incident" if i in E[j] else "non_incident"
        _close(ctx, "incidence", name, "wrong_sign_or_value", "vertex_to_edge_operator(oriented=%s) entry differs from the documented value" % oriented,
               D, ref, 1e-12, classify=cl)


# ----------------------------------------------------------------------------- triangulated surfaces
def _tri_case(ctx, desc, z, flat):
    import mouette as M
    O, P = M.operators, M.processing
    V, F = _rescale(ctx, desc, z["V"]), z["F"]
    a = z["topo"]
    nV, nF = len(V), len(F)
    rng = random.Random(desc["seed"] ^ 0xC08)
    Lc = float(np.abs(V).max())  # magnitude of the coordinates: the unit in which absolute quantities are expressed
    tg = R.tri_geometry(V, F)
    want_edges = R.edges_from_faces(F)
    nE = len(want_edges)
    border = set(a["border_edges"])
    ctx.cls("surface:" + z["cls"].split("~")[0].split("+")[0])
    ctx.cls("border:" + ("closed" if a["closed"] else "%d_loops" % min(len(a["border_loops"]), 3)))
    ctx.cls("position:" + ("generic" if desc.get("generic") else "regular"))
    ctx.cls("history:" + desc["history"])
    ctx.cls("containers:%s/%s" % (desc["vrows"], desc["irows"]))
    ctx.cls("components:%d" % min(a["n_components"], 2))
    if "~flip" in z["cls"]:
        ctx.cls("combinator:flip")
    if "~rigid" in z["cls"] or "~sim2d" in z["cls"]:
        ctx.cls("combinator:moved_scaled")
    if tg["min_sin"] < (1e-4 if desc.get("sliver") else 0.02):
        ctx.note("skipped_ill_conditioned_triangle")
        return
    # conditioning of every coordinate-difference based quantity: eps * |coordinates| / shortest edge
    lens = R.edge_lengths(V, sorted(want_edges))
    cond = float(np.abs(V).max()) / max(min(lens), 1e-300)
    rel = max(1e-9, 1e3 * EPS * cond)
    if desc.get("sliver"):
        rel = max(rel, 1e4 * EPS / tg["min_sin"])  # thin triangles: cotangents and gradients are conditioned like 1 / sin(smallest angle)
    if rel > 1e-6:
        ctx.note("skipped_ill_conditioned_coordinates")
        return
    if nF >= 20 and not a["closed"]:
        ctx.nontrivial(stable_hash([np.round(V / Lc, 9).tolist(), F, desc.get("scale", 1.0)]))

    fmt = desc.get("fmt", "csc")
    avec = [np.array([rng.gauss(0, 1) for _ in range(3)]) for _ in range(2)]
    avec.append(np.array([[1.0, 0, 0], [0, 1.0, 0], [0, 0, 1.0]][rng.randrange(3)]))
    bs = [rng.uniform(-5, 5) * Lc for _ in avec]

    def grad_bundle(conn_cls):
        def fn(m):
            conn = conn_cls(m)
            Gc = O.gradient(m, conn)
            Gr = O.gradient(m, conn, as_complex=False)
            bases = [conn.base(f) for f in range(nF)]
            return Gc, Gr, bases
        return fn

    wrng = random.Random(desc["seed"] ^ 0x77)
    gops, wdict = _graph_ops(O, wrng, nE)
    ops = list(gops)
    ops += [
        ("laplacian_cotan", "lap_cotan", lambda m: O.laplacian(m)),
        ("laplacian_uniform", "lap_uniform", (lambda m: O.laplacian(m, False)) if desc["seed"] % 2 else (lambda m: O.laplacian(m, cotan=False))),
        ("gradient", "grad", grad_bundle(P.SurfaceConnectionFaces)),
        ("mass_faces", "mass", lambda m: O.area_weight_matrix_faces(m)),
        ("mass_faces_inverse", "mass", lambda m: O.area_weight_matrix_faces(m, inverse=True, format=fmt)),
        ("mass_vertices", "mass", lambda m: O.area_weight_matrix(m)),
        ("mass_vertices_inverse", "mass", lambda m: O.area_weight_matrix(m, inverse=True, format=fmt)),
        ("mass_vertices_sqrt", "mass", lambda m: O.area_weight_matrix(m, sqrt=True, format=fmt)),
        ("mass_vertices_inverse_sqrt", "mass", lambda m: O.area_weight_matrix(m, inverse=True, sqrt=True)),
        ("mass_edges", "mass", lambda m: (O.area_weight_matrix_edges(m), build.edges_list(m))),
        ("mass_edges_inverse", "mass", lambda m: (O.area_weight_matrix_edges(m, inverse=True), build.edges_list(m))),
        ("vertex_face", "incidence", lambda m: O.vertex_to_face_operator(m)),
        ("dual_cotan", "dual_lap", lambda m: O.laplacian_triangles(m)),
        ("dual_uniform", "dual_lap", lambda m: O.laplacian_triangles(m, cotan=False)),
        ("edge_cotan", "edge_lap", lambda m: (O.laplacian_edges(m), build.edges_list(m))),
        ("edge_uniform", "edge_lap", lambda m: (O.laplacian_edges(m, cotan=False), build.edges_list(m))),
        ("cotan_diag_inverse", "cotan_diag", lambda m: (O.cotan_edge_diagonal(m), build.edges_list(m))),
        ("cotan_diag", "cotan_diag", lambda m: (O.cotan_edge_diagonal(m, inverse=False), build.edges_list(m))),
    ]
    if flat:
        ops.append(("gradient_flat", "grad", grad_bundle(P.FlatConnectionFaces)))
    # connection (vector) Laplacians: not among the statement's options; only their Hermitian symmetry and the moduli of their
    # entries (= the scalar operator's) are looked at, which also executes the parallel-transport branches of the assembly loops
    order = rng.choice([1, 2, 4])

    def with_connection(conn_cls, fn):
        def run(m):
            try:  # building the connection is not this property's business (e.g. a vertex normal parallel to an edge): skip, noted
                conn = conn_cls(m)
            except Exception:  # noqa
                ctx.note("connection_unavailable:" + conn_cls.__name__)
                return None
            return fn(m, conn)
        return run
    ops += [
        ("laplacian_connection", "conn_lap", with_connection(P.SurfaceConnectionVertices, lambda m, c: O.laplacian(m, connection=c, order=order))),
        ("dual_connection", "conn_lap", with_connection(P.SurfaceConnectionFaces, lambda m, c: O.laplacian_triangles(m, connection=c, order=order))),
        ("edge_connection", "conn_lap", with_connection(P.SurfaceConnectionEdges,
                                                        lambda m, c: (O.laplacian_edges(m, connection=c, order=order), build.edges_list(m)))),
    ]

    def prepare(m):
        h = desc["history"]
        if h == "angles":
            ctx.call("corner_angles", M.attributes.corner_angles, m, monitor="construct", abort=False)
        elif h in ("cached_sparse", "cached_dense"):
            _precache_surface(ctx, M, m, h == "cached_dense", random.Random(desc["seed"] ^ 0xCAC4E))

    meshes = _Meshes(ctx, lambda: build.surface(V, F, desc["vrows"], desc["irows"]), desc["history"], prepare)
    res = _run_ops(ctx, meshes, ops, rng, shuffle=desc["history"] != "fresh")

    _verify_graph_ops(ctx, res, V, want_edges, wdict)

    def vclass(i, j):
        if i == j:
            return "diagonal"
        k = R.edge_key(i, j)
        if k in border:
            return "border_edge"
        return "interior_edge" if k in want_edges else "non_edge"

    # ---- vertex Laplacians
    K = R.cot_stiffness(nV, F, tg["cot"])
    K1 = R.cot_stiffness(nV, F, None)
    L = _dense(ctx, "lap_cotan", "laplacian", res.get("laplacian_cotan"), (nV, nV))
    if L is not None:
        _symmetric(ctx, "lap_cotan", L, 1e-9, classify=vclass)
        _row_sums(ctx, "lap_cotan", L, 1e-9)
        _close(ctx, "lap_cotan", "stiffness", "differs_from_cotan_stiffness",
               "laplacian(cotan=True) differs from the independently assembled cotangent stiffness matrix", L, K, rel, classify=vclass)
    if L is not None and nF >= 3 and desc.get("seed", 0) % 3 == 0:
        # the same triangles delivered with mixed winding (a triangle soup in which some faces are listed clockwise): the stiffness matrix does
        # not depend on the winding of the faces, so neither does the cotangent Laplacian
        import mouette as M_
        Fm = [list(f) if k % 3 else [f[0], f[2], f[1]] for k, f in enumerate(F)]
        ok_m, m_mixed = ctx.call("build", build.surface, V, Fm, monitor="lap_cotan", abort=False)
        if ok_m:
            ok_m, Lm_raw = ctx.call("laplacian", M_.operators.laplacian, m_mixed, True, monitor="lap_cotan", abort=False)
            Lm = _dense(ctx, "lap_cotan", "laplacian", Lm_raw, (nV, nV)) if ok_m else None
            if Lm is not None:
                ctx.cls("winding:some_faces_listed_clockwise")
                _close(ctx, "lap_cotan", "stiffness", "differs_from_cotan_stiffness_on_mixed_winding",
                       "laplacian(cotan=True) of the same triangles listed with mixed winding differs from the cotangent stiffness matrix", Lm, K, rel, classify=vclass)
    Lu = _dense(ctx, "lap_uniform", "laplacian", res.get("laplacian_uniform"), (nV, nV))
    if Lu is not None:
        _symmetric(ctx, "lap_uniform", Lu, 1e-12, classify=vclass)
        _row_sums(ctx, "lap_uniform", Lu, 1e-12)
        GL = R.graph_laplacian(nV, sorted(want_edges))
        if np.array_equal(Lu, GL) and not np.array_equal(GL, K1):
            ctx.note("uniform_laplacian_equals_graph_laplacian")
            ctx.obs("lap_uniform", "stiffness")
        else:
            _close(ctx, "lap_uniform", "stiffness", "differs_from_uniform_stiffness",
                   "laplacian(cotan=False) differs from the stiffness matrix assembled with all cotangents equal to 1", Lu, K1, 1e-12, classify=vclass)

    # ---- masses
    areaV = R.vertex_incident_sums(nV, F, tg["area"])
    total = float(tg["area"].sum())
    AF = None
    D = _dense(ctx, "mass", "area_weight_matrix_faces", res.get("mass_faces"), (nF, nF))
    if D is not None:
        d, ok = _positive_diagonal(ctx, "mass", "faces_positive_diagonal", D)
        _close(ctx, "mass", "faces", "face_mass_is_not_face_area", "area_weight_matrix_faces entry is not the area of its face", d, tg["area"], rel)
        ctx.check(abs(d.sum() - total) <= 1e-8 * total, "mass", "faces_sum", "face_masses_do_not_sum_to_total_area",
                  "face masses do not sum to the total area", got=float(d.sum()), want=total)
        AF = D
    r = res.get("mass_faces_inverse")
    D = _dense(ctx, "mass", "area_weight_matrix_faces(inverse)", r, (nF, nF))
    if D is not None:
        d, ok = _positive_diagonal(ctx, "mass", "faces_positive_diagonal", D)
        _close(ctx, "mass", "faces_inverse", "inverse_is_not_entrywise_reciprocal", "area_weight_matrix_faces(inverse=True) is not 1/area entrywise",
               d, 1.0 / tg["area"], rel)
        ctx.check(getattr(r, "format", None) == fmt, "mass", "format", "format_option_ignored", "requested sparse format not returned",
                  got=getattr(r, "format", None), want=fmt, operator="area_weight_matrix_faces")
    for name, want, mech in (("mass_vertices", areaV, None), ("mass_vertices_inverse", 1.0 / areaV, "inverse_is_not_entrywise_reciprocal"),
                             ("mass_vertices_sqrt", np.sqrt(areaV), "sqrt_is_not_entrywise_root"),
                             ("mass_vertices_inverse_sqrt", 1.0 / np.sqrt(areaV), "inverse_sqrt_is_not_entrywise")):
        r = res.get(name)
        D = _dense(ctx, "mass", name, r, (nV, nV))
        if D is None:
            continue
        d, ok = _positive_diagonal(ctx, "mass", "vertex_positive_diagonal", D, operator=name)
        if mech is None:
            ctx.check(abs(d.sum() - 3 * total) <= 1e-8 * total, "mass", "vertex_sum", "vertex_masses_do_not_sum_to_3x_area",
                      "vertex masses (each face's area credited to each of its vertices) do not sum to 3 x total area",
                      got=float(d.sum()), want=3 * total, ratio=float(d.sum() / total))
            _close(ctx, "mass", "vertex_entries", "vertex_mass_is_not_incident_area", "vertex mass is not the sum of the incident face areas",
                   d, want, rel)
        else:
            _close(ctx, "mass", "vertex_option", mech, "%s is not the entrywise function of the plain vertex masses" % name, d, want, rel, operator=name)
            if name in ("mass_vertices_inverse", "mass_vertices_sqrt"):
                ctx.check(getattr(r, "format", None) == fmt, "mass", "format", "format_option_ignored", "requested sparse format not returned",
                          got=getattr(r, "format", None), want=fmt, operator="area_weight_matrix")
    for name, inv in (("mass_edges", False), ("mass_edges_inverse", True)):
        r = res.get(name)
        if r is None:
            continue
        E = _edges_ok(ctx, r[1], want_edges)
        D = _dense(ctx, "mass", name, r[0], (nE, nE))
        if E is None or D is None:
            continue
        d, ok = _positive_diagonal(ctx, "mass", "edges_positive_diagonal", D, operator=name)
        want = R.edge_area_thirds(E, F, tg["area"])
        if not inv:
            ctx.check(abs(d.sum() - total) <= 1e-8 * total, "mass", "edges_sum", "edge_masses_do_not_sum_to_total_area",
                      "edge masses do not sum to the total area", got=float(d.sum()), want=total, ratio=float(d.sum() / total))
            _close(ctx, "mass", "edges", "edge_mass_is_not_third_of_incident_area", "edge mass is not a third of the area of the incident faces",
                   d, want, rel)
        else:
            _close(ctx, "mass", "edges_inverse", "inverse_is_not_entrywise_reciprocal", "area_weight_matrix_edges(inverse=True) is not entrywise 1/mass",
                   d, 1.0 / want, rel)

    # ---- gradient
    for name in ("gradient", "gradient_flat"):
        r = res.get(name)
        if r is None:
            continue
        _verify_gradient(ctx, name, r, V, F, tg, L, K, AF, avec, bs, rel)

    # ---- vertex -> face averaging
    r = res.get("vertex_face")
    if r is not None:
        D = _dense(ctx, "incidence", "vertex_to_face_operator", r)
        if D is not None:
            _verify_v2f(ctx, r, D, nV, F)

    # ---- dual (face graph) Laplacians
    adjF = R.face_adjacent_pairs(F)
    for name, cotan in (("dual_cotan", True), ("dual_uniform", False)):
        D = _dense(ctx, "dual_lap", name, res.get(name), (nF, nF))
        if D is None:
            continue
        _symmetric(ctx, "dual_lap", D, 1e-6, option=name)
        _row_sums(ctx, "dual_lap", D, 1e-6, option=name)
        off = (D != 0) & ~np.eye(nF, dtype=bool)
        bad = [(int(i), int(j)) for i, j in zip(*np.nonzero(off)) if (int(i), int(j)) not in adjF]
        ctx.check(not bad, "dual_lap", "support", "couples_non_adjacent_faces", "laplacian_triangles couples two faces that share no edge",
                  pair=bad[:1], option=name)
        if not cotan:
            _close(ctx, "dual_lap", "uniform_values", "differs_from_dual_graph_laplacian",
                   "laplacian_triangles(cotan=False) is not degree - adjacency of the face graph", D, R.dual_graph_laplacian(F), 1e-6)
        else:
            # off-diagonal magnitude = 1/|cot a + cot b| of the shared edge (cotan_edge_diagonal's documented weight); the sign of the
            # weight (abs in the docstring, none in the code) is left open; edges near the 1e-8 clamp are not judged
            inc = R.edge_face_incidence(F)
            shared = {}
            for e, fl in inc.items():
                if len(fl) == 2:
                    shared.setdefault((min(fl), max(fl)), []).append(e)
            worst, wit = 0.0, None
            for (f1, f2), el in shared.items():
                if len(el) != 1:
                    continue
                x, y = el[0]
                ssum = 0.0
                for fi in (f1, f2):
                    f = F[fi]
                    k = [kk for kk in range(3) if f[kk] not in (x, y)][0]
                    ssum += tg["cot"][fi, k]
                if abs(ssum) <= 1e-4:
                    continue
                dev = abs(abs(D[f1, f2]) * abs(ssum) - 1.0)
                if not (dev <= worst):
                    worst, wit = dev, (f1, f2, float(D[f1, f2]), 1.0 / ssum)
            ctx.check(worst <= max(1e-5, rel * 1e3), "dual_lap", "cotan_values", "offdiagonal_is_not_inverse_cotangent_sum",
                      "|laplacian_triangles[f1,f2]| is not 1/|cot a + cot b| of the edge shared by f1 and f2", witness=wit, deviation=worst)

    # ---- edge Laplacians
    for name in ("edge_cotan", "edge_uniform"):
        r = res.get(name)
        if r is None:
            continue
        E = _edges_ok(ctx, r[1], want_edges)
        D = _dense(ctx, "edge_lap", name, r[0], (nE, nE))
        if E is None or D is None:
            continue
        _symmetric(ctx, "edge_lap", D, 1e-9, option=name)
        _row_sums(ctx, "edge_lap", D, 1e-9, option=name)
        eid = {R.edge_key(x, y): e for e, (x, y) in enumerate(E)}
        pairs = R.edge_pairs_sharing_face(F, eid)
        off = (D != 0) & ~np.eye(nE, dtype=bool)
        bad = [(int(i), int(j)) for i, j in zip(*np.nonzero(off)) if (int(i), int(j)) not in pairs]
        ctx.check(not bad, "edge_lap", "support", "couples_edges_without_common_face", "laplacian_edges couples two edges that are not sides of a common triangle",
                  pair=bad[:1], option=name)
        # values, up to one global positive factor: the edge-based (Crouzeix-Raviart) stiffness matrix, weight cot(angle between the two sides)
        ref = R.edge_cr_stiffness(F, eid, tg["cot"] if name == "edge_cotan" else None)
        tr = float(np.trace(ref))
        sc = float(np.trace(D)) / tr if tr > 0 else float("nan")
        if ctx.check(sc > 0 and math.isfinite(sc), "edge_lap", "scale", "trace_not_positive", "laplacian_edges has a non-positive trace", trace=float(np.trace(D)), option=name):
            _close(ctx, "edge_lap", "values", "not_proportional_to_edge_stiffness",
                   "laplacian_edges is not a positive multiple of the edge-based stiffness matrix (-2 cot(angle between two sides) off the diagonal)",
                   D, sc * ref, max(rel * 10, 1e-8), option=name, scale=sc,
                   classify=lambda i, j: "diagonal" if i == j else ("sides_of_a_triangle" if (i, j) in pairs else "unrelated_edges"))

    # ---- connection Laplacians: Hermitian, same moduli as the scalar operator
    def hermitian_and_moduli(opname, Dc, Ds, relc, judge_moduli=True):
        tolh = relc * R.row_norms(np.abs(Dc), np.abs(Dc).T)
        ok, i, j, val = R.worst_entry(np.abs(Dc - Dc.conj().T), tolh)
        ctx.check(ok, "conn_lap", opname + "_hermitian", "not_hermitian", "connection Laplacian differs from its conjugate transpose",
                  row=i, col=j, order=order)
        if Ds is not None and judge_moduli:
            _close(ctx, "conn_lap", opname + "_moduli", "moduli_differ_from_scalar_operator",
                   "entries of the connection Laplacian do not have the moduli of the scalar Laplacian's entries", np.abs(Dc), np.abs(Ds), relc, order=order)

    Dc = _dense(ctx, "conn_lap", "laplacian(connection)", res.get("laplacian_connection"), (nV, nV))
    if Dc is not None:
        hermitian_and_moduli("vertices", Dc, K, rel)
    Dc = _dense(ctx, "conn_lap", "laplacian_triangles(connection)", res.get("dual_connection"), (nF, nF))
    if Dc is not None:
        Ds = _dense(ctx, "dual_lap", "dual_cotan", res.get("dual_cotan"), (nF, nF))
        inc_ = R.edge_face_incidence(F)
        cnt = {}
        for e, fl in inc_.items():
            if len(fl) == 2:
                cnt[(min(fl), max(fl))] = cnt.get((min(fl), max(fl)), 0) + 1
        hermitian_and_moduli("faces", Dc, Ds, 1e-6, judge_moduli=all(c == 1 for c in cnt.values()))
    r = res.get("edge_connection")
    if r is not None:
        Dc = _dense(ctx, "conn_lap", "laplacian_edges(connection)", r[0], (nE, nE))
        rs = res.get("edge_cotan")
        Ds = _dense(ctx, "edge_lap", "edge_cotan", rs[0], (nE, nE)) if rs is not None else None
        if Dc is not None:
            same_numbering = rs is not None and r[1] == rs[1]
            hermitian_and_moduli("edges", Dc, Ds if same_numbering else None, max(rel * 10, 1e-8))

    # ---- cotan edge diagonal
    r1, r0 = res.get("cotan_diag_inverse"), res.get("cotan_diag")
    if r1 is not None and r0 is not None:
        E1, E0 = _edges_ok(ctx, r1[1], want_edges), _edges_ok(ctx, r0[1], want_edges)
        D1 = _dense(ctx, "cotan_diag", "cotan_edge_diagonal", r1[0], (nE, nE))
        D0 = _dense(ctx, "cotan_diag", "cotan_edge_diagonal(inverse=False)", r0[0], (nE, nE))
        if E1 is not None and E0 is not None and D1 is not None and D0 is not None and E1 == E0:
            d1, d0 = np.diag(D1), np.diag(D0)
            ctx.check(bool(((D1 - np.diag(d1)) == 0).all() and ((D0 - np.diag(d0)) == 0).all()), "cotan_diag", "diagonal", "not_diagonal",
                      "cotan_edge_diagonal has off-diagonal entries")
            inc = R.edge_face_incidence(F)
            s = np.zeros(nE)
            for e, (x, y) in enumerate(E1):
                for fi in inc[R.edge_key(x, y)]:
                    f = F[fi]
                    k = [kk for kk in range(3) if f[kk] not in (x, y)][0]
                    s[e] += tg["cot"][fi, k]
            safe = np.abs(s) > 1e-4
            ctx.note("cotan_diag_threshold_entries", int((~safe).sum()))
            if (np.sign(d0[safe]) < 0).any():
                ctx.note("cotan_diag_negative_entries(docstring_says_abs)")
            ok = np.all(np.abs(d1[safe] * d0[safe] - 1.0) <= 1e-7)
            ctx.check(bool(ok), "cotan_diag", "reciprocal", "inverse_option_is_not_entrywise_reciprocal",
                      "cotan_edge_diagonal(inverse=True) and (inverse=False) are not entrywise reciprocal")
            m0 = np.allclose(np.abs(d0[safe]), np.abs(s[safe]), rtol=max(rel * 100, 1e-7), atol=0)
            m1 = np.allclose(np.abs(d1[safe]), np.abs(s[safe]), rtol=max(rel * 100, 1e-7), atol=0)
            ctx.check(bool(m0 or m1), "cotan_diag", "magnitude", "not_sum_of_opposite_cotangents",
                      "|cotan_edge_diagonal| is neither |cot a + cot b| nor its reciprocal")

    if nF <= 4:
        ctx.sample({"kind": "triangulated surface", "class": z["cls"], "vertices": np.round(V, 4).tolist(), "faces": F, "history": desc["history"],
                    "compared": sorted(k for k, v in res.items() if v is not None)})


def _verify_v2f(ctx, raw, D, nV, F):
    nF = len(F)
    ref = R.vertex_face_average(nV, F)
    if D.shape == (nF, nV):
        ctx.note("vertex_to_face_shape:FxV(docstring_says_VxF)")
    elif D.shape == (nV, nF):
        ctx.note("vertex_to_face_shape:VxF")
        ref = ref.T
    else:
        ctx.check(False, "incidence", "shape", "wrong_shape", "vertex_to_face_operator has neither shape |F|x|V| nor |V|x|F|", got=list(D.shape))
        return
    if nV == nF and not np.allclose(D, ref) and np.allclose(D, ref.T):
        ref = ref.T
    try:
        nnz = int(raw.tocoo().row.size)
    except Exception:
        nnz = -1
    want = sum(len(f) for f in F)
    ctx.check(nnz == want, "incidence", "vertex_face_entries", "not_one_entry_per_incidence",
              "vertex_to_face_operator does not store exactly one entry per (face, vertex) incidence", stored=nnz, want=want)
    _close(ctx, "incidence", "vertex_face", "wrong_weight", "vertex_to_face_operator entry is not 1/len(face) at incidences and 0 elsewhere",
           D, ref, 1e-12)


def _verify_gradient(ctx, name, r, V, F, tg, L, K, AF, avec, bs, rel):
    nV, nF = len(V), len(F)
    flat = name == "gradient_flat"
    sfx = "_flat" if flat else ""
    try:
        Gc_raw, Gr_raw, bases = r
    except Exception:
        ctx.violation("grad", name, "malformed_result", "gradient bundle malformed")
        return
    Gc = _dense(ctx, "grad", "gradient(as_complex=True)", Gc_raw, (nF, nV))
    Gr = _dense(ctx, "grad", "gradient(as_complex=False)", Gr_raw, (2 * nF, nV))
    try:
        X = np.array([np.asarray(b[0], float).reshape(3) for b in bases])
        Y = np.array([np.asarray(b[1], float).reshape(3) for b in bases])
    except Exception:
        ctx.violation("grad", "basis" + sfx, "basis_unreadable", "connection.base(f) did not return two 3-D vectors")
        return
    N = tg["normal"]
    # the face basis used by the gradient: orthonormal, tangent, cross(X, Y) = face normal (documented in SurfaceConnection.base)
    err = max(float(np.abs(np.einsum("ij,ij->i", X, X) - 1).max()), float(np.abs(np.einsum("ij,ij->i", Y, Y) - 1).max()),
              float(np.abs(np.einsum("ij,ij->i", X, Y)).max()), float(np.abs(np.einsum("ij,ij->i", X, N)).max()),
              float(np.abs(np.einsum("ij,ij->i", Y, N)).max()))
    btol = max(1e-9, rel * 10)
    ctx.check(err <= btol, "grad", "basis" + sfx, "face_basis_not_orthonormal_tangent",
              "the connection's face basis is not an orthonormal basis of the face's plane", error=err, tolerance=btol)
    cr = np.cross(X, Y)
    errn = float(np.abs(cr - N).max())
    ctx.check(errn <= btol, "grad", "basis_orientation" + sfx, "cross_X_Y_is_not_the_face_normal",
              "cross(X, Y) of the face basis is not the face normal (orientation of the stored face)", error=errn, tolerance=btol)
    if Gc is not None:
        ctx.check(np.iscomplexobj(Gc), "grad", "complex_dtype", "complex_gradient_not_complex", "gradient(as_complex=True) is not a complex matrix")
        # constants have zero gradient
        _row_sums(ctx, "grad", Gc, 1e-9, op="constant" + sfx)
        # sparsity: one entry per (face, vertex of the face)
        inc = np.zeros((nF, nV), dtype=bool)
        for fi, f in enumerate(F):
            for v in f:
                inc[fi, v] = True
        ctx.check(not ((Gc != 0) & ~inc).any(), "grad", "support" + sfx, "gradient_entry_outside_face", "gradient row of a face has an entry at a vertex not in the face")
    if Gr is not None and Gc is not None:
        inter = np.zeros((2 * nF, nV))
        inter[0::2] = Gc.real
        inter[1::2] = Gc.imag
        _close(ctx, "grad", "real_vs_complex" + sfx, "real_form_rows_do_not_match_complex_form",
               "rows 2f, 2f+1 of the real gradient are not the real and imaginary parts of row f of the complex gradient", Gr, inter, 1e-12)
    for a_, b_ in zip(avec, bs):
        fvals = V @ a_ + b_
        scale = float(np.abs(fvals).max()) + float(np.linalg.norm(a_)) * float(np.abs(V).max())
        wx = X @ a_
        wy = Y @ a_
        if Gc is not None:
            got = Gc @ fvals
            tol = rel * np.abs(Gc).sum(axis=1) * scale + 1e-9 * float(np.linalg.norm(a_))
            dif = np.abs(got - (wx + 1j * wy))
            bad = ~(dif <= tol)
            i = int(np.argmax(np.where(bad, np.nan_to_num(dif, nan=np.inf), -1))) if bad.any() else -1
            mech = "affine_gradient_wrong"
            if i >= 0:
                g = got[i]
                if abs(g - (wy[i] + 1j * wx[i])) <= tol[i] * 10:
                    mech += "@components_swapped"
                elif abs(g + (wx[i] + 1j * wy[i])) <= tol[i] * 10:
                    mech += "@negated"
                elif abs(g - (wx[i] - 1j * wy[i])) <= tol[i] * 10 or abs(g - (-wx[i] + 1j * wy[i])) <= tol[i] * 10:
                    mech += "@one_component_negated"
                elif abs(abs(g) - abs(wx[i] + 1j * wy[i])) > 10 * tol[i]:
                    mech += "@wrong_magnitude"
                else:
                    mech += "@wrong_direction"
            ctx.check(not bad.any(), "grad", "affine_complex" + sfx, mech,
                      "gradient of x -> a.x + b is not the tangential part of a in the face basis (complex form)",
                      face=i, got=got[i] if i >= 0 else None, want=complex(wx[i], wy[i]) if i >= 0 else None, a=a_.tolist())
            # reconstructed 3-D vector equals a - (a.n) n
            g3 = got.real[:, None] * X + got.imag[:, None] * Y
            want3 = R.affine_tangential_gradients(N, a_)
            d3 = np.abs(g3 - want3).max(axis=1)
            ctx.check(bool((d3 <= tol + btol * float(np.linalg.norm(a_))).all()), "grad", "affine_3d" + sfx, "reconstructed_gradient_is_not_tangential_part",
                      "Re(g) X + Im(g) Y is not a - (a.n) n", face=int(np.argmax(d3)), error=float(d3.max()))
        if Gr is not None:
            got = Gr @ fvals
            want = np.zeros(2 * nF)
            want[0::2] = wx
            want[1::2] = wy
            tol = rel * np.abs(Gr).sum(axis=1) * scale + 1e-9 * float(np.linalg.norm(a_))
            dif = np.abs(got - want)
            bad = ~(dif <= tol)
            i = int(np.argmax(np.where(bad, np.nan_to_num(dif, nan=np.inf), -1))) if bad.any() else -1
            ctx.check(not bad.any(), "grad", "affine_real" + sfx, "affine_gradient_wrong_real_form",
                      "gradient of x -> a.x + b is not the tangential part of a in the face basis (real form, rows 2f / 2f+1 = X / Y component)",
                      row=i, got=float(got[i]) if i >= 0 else None, want=float(want[i]) if i >= 0 else None, a=a_.tolist())
    # Re(G^H A_F G) == L
    if Gc is not None:
        def dcl(i, j):
            return "diagonal" if i == j else "offdiagonal"
        if AF is not None and L is not None:
            S = (Gc.conj().T @ AF @ Gc).real
            _close(ctx, "grad", "divgrad" + sfx, "re_GH_A_G_differs_from_laplacian", "Re(G^H A_F G) differs from laplacian(mesh)", S, L, rel * 10, classify=dcl)
        S2 = (Gc.conj().T @ np.diag(tg["area"]) @ Gc).real
        _close(ctx, "grad", "divgrad_reference" + sfx, "re_GH_A_G_differs_from_stiffness",
               "Re(G^H diag(area) G) with reference areas differs from the reference cotangent stiffness matrix", S2, K, rel * 10, classify=dcl)
        if Gr is not None:
            A2 = np.diag(np.repeat(tg["area"], 2))
            _close(ctx, "grad", "divgrad_real" + sfx, "GT_A_G_real_form_differs_from_stiffness",
                   "G^T diag(area, area) G of the real form differs from the reference cotangent stiffness matrix", Gr.T @ A2 @ Gr, K, rel * 10, classify=dcl)


# ----------------------------------------------------------------------------- polygon surfaces
def _poly_case(ctx, desc):
    import mouette as M
    O = M.operators
    z = _zoo(ctx, surfaces.make, desc["seed"], poly_only=True, max_size=desc["max_size"])
    V, F = _rescale(ctx, desc, z["V"]), z["F"]
    nV = len(V)
    rng = random.Random(desc["seed"] ^ 0xC08)
    want_edges = R.edges_from_faces(F)
    ctx.cls("polygon:" + z["cls"].split("~")[0].split("+")[0])
    ctx.cls("history:" + desc["history"])
    gops, wdict = _graph_ops(O, random.Random(desc["seed"] ^ 0x77), len(want_edges))
    ops = list(gops) + [("vertex_face", "incidence", lambda m: O.vertex_to_face_operator(m))]
    meshes = _Meshes(ctx, lambda: build.surface(V, F, desc["vrows"], desc["irows"]), desc["history"])
    res = _run_ops(ctx, meshes, ops, rng, shuffle=desc["history"] != "fresh")
    _verify_graph_ops(ctx, res, V, want_edges, wdict)
    r = res.get("vertex_face")
    if r is not None:
        D = _dense(ctx, "incidence", "vertex_to_face_operator", r)
        if D is not None:
            _verify_v2f(ctx, r, D, nV, F)
    if any(len(f) != 3 for f in F):
        # documented rejections of non-triangulated input
        m = meshes.get()
        ok, e = ctx.call("gradient_rejects", O.gradient, m, None, expect=(Exception,), monitor="rejects", abort=False)
        ctx.check(not ok, "rejects", "gradient", "non_triangulation_accepted", "gradient did not raise on a mesh that is not a triangulation")
        m = meshes.get()
        ok, e = ctx.call("laplacian_edges_rejects", O.laplacian_edges, m, expect=(AssertionError,), monitor="rejects", abort=False)
        ctx.check(not ok, "rejects", "laplacian_edges", "non_triangulation_accepted", "laplacian_edges did not raise AssertionError on a non-triangular mesh")
    if len(F) <= 3:
        ctx.sample({"kind": "polygon surface", "class": z["cls"], "faces": F, "compared": sorted(k for k, v in res.items() if v is not None)})


# ----------------------------------------------------------------------------- tetrahedral meshes
def _vol_case(ctx, desc):
    import mouette as M
    O = M.operators
    if desc.get("anchor"):
        Va, Ca, na = volumes.anchors({"one_tet": 0, "two_tets": 1}[desc["anchor"]])
        z = {"V": Va, "C": [list(map(int, c)) for c in Ca], "cls": na}
    else:
        z = _zoo(ctx, volumes.make, desc["seed"], max_size=desc["max_size"], jitter=desc["jitter"])
    V, C = _rescale(ctx, desc, z["V"]), z["C"]
    nV, nC = len(V), len(C)
    rng = random.Random(desc["seed"] ^ 0xC08)
    fmt = desc.get("fmt", "csc")
    want_edges = R.edges_from_cells(C)
    ctx.cls("volume:" + z["cls"].split("~")[0])
    ctx.cls("history:" + desc["history"])
    ctx.cls("position:" + ("generic" if desc["jitter"] else "regular"))
    if nC >= 20:
        ctx.nontrivial(stable_hash([np.round(V / float(np.abs(V).max()), 9).tolist(), C, desc.get("scale", 1.0)]))
    vol = R.tet_volumes(V, C)
    total = float(vol.sum())
    # volumes are cubic in the coordinates: conditioning relative to the smallest cell
    relv = max(1e-9, 1e3 * EPS * float(np.abs(V).max()) ** 3 / max(float(vol.min()) * 6, 1e-300))
    if relv > 1e-6:
        ctx.note("skipped_ill_conditioned_cell")
        return
    gops, wdict = _graph_ops(O, random.Random(desc["seed"] ^ 0x77), len(want_edges))
    ops = list(gops) + [
        ("volume_laplacian", "vol_lap", lambda m: (O.volume_laplacian(m), build.edges_list(m))),
        ("laplacian_tetrahedra", "tet_lap", lambda m: O.laplacian_tetrahedra(m)),
        ("mass_vertices", "vol_mass", lambda m: O.volume_weight_matrix(m)),
        ("mass_vertices_inverse", "vol_mass", lambda m: O.volume_weight_matrix(m, inverse=True, format=fmt)),
        ("mass_vertices_sqrt", "vol_mass", lambda m: O.volume_weight_matrix(m, sqrt=True, format=fmt)),
        ("mass_vertices_inverse_sqrt", "vol_mass", lambda m: O.volume_weight_matrix(m, inverse=True, sqrt=True)),
        ("mass_cells", "vol_mass", lambda m: O.volume_weight_matrix_cells(m)),
        ("mass_cells_inverse", "vol_mass", lambda m: O.volume_weight_matrix_cells(m, inverse=True, format=fmt)),
        ("mass_cells_sqrt", "vol_mass", lambda m: O.volume_weight_matrix_cells(m, sqrt=True)),
        ("mass_cells_inverse_sqrt", "vol_mass", lambda m: O.volume_weight_matrix_cells(m, inverse=True, sqrt=True, format=fmt)),
    ]
    def prepare(m):
        if desc["history"] in ("cached_sparse", "cached_dense"):
            dense = desc["history"] == "cached_dense"
            ctx.call("cell_volume", M.attributes.cell_volume, m, dense=dense, monitor="construct", abort=False)
            ctx.cls("precached:volume:" + ("dense" if dense else "sparse"))

    meshes = _Meshes(ctx, lambda: build.volume(V, C, "list", desc["irows"]), desc["history"], prepare)
    res = _run_ops(ctx, meshes, ops, rng, shuffle=desc["history"] != "fresh")
    _verify_graph_ops(ctx, res, V, want_edges, wdict)

    r = res.get("volume_laplacian")
    if r is not None:
        D = _dense(ctx, "vol_lap", "volume_laplacian", r[0], (nV, nV))
        if D is not None:
            _symmetric(ctx, "vol_lap", D, 1e-9)
            _row_sums(ctx, "vol_lap", D, 1e-9)
            off = (D != 0) & ~np.eye(nV, dtype=bool)
            bad = [(int(i), int(j)) for i, j in zip(*np.nonzero(off)) if R.edge_key(int(i), int(j)) not in want_edges]
            ctx.check(not bad, "vol_lap", "support", "couples_non_adjacent_vertices", "volume_laplacian couples two vertices that are not joined by an edge",
                      pair=bad[:1])
            # "3D extension of the cotan laplacian": equals the P1 stiffness matrix.  mouette takes |cot| of the dihedral angles, which
            # agrees with the cotangent formula exactly when no dihedral angle is obtuse: judged there, observed (note) elsewhere.
            Kf = R.tet_fem_stiffness(V, C)
            mc = R.tet_min_dihedral_cos(V, C)
            es = want_edges
            if mc >= -1e-10:
                ctx.cls("dihedral:non_obtuse")
                _close(ctx, "vol_lap", "stiffness", "differs_from_fem_stiffness",
                       "volume_laplacian differs from the P1 finite-element stiffness matrix (n-D cotangent formula) on a mesh without obtuse dihedral angle",
                       D, Kf, max(1e-9, relv), classify=lambda i, j: "diagonal" if i == j else ("edge" if R.edge_key(i, j) in es else "non_edge"))
            else:
                ctx.cls("dihedral:obtuse")
                tolr = 1e-6 * R.row_norms(D, Kf)
                if not R.worst_entry(D - Kf, tolr)[0]:
                    ctx.note("volume_laplacian_differs_from_fem_stiffness_when_a_dihedral_angle_is_obtuse(abs_of_cotangent)")
    D = _dense(ctx, "tet_lap", "laplacian_tetrahedra", res.get("laplacian_tetrahedra"), (nC, nC))
    if D is not None:
        ref = R.cell_graph_laplacian(C)
        _close(ctx, "tet_lap", "degree_minus_adjacency", "differs_from_cell_graph_laplacian",
               "laplacian_tetrahedra is not degree - adjacency of the cell graph (cells sharing a triangle)", D, ref, 1e-12,
               classify=lambda i, j: "diagonal" if i == j else ("adjacent_cells" if ref[i, j] != 0 else "non_adjacent_cells"))
        _symmetric(ctx, "tet_lap", D, 1e-12)
        _row_sums(ctx, "tet_lap", D, 1e-12)
    volV = R.vertex_incident_sums(nV, C, vol)
    for name, want, mech in (("mass_vertices", volV, None), ("mass_vertices_inverse", 1.0 / volV, "inverse_is_not_entrywise_reciprocal"),
                             ("mass_vertices_sqrt", np.sqrt(volV), "sqrt_is_not_entrywise_root"),
                             ("mass_vertices_inverse_sqrt", 1.0 / np.sqrt(volV), "inverse_sqrt_is_not_entrywise"),
                             ("mass_cells", vol, None), ("mass_cells_inverse", 1.0 / vol, "inverse_is_not_entrywise_reciprocal"),
                             ("mass_cells_sqrt", np.sqrt(vol), "sqrt_is_not_entrywise_root"),
                             ("mass_cells_inverse_sqrt", 1.0 / np.sqrt(vol), "inverse_sqrt_is_not_entrywise")):
        rr = res.get(name)
        n = nV if "vertices" in name else nC
        D = _dense(ctx, "vol_mass", name, rr, (n, n))
        if D is None:
            continue
        d, ok = _positive_diagonal(ctx, "vol_mass", "positive_diagonal", D, operator=name)
        if name == "mass_vertices":
            ctx.check(abs(d.sum() - 4 * total) <= 1e-8 * total, "vol_mass", "vertex_sum", "vertex_masses_do_not_sum_to_4x_volume",
                      "vertex masses (each cell's volume credited to each of its 4 vertices) do not sum to 4 x total volume",
                      got=float(d.sum()), want=4 * total, ratio=float(d.sum() / total))
            _close(ctx, "vol_mass", "vertex_entries", "vertex_mass_is_not_incident_volume", "vertex mass is not the sum of the incident cell volumes", d, want, relv)
        elif name == "mass_cells":
            ctx.check(abs(d.sum() - total) <= 1e-8 * total, "vol_mass", "cells_sum", "cell_masses_do_not_sum_to_total_volume",
                      "cell masses do not sum to the total volume", got=float(d.sum()), want=total)
            _close(ctx, "vol_mass", "cells", "cell_mass_is_not_cell_volume", "cell mass is not the (unsigned) volume of the cell", d, want, relv)
        else:
            _close(ctx, "vol_mass", "option", mech, "%s is not the entrywise function of the plain masses" % name, d, want, relv, operator=name)
            if name in ("mass_vertices_inverse", "mass_vertices_sqrt", "mass_cells_inverse", "mass_cells_inverse_sqrt"):
                ctx.check(getattr(rr, "format", None) == fmt, "vol_mass", "format", "format_option_ignored", "requested sparse format not returned",
                          got=getattr(rr, "format", None), want=fmt, operator=name)
    if nC <= 3:
        ctx.sample({"kind": "tetrahedral mesh", "class": z["cls"], "vertices": np.round(V, 4).tolist(), "cells": C,
                    "compared": sorted(k for k, v in res.items() if v is not None)})


# ----------------------------------------------------------------------------- polylines
def _graph_case(ctx, desc):
    import mouette as M
    O = M.operators
    V, E, cls = graphs.make(desc["seed"], max_n=desc["max_n"])
    if desc.get("hub"):
        # a star with `hub` branches around a new vertex, attached to the drawn graph
        V = np.asarray(V, float)
        h = len(V)
        k = int(desc["hub"])
        ring = [[3.0 + math.cos(2 * math.pi * j / k), math.sin(2 * math.pi * j / k), 0.1 * (j % 3)] for j in range(k)]
        V = np.vstack([V, [[3.0, 0.0, 0.0]], ring])
        E = list(E) + [(h, h + 1 + j) for j in range(k)]
        cls = "star_with_%d_branches" % k
    V = _rescale(ctx, desc, V)
    rng = random.Random(desc["seed"] ^ 0xC08)
    raw_E = [(b, a) if (desc["reverse"] and rng.random() < 0.5) else (a, b) for (a, b) in E]
    want_edges = {R.edge_key(a, b) for (a, b) in E}
    ctx.cls("polyline:" + cls)
    ctx.cls("history:" + desc["history"])
    ctx.cls("raw_edges:" + ("some_reversed" if desc["reverse"] else "sorted"))
    gops, wdict = _graph_ops(O, random.Random(desc["seed"] ^ 0x77), len(want_edges))
    meshes = _Meshes(ctx, lambda: build.polyline(V, raw_E), desc["history"])
    res = _run_ops(ctx, meshes, list(gops), rng, shuffle=desc["history"] != "fresh")
    _verify_graph_ops(ctx, res, V, want_edges, wdict)
    if len(E) <= 4:
        ctx.sample({"kind": "polyline", "class": cls, "edges": raw_E, "compared": sorted(k for k, v in res.items() if v is not None)})


# ----------------------------------------------------------------------------- entry
def _zoo(ctx, fn, seed, **kw):
    """Draws from a zoo generator; a generator failure (e.g. surfaces.make(generic=True) on a draw that came out empty) is
    retried with a derived seed, deterministically, and noted."""
    last = None
    for k in range(6):
        try:
            return fn((seed + 7919 * k) % (2 ** 31), **kw)
        except Exception as e:  # noqa  (generator-side, never mouette)
            last = e
            ctx.note("zoo_draw_failed_and_redrawn")
    raise last


def run_case(desc, ctx):
    g = desc["gen"]
    ctx.cls("kind:" + g)
    if g == "tri" and desc.get("anchor"):
        a = desc["anchor"]
        if a == "one_triangle":
            V, F = np.array([[0, 0, 0], [1, 0, 0], [0.3, 0.8, 0.1]], float), [[0, 1, 2]]
        elif a == "two_triangles":
            V, F = np.array([[0, 0, 0], [1, 0, 0], [1, 1, 0], [0, 1, 0.3]], float), [[0, 1, 2], [0, 2, 3]]
        elif a.startswith("fan"):
            V, F, _ = surfaces.fan(int(a[3:]), closed=True)
        elif a == "tetra_surface":
            V, F, _ = surfaces.tetra_surface()
        else:
            V, F, _ = surfaces.octahedron()
        z = {"V": np.asarray(V, float), "F": [list(map(int, f)) for f in F], "cls": a, "topo": topo.analyse(len(V), F)}
        _tri_case(ctx, desc, z, flat=False)
    elif g == "tri":
        z = _zoo(ctx, surfaces.make, desc["seed"], tri_only=True, generic=desc["generic"], max_size=desc["max_size"], closed=desc.get("closed"),
                          min_faces=desc.get("min_faces", 1))
        _tri_case(ctx, desc, z, flat=False)
    elif g == "flat":
        z = _zoo(ctx, c08_inputs.planar, desc["seed"], max_size=desc["max_size"], generic=desc["generic"], min_faces=desc.get("min_faces", 1))
        if desc.get("sliver"):
            # thin but non-degenerate triangles: an anisotropic squeeze of a planar triangulation (corner angles down to ~1e-3 rad, cotangents up to ~1e3).
            # Every identity still holds; tolerances are relative to the row norms, which grow with the cotangents.
            z = dict(z)
            V = np.array(z["V"], float)
            V[:, 1] *= desc["sliver"]
            z["V"] = V
            z["cls"] = str(z.get("cls", "planar")) + "~sliver"
            ctx.cls("sliver:%g" % desc["sliver"])
        _tri_case(ctx, desc, z, flat=True)
    elif g == "poly":
        _poly_case(ctx, desc)
    elif g == "vol":
        _vol_case(ctx, desc)
    elif g == "graph":
        _graph_case(ctx, desc)
    else:
        raise KeyError(g)
