"""C07 - geometric quantities match their textbook definitions, are invariant under rigid motion / renumbering,
scale with the right power, and satisfy the angle-sum / Gauss-Bonnet / constant-interpolation identities.

Shape: reference-model differential monitor (mv/ref/geomq.py: numpy evaluation from raw (V,F,C)) + identity monitors +
metamorphic monitors (harness-built rigidly moved / renumbered / face-rotated copy, uniformly scaled copy) + option sweep
(persistent x dense x name x weighting x zero_border; what is left on the mesh) + a shared-mesh history pass that drives the
library's cached branches ("angles", "cotan", "normals", "area" reused by design while the geometry is unchanged).

Every evaluation of the sweep / metamorphic passes uses a FRESH mesh object."""
import math
import random
import re

import numpy as np

from .. import build
from ..ctx import stable_hash, mouette_site
from ..ref import geomq
from ..zoo import surfaces, volumes, c07_planar

ID = "C07"
RULE = ("inputs: (tri) certified oriented manifold triangle surfaces from the surface zoo, jittered to generic position, min corner angle "
        ">= 3 deg; (poly) quad / polygon / mixed surfaces from the surface zoo (unjittered) and from the planar-face zoo (prisms, frusta, "
        "pyramids, antiprisms, dodecahedron, star-merged planar Delaunay) - face area / normal judged only on planar strictly convex faces - "
        "and, one third, small surfaces carrying planar simple NON-convex faces (notched pentagon, dart quad, L, arrow, T, U, star-like 5..8-gons; "
        "bare, as prism / cup lids, with flaps; every cyclic vertex order of the face), judged against the shoelace (Newell) area and normal; "
        "(tet) conforming tetrahedral meshes from the volume zoo with jitter.  Per input: every quantity function x persistent x dense x "
        "default/custom name x weighting x zero_border on fresh meshes against the numpy reference, the identities, the six interpolation "
        "routines on constant attributes, one shared-mesh pass in random order, a rigidly moved + renumbered + face-rotated copy and a "
        "uniformly scaled copy.  non-trivial = at least 10 faces and (non-planar or bordered); distinct = distinct (V rounded, F/C) hash")
REQUIRED = {
    "ref": 100000, "ref/edge_length": 10000, "ref/edge_middle_point": 10000, "ref/face_area": 7000, "ref/face_normals": 4000,
    "ref/face_barycenter": 7000, "ref/face_circumcenter": 5000, "ref/corner_angles": 13000, "ref/cotangent": 9000,
    "ref/cotan_weights": 5000, "ref/vertex_normals:uniform": 3000, "ref/vertex_normals:area": 3000, "ref/vertex_normals:angle": 3000,
    "ref/vertex_normals:uniform:custom_fnormals": 500, "ref/vertex_normals:area:custom_fnormals": 500,
    "ref/vertex_normals:angle:custom_fnormals": 500,
    "ref/angle_defects": 2000, "ref/angle_defects:zero_border": 2000, "ref/degree": 4000, "ref/cell_volume": 900,
    "ref/cell_barycenter": 900, "ref/total_area": 60, "ref/mean_edge_length": 230, "ref/mean_face_area": 200,
    "ref/mean_cell_volume": 50, "ref/barycenter": 80, "ref/euler_characteristic": 60,
    "identity/triangle_angle_sum": 900, "identity/defect_sum_2pi_chi": 70, "identity/interp_constant": 30000,
    "rigid": 25000, "rigid/face_normals": 1000, "rigid/vertex_normals:area": 800, "rigid/cell_volume": 200,
    "scale": 25000, "scale/edge_length": 2400, "scale/face_area": 1700, "scale/cotangent": 2000, "scale/cell_volume": 200,
    "options/persistent_dense_agree": 3000, "options/attributes_left_behind": 8000,
    "history": 30000, "history/cotangent": 2500, "history/cotan_weights": 1600, "history/angle_defects": 600,
    "history/total_area": 60, "history/mean_cell_volume": 15,
    "history/vertex_normals:uniform:custom_fnormals": 1500, "history/vertex_normals:area:custom_fnormals": 1500,
    "history/vertex_normals:angle:custom_fnormals": 1500,
    "ref/face_area:nonconvex_face": 80, "ref/face_normals:nonconvex_face": 150, "ref/total_area:nonconvex_faces": 5,
    "coverage/ref:face_area_on_nonconvex_faces_star_shaped_from_vertex_mean": 16,
    "reuse": 15000,
    "needle/corner_angles": 2000, "needle/cotangent": 2000, "needle/cotangent_from_cached_angles": 500, "needle/triangle_angle_sum": 150,
    "needle/defect_sum_2pi_chi": 60, "identity/interp_mode_spelling": 3000,
    "identity/interp_constant/interpolate_faces_to_vertices:area:UPPER": 800, "identity/interp_constant/interpolate_faces_to_vertices:angle:Capitalised": 800,
    "identity/interp_constant/average_corners_to_vertices:uniform:UPPER": 800, "identity/interp_constant/average_corners_to_vertices:angle:Capitalised": 800,
    "identity/interp_constant/average_corners_to_faces:uniform:Capitalised": 800, "identity/interp_constant/average_corners_to_faces:angle:UPPER": 800,
    "far": 60000, "far/face_normals": 1500, "far/vertex_normals:uniform": 1000, "far/vertex_normals:area": 1000, "far/vertex_normals:angle": 1000,
    "far/face_area": 3000, "far/corner_angles": 6000, "far/cotangent": 4000, "far/cotan_weights": 1500, "far/angle_defects": 900,
    "far/face_circumcenter": 2500, "far/triangle_aspect_ratio": 1800, "far/curvature_matrices": 2500, "far/border_normals": 1500,
    "far/edge_length": 3000, "far/cell_volume": 400, "far/total_area": 60, "far/mean_edge_length": 150,
    "ref/triangle_aspect_ratio": 4000, "ref/face_near_border:dist=default": 4000, "ref/face_near_border:dist=1": 4000,
    "ref/face_near_border:dist=3": 4000, "ref/face_near_border:dist=6": 4000, "ref/border_normals": 3000,
    "ref/curvature_matrices": 1500, "ref/cell_faces_on_boundary": 800,
    "ref/parallel_transport_curvature:flat": 800, "ref/parallel_transport_curvature:scv": 200,
    "rigid/triangle_aspect_ratio": 1000, "rigid/border_normals": 800, "rigid/curvature_matrices": 1500,
    "rigid/parallel_transport_curvature:scv": 600, "rigid/face_near_border:dist=default": 1000, "rigid/cell_faces_on_boundary": 200,
    "scale/triangle_aspect_ratio": 1000, "scale/border_normals": 800, "scale/curvature_matrices": 1500,
    "scale/parallel_transport_curvature:scv": 600,
    "history/triangle_aspect_ratio": 1000, "history/face_near_border:dist=default": 1000, "history/border_normals": 1000,
    "history/curvature_matrices": 1500, "history/cell_faces_on_boundary": 300,
}
CASE_TIMEOUT = {"quick": 30.0, "thorough": 600.0}
ASSUMPTIONS = [
    "inputs are non-degenerate: triangle corner angles >= 3 deg, polygon corners between 2.9 and 177.1 deg, |tet volume| >= 1e-7, "
    "max|coordinate| / min edge length <= 1e6 - this is what justifies the relative 1e-9 tolerance (conditioning <= ~4e3)",
    "face area and face normal of a face with more than 3 vertices are only judged when the face is planar (1e-13 relative) and either strictly "
    "convex or a simple non-convex polygon with clearly convex / clearly reflex corners (area and oriented normal by Newell's formula; "
    "non-convex quads and polygons that are not star-shaped around their vertex mean are reported under separate ':nonconvex_face' ops); the "
    "corner angle at a reflex corner is not judged; vertex normals only where all incident faces are triangles or planar convex and "
    "|sum w n| >= 0.05 sum w",
    "element ids are those of the mesh under test (edge e = mesh.edges[e], corner c = (face_corners[c], face_corners.adj(c))); the monitor "
    "does not fix any numbering convention itself",
    "helper attributes the library caches by design (face_corners 'angles' for angle_defects, face_corners 'cotan' for cotan_weights, faces "
    "'normals' for vertex_normals) may stay behind after a persistent run; nothing may stay behind after a non-persistent run",
    "the 'sum' weighting (not an average) is driven but not judged",
    "triangle_aspect_ratio = abc/(8(s-a)(s-b)(s-c)) on triangles and -1 on other faces (docstring); face_near_border(dist) = faces at dual "
    "edge-adjacency distance < dist from a face with a border edge ('all faces with a path of length < dist'), dist in {default 2, 1, 3, 6}; "
    "cell_faces_on_boundary = number of faces of the tet shared with no other cell; curvature_matrices[e] = angle between the two face normals "
    "* outer(unit edge, unit edge), zero on border edges, judged where both faces are triangles / planar convex, conjugated by a rigid motion; "
    "border_normals: only unit length on border vertices, nothing on interior vertices, and rigid / scale / renumbering equivariance are judged "
    "(the docstring fixes no more); parallel_transport_curvature: zero on planar meshes (canonical flat connection: every face; vertex "
    "connection: faces with three interior vertices) and rigid / scale / renumbering invariance - values on curved meshes are not judged; a "
    "connection object that cannot be built is C18's business (noted)",
    "mean_*(n=k) is read as the mean of the first min(k, count) elements ('early stopping')",
    "mode strings: the three averaging routines lower-case their `weight`, so 'uniform' / 'UNIFORM' / 'Uniform' (etc.) are all driven and judged "
    "(constant stays constant; 'SUM'/'Sum' must equal 'sum'); vertex_normals(interpolation=...) refuses other spellings with its argument error - "
    "noted, not judged",
    "needle pass: corner angles 1e-9..1e-3 rad, judged against exact rational arithmetic on the stored coordinates with ABSOLUTE tolerance "
    "8 eps + 8 eps*angle (the cross product of nearly parallel edge vectors cancels: atan2(|uxw|,u.w) is accurate to ~6u absolute, i.e. only "
    "u/angle relative); angle sum pi within 32 eps; defect sum within 16 eps (corners + vertices); cotangent within 16 eps (1+cot^2), 32 eps "
    "(1+cot^2) through the cached-angle branch",
    "far-from-the-origin pass: the input is the ROUNDED translated (or rotated + translated) coordinate array, offset = power of two x dyadic "
    "direction, |offset| = 1e3..1e7 mesh sizes, and the reference is evaluated from those stored coordinates; differences of stored coordinates "
    "are exact (Sterbenz) or correctly rounded, so every translation-invariant quantity has error <= C u cond(quantity) with C <= ~50, "
    "independent of |offset|/size: judged at 2e-13 x the same conditioning factors as next to the origin (1e-9 there); positions (midpoints, "
    "barycentres, circumcentres) at 16 eps max|coordinate| (x 1/sin(min angle) for circumcentres)",
]

EPS = 2.220446049250313e-16
REL = 1e-9

# fn -> (container, default attribute name, element dim, triangle-only, allowed helper attributes after a persistent run)
SURF_FUNCS = {
    "edge_length": ("edges", "length", 1, False, ()),
    "edge_middle_point": ("edges", "middle", 3, False, ()),
    "face_area": ("faces", "area", 1, False, ()),
    "face_normals": ("faces", "normals", 3, False, ()),
    "face_barycenter": ("faces", "barycenter", 3, False, ()),
    "face_circumcenter": ("faces", "circumcenter", 3, True, ()),
    "corner_angles": ("face_corners", "angles", 1, False, ()),
    "cotangent": ("face_corners", "cotan", 1, True, ()),
    "cotan_weights": ("edges", "cotan_weight", 1, True, (("face_corners", "cotan"),)),
    "vertex_normals": ("vertices", "normals", 3, False, (("faces", "normals"),)),
    "angle_defects": ("vertices", "angleDefect", 1, True, (("face_corners", "angles"),)),
    "degree": ("vertices", "degree", 1, False, ()),
    "triangle_aspect_ratio": ("faces", "aspect_ratio", 1, False, ()),
    "face_near_border": ("faces", "near_border", 1, False, ()),
    "border_normals": ("vertices", "borderNormals", 3, False, ()),
    "parallel_transport_curvature": ("faces", "curvature", 1, True, ()),
}
VOL_FUNCS = {
    "edge_length": ("edges", "length", 1, False, ()),
    "edge_middle_point": ("edges", "middle", 3, False, ()),
    "face_area": ("faces", "area", 1, False, ()),
    "face_barycenter": ("faces", "barycenter", 3, False, ()),
    "face_circumcenter": ("faces", "circumcenter", 3, False, ()),
    "degree": ("vertices", "degree", 1, False, ()),
    "cell_volume": ("cells", "volume", 1, False, ()),
    "cell_barycenter": ("cells", "barycenter", 3, False, ()),
    "cell_faces_on_boundary": ("cells", "boundary", 1, False, ()),
}
# how a quantity transforms: ("scalar", power of the scale factor) | "point" | "unit"
KIND = {
    "edge_length": ("scalar", 1), "edge_middle_point": "point", "face_area": ("scalar", 2), "face_normals": "unit",
    "face_barycenter": "point", "face_circumcenter": "point", "corner_angles": ("scalar", 0), "cotangent": ("scalar", 0),
    "cotan_weights": ("scalar", 0), "vertex_normals": "unit", "angle_defects": ("scalar", 0), "degree": ("scalar", 0),
    "cell_volume": ("scalar", 3), "cell_barycenter": "point",
    "triangle_aspect_ratio": ("scalar", 0), "face_near_border": ("scalar", 0), "border_normals": "unit",
    "parallel_transport_curvature": ("scalar", 0), "cell_faces_on_boundary": ("scalar", 0),
}
EXACT = ("degree", "face_near_border", "cell_faces_on_boundary")      # integer / boolean quantities: compared exactly
NEAR_DISTS = (None, 1, 3, 6)                                            # None = the default (2)


def variants(fn, rng, where):
    """Option variants of a function that are driven in pass `where` ("sweep" | "history" | "meta")."""
    if fn == "vertex_normals":
        out = [{"interpolation": w} for w in ("uniform", "area", "angle")]
        if where == "sweep":
            out.append({"interpolation": rng.choice(["uniform", "area", "angle"]), "_custom": True})
        elif where == "history":
            out += [{"interpolation": w, "_custom": True} for w in ("uniform", "area", "angle")]  # the caller's normals must win over cached ones
        return out
    if fn == "angle_defects":
        return [{"zero_border": False}, {"zero_border": True}]
    if fn == "face_near_border":
        return [({} if d is None else {"dist": d}) for d in NEAR_DISTS]
    if fn == "parallel_transport_curvature":
        return [{"_pt": "scv"}]
    return [{}]
NICE_FACTORS = [(2.0, "2"), (0.5, "1/2"), (3.0, "3"), (1 / 3.0, "1/3"), (4.0, "4"), (0.25, "1/4"), (6.0, "6"), (1 / 6.0, "1/6"),
                (-1.0, "-1"), (8.0, "8"), (0.125, "1/8"), (12.0, "12"), (1 / 12.0, "1/12"), (math.pi, "pi"), (1 / math.pi, "1/pi")]
# attributes created by the mesh classes' own lazy boundary / adjacency machinery (not by the quantity functions)
INFRA = {("vertices", "border"), ("edges", "border"), ("edges", "hard_edges"), ("cell_faces", "adjacent_cell")}
CONTAINERS = ["vertices", "edges", "faces", "face_corners", "cells", "cell_corners", "cell_faces"]


# ----------------------------------------------------------------------------------------------- cases
def cases(seed, tier):
    rng = random.Random(seed * 10007 + 7)
    out = []
    if tier == "quick":
        n_tri, n_poly, n_tet, sizes = 90, 72, 45, [2, 3, 4, 5]
    else:
        n_tri, n_poly, n_tet, sizes = 2700, 2200, 1400, [3, 4, 6, 8, 10, 12]
    vrows = ["list", "tuple", "nprow", "vec"]
    irows = ["list", "tuple", "npint"]
    k = 0
    for kind, n in (("tri", n_tri), ("poly", n_poly), ("tet", n_tet)):
        for i in range(n):
            d = {"gen": kind, "seed": rng.randrange(2 ** 31), "max_size": sizes[i % len(sizes)],
                 "vrows": vrows[k % 4], "irows": irows[(k // 4) % 3],
                 "extreme_scale": (i % 4 == 3), "sample": i in (1, 2), "far_exp": 3 + i % 5}
            if kind == "tri":
                d["planar_pt"] = (i % 3 == 0)
            if kind == "poly":
                d["source"] = ["planar", "zoo", "nonconvex"][i % 3]
            if kind == "tet":
                d["max_size"] = [1, 2, 2, 3][i % 4] if tier == "quick" else [1, 2, 3, 3][i % 4]
                d["jitter"] = [0.0, 0.02, 0.1, 0.2][(i // 2) % 4]
            out.append(d)
            k += 1
    return out


# ----------------------------------------------------------------------------------------------- inputs
def _surface_gate(R, tri, far=False):
    if R.lmin <= 0 or not np.isfinite(R.maxabs):
        return False
    if R.maxabs / R.lmin > 1e6 and not far:
        return False
    if R.tri_min_angle < math.radians(3.0):
        return False
    if not tri:
        # every consecutive vertex triple of every face must be clearly non-collinear (the library takes normals from the first three)
        for f in R.F:
            if len(f) == 3:
                continue
            P = R.V[f]
            n = len(f)
            for i in range(n):
                u = P[i] - P[i - 1]
                w = P[(i + 1) % n] - P[i]
                c = np.cross(u, w)
                if math.sqrt(float(c @ c)) < 0.05 * math.sqrt(float(u @ u) * float(w @ w)):
                    return False
    # vertex normals must exist: no vertex where the plain sum of incident unit normals (any weighting) vanishes exactly
    return True


def draw_surface(desc):
    for attempt in range(40):
        s = (desc["seed"] + 104729 * attempt) & 0x7FFFFFFF
        if desc["gen"] == "tri":
            z = surfaces.make(s, tri_only=True, generic=True, max_size=desc["max_size"])
        elif desc.get("source") == "planar":
            z = c07_planar.make(s)
        elif desc.get("source") == "nonconvex":
            z = c07_planar.make(s, nonconvex=True)
            if not any(geomq.SurfaceRef(z["V"], z["F"]).face_nc):
                continue
        else:
            z = surfaces.make(s, poly_only=True, generic=False, max_size=desc["max_size"])
        try:
            R = geomq.SurfaceRef(z["V"], z["F"])
        except (ZeroDivisionError, FloatingPointError, ValueError):
            continue
        if _surface_gate(R, desc["gen"] == "tri"):
            return z, R
    return None, None


def draw_volume(desc):
    best = None
    for attempt in range(25):
        s = (desc["seed"] + 104729 * attempt) & 0x7FFFFFFF
        z = volumes.make(s, max_size=desc["max_size"], jitter=desc["jitter"])
        try:
            R = geomq.VolumeRef(z["V"], z["C"])
        except (ZeroDivisionError, FloatingPointError, ValueError):
            continue
        if R.lmin <= 0 or R.maxabs / R.lmin > 1e6:
            continue
        if best is None:
            best = (z, R)
        if R.tri_min_angle >= math.radians(3.0):
            return z, R
    return best if best is not None else (None, None)


# ----------------------------------------------------------------------------------------------- helpers
class Env:
    """One raw input + how to build fresh meshes of it and the element tables read from the mesh under test."""

    def __init__(self, ctx, kind, V, elems, vrows, irows):
        self.ctx = ctx
        self.kind = kind            # "surface" | "volume"
        self.V = np.asarray(V, float)
        self.elems = [list(map(int, e)) for e in elems]
        self.vrows = vrows
        self.irows = irows
        self.E = None               # list of (a,b) as stored by the mesh
        self.FL = None              # faces as stored by the mesh
        self.CN = None              # corner c -> (vertex, face)   (surfaces)
        self.custom_normals = None  # face normals handed to vertex_normals(custom_fnormals=...)
        self.planar = False         # all vertices in one plane (set by the caller)
        self.ok = False

    def fresh(self):
        if self.kind == "surface":
            ok, m = self.ctx.call("construct", build.surface, self.V, self.elems, self.vrows, self.irows)
        else:
            ok, m = self.ctx.call("construct", build.volume, self.V, self.elems, self.vrows, self.irows)
        return m

    def probe(self):
        """Reads the element tables from a fresh mesh; returns False when the mesh does not hold the raw input (C02's business)."""
        ctx = self.ctx
        m = self.fresh()
        ok, E = ctx.call("read_edges", build.edges_list, m)
        ok, FL = ctx.call("read_faces", build.faces_list, m)
        ok, VA = ctx.call("read_vertices", build.vertices_array, m)
        self.E, self.FL = E, FL
        if VA.shape != self.V.shape or not np.array_equal(VA, self.V):
            ctx.note("input_not_held_verbatim:vertices")
            return False
        if self.kind == "surface":
            if FL != self.elems:
                ctx.note("input_not_held_verbatim:faces")
                return False

            def corners():
                fc = m.face_corners
                return [(int(fc[c]), int(fc.adj(c))) for c in range(len(fc))]
            ok, self.CN = ctx.call("read_corners", corners)
        else:
            ok, CL = ctx.call("read_cells", build.cells_list, m)
            if CL != self.elems:
                ctx.note("input_not_held_verbatim:cells")
                return False
        self.ok = True
        return True

    def count(self, container):
        if container == "vertices":
            return len(self.V)
        if container == "edges":
            return len(self.E)
        if container == "faces":
            return len(self.FL)
        if container == "face_corners":
            return len(self.CN)
        if container == "cells":
            return len(self.elems)
        raise KeyError(container)


def snapshot(m):
    out = set()
    for c in CONTAINERS:
        cont = getattr(m, c, None)
        if cont is None:
            continue
        try:
            for name in list(cont.attributes):
                if (c, str(name)) not in INFRA:
                    out.add((c, str(name)))
        except Exception:
            pass
    return out


def read_values(ctx, site, attr, n, dim):
    """Attribute -> float array (n,) / (n,dim); None (after recording a violation) when the answer is malformed."""
    if attr is None or not hasattr(attr, "__getitem__"):
        ctx.violation("call", site, "returns_no_attribute", "%s returned %r instead of an attribute" % (site, type(attr).__name__))
        return None

    def rd():
        return [attr[i] for i in range(n)]
    ok, vals = ctx.call(site, rd, abort=False)
    if not ok:
        return None
    try:
        arr = np.array([np.asarray(v, dtype=float).reshape(-1) for v in vals], dtype=float)
    except Exception as e:  # ragged / non numeric
        ctx.violation("call", site, "malformed_values", "%s: values cannot be read as floats (%s)" % (site, str(e)[:100]))
        return None
    if arr.ndim != 2 or arr.shape != (n, dim):
        ctx.violation("call", site, "malformed_values", "%s: value array has shape %s, expected (%d,%d)" % (site, arr.shape, n, dim),
                      shape=list(arr.shape))
        return None
    return arr[:, 0] if dim == 1 else arr


def _failed(ctx):
    """(monitor, op) pairs whose comparison failed in this case (kept on the ctx object, not in the serialised record)."""
    if not hasattr(ctx, "_c07_failed"):
        ctx._c07_failed = set()
    return ctx._c07_failed


def _margin(ctx, op, err, tol):
    """Far pass: how much of the tolerance the unchanged library uses (bucketed max error / tolerance, reported as notes)."""
    with np.errstate(invalid="ignore", divide="ignore"):
        r = np.where(tol > 0, err / np.where(tol > 0, tol, 1.0), np.where(err > 0, np.inf, 0.0))
    m = float(np.nanmax(r)) if len(r) else 0.0
    b = "<=1e-4" if m <= 1e-4 else "<=1e-3" if m <= 1e-3 else "<=1e-2" if m <= 1e-2 else "<=1e-1" if m <= 1e-1 else "<=1" if m <= 1 else ">1"
    ctx.note("far_error_over_tolerance:%s:%s" % (op, b))


def classify(got, exp, bad, judged):
    """Stable description of a disagreement pattern (computed from the values, no random content)."""
    if not np.all(np.isfinite(got[bad])):
        return "non_finite_value"
    if np.all(got[bad] == 0) and np.any(exp[bad] != 0):
        return "returns_zeros"
    nb, nj = int(np.sum(bad)), int(np.sum(judged))
    if got.ndim == 1:
        e = exp[bad]
        g = got[bad]
        nz = np.abs(e) > 1e-12 * (1 + np.max(np.abs(exp[judged])))
        if nb == nj and nb >= 2 and np.all(nz):
            r = g / e
            if np.max(np.abs(r - r[0])) <= 1e-6 * abs(r[0]):
                for nice, label in NICE_FACTORS:
                    if abs(r[0] - nice) <= 1e-6 * abs(nice):
                        return "all_values_off_by_factor_" + label
                return "all_values_off_by_a_common_factor"
        if nb == nj and nb >= 2:
            d = g - e
            if np.max(np.abs(d - d[0])) <= 1e-6 * (abs(d[0]) + 1e-300):
                return "all_values_off_by_constant_offset"
        if np.all(np.abs(g + e) <= 1e-6 * (np.abs(e) + 1e-300)):
            return "sign_flipped" if nb == nj else "some_values_sign_flipped"
    else:
        if np.all(np.max(np.abs(got[bad] + exp[bad]), axis=1) <= 1e-6 * (1e-300 + np.max(np.abs(exp[bad]), axis=1))):
            return "vectors_negated" if nb == nj else "some_vectors_negated"
        ng = np.linalg.norm(got[bad], axis=1)
        ne = np.linalg.norm(exp[bad], axis=1)
        if np.all(ne > 0) and np.all(ng > 0):
            cosang = np.sum(got[bad] * exp[bad], axis=1) / (ng * ne)
            if np.all(cosang > 1 - 1e-12) and np.all(np.abs(ng - ne) > 1e-9 * ne):
                return "vectors_have_wrong_length_right_direction"
    return "values_differ"


def compare(ctx, monitor, op, got, exp, tol, judged=None, what="", **wit):
    """Counts one observation per judged element and records one violation when some judged element is off by more than tol."""
    got = np.asarray(got, float)
    exp = np.asarray(exp, float)
    n = len(exp)
    tol = np.broadcast_to(np.asarray(tol, float), (n,))
    if judged is None:
        judged = np.ones(n, bool)
    judged = np.asarray(judged, bool)
    nj = int(np.sum(judged))
    if nj == 0:
        return True
    ctx.obs(monitor, op, nj)
    if got.shape != exp.shape:
        _failed(ctx).add((monitor, op))
        ctx.violation(monitor, op, "shape_mismatch", "%s: %s values for %s elements" % (op, got.shape, exp.shape))
        return False
    err = np.abs(got - exp)
    if err.ndim == 2:
        err = np.max(err, axis=1)
    with np.errstate(invalid="ignore"):
        bad = judged & ~(err <= tol)
    if monitor == "far":
        _margin(ctx, op, err[judged], tol[judged])
    if not bad.any():
        return True
    _failed(ctx).add((monitor, op))
    mech = classify(got, exp, bad, judged)
    i = int(np.argmax(np.where(bad, np.nan_to_num(err / (tol + 1e-300), nan=1e300, posinf=1e300), -1)))
    ctx.violation(monitor, op, mech, "%s: %d of %d judged values disagree%s" % (op, int(np.sum(bad)), nj, (" (" + what + ")") if what else ""),
                  element=i, got=got[i], expected=exp[i], tolerance=float(tol[i]), n_bad=int(np.sum(bad)), n_judged=nj, **wit)
    return False


def fn_key(fn, extras):
    if fn == "vertex_normals":
        return "vertex_normals:" + extras.get("interpolation", "area") + (":custom_fnormals" if extras.get("_custom") else "")
    if fn == "angle_defects":
        return "angle_defects" + (":zero_border" if extras.get("zero_border") else "")
    if fn == "face_near_border":
        return "face_near_border:dist=%s" % extras.get("dist", "default")
    if fn == "parallel_transport_curvature":
        return "parallel_transport_curvature:" + extras.get("_pt", "scv")
    return fn


def call_quantity(ctx, env, fn, spec, persistent, dense, name, extras, mesh=None, check_left=True):
    """Runs one quantity function on a fresh mesh (or `mesh`), returns the value array (or None)."""
    import mouette as M
    container, dflt, dim, _, helpers = spec
    m = env.fresh() if mesh is None else mesh
    kwargs = dict(extras)
    if kwargs.pop("_custom", False):
        # the caller's own face normals: here the negated true normals, in a free-standing attribute
        def mk():
            from mouette.mesh.mesh_attributes import Attribute, ArrayAttribute
            a = ArrayAttribute(float, len(env.custom_normals), 3) if dense else Attribute(float, 3)
            for i, nrm in enumerate(env.custom_normals):
                a[i] = [float(x) for x in nrm]
            return a
        ok, cattr = ctx.call("make_attribute", mk, abort=False)
        if not ok:
            return None
        kwargs["custom_fnormals"] = cattr
    pargs = ()
    pt = kwargs.pop("_pt", None)
    if pt is not None:
        # the parallel transport is an input of the function: built first (it stores its own normals / angles on the mesh)
        def mkpt():
            from mouette.processing.connection import SurfaceConnectionVertices, FlatConnectionVertices
            return SurfaceConnectionVertices(m) if pt == "scv" else FlatConnectionVertices(m)
        ok, PT = ctx.call("make_connection:" + pt, mkpt, expect=(Exception,), abort=False)
        if not ok:
            ctx.note("connection_not_built(%s):%s" % (pt, type(PT).__name__))   # C18's business, not a per-element quantity
            return None
        pargs = (PT,)
    before = snapshot(m)
    kwargs["persistent"] = persistent
    kwargs["dense"] = dense
    if name is not None:
        kwargs["name"] = name
    f = getattr(M.attributes, fn)
    ok, attr = ctx.call(fn, f, m, *pargs, abort=False, **kwargs)
    if not ok:
        return None
    n = env.count(container)
    if attr is None and persistent:
        # documented to return the attribute: report, then still judge the values it left on the mesh
        ctx.violation("call", fn, "returns_no_attribute", "%s returned None instead of the attribute it documents" % fn)
        aname0 = name if name is not None else dflt
        ok0, attr = ctx.call(fn, lambda: getattr(m, container).get_attribute(aname0), abort=False)
        if not ok0:
            return None
    arr = read_values(ctx, fn, attr, n, dim)
    if not check_left:
        return arr
    after = snapshot(m)
    new = after - before
    aname = name if name is not None else dflt
    op = "attributes_left_behind"
    if persistent:
        have = (container, aname) in after
        ctx.check(have, "options", op, "%s:persistent_attribute_missing" % fn,
                  "%s(persistent=True, name=%r) left no attribute %r on mesh.%s" % (fn, name, aname, container),
                  new=sorted(map(list, new)))
        if have and arr is not None:
            ok2, stored = ctx.call(fn, lambda: getattr(m, container).get_attribute(aname), abort=False)
            if ok2:
                arr2 = read_values(ctx, fn, stored, n, dim)
                if arr2 is not None:
                    same = arr2.shape == arr.shape and np.array_equal(arr2, arr, equal_nan=True)
                    ctx.check(same, "options", op, "%s:stored_attribute_differs_from_returned" % fn,
                              "%s: the attribute stored on the mesh does not hold the returned values" % fn)
        extra = new - {(container, aname)} - set(helpers)
        ctx.check(not extra, "options", op, "%s:persistent_leaves_extra:%s" % (fn, ",".join(sorted("%s.%s" % e for e in extra))),
                  "%s(persistent=True) left unexpected attributes behind" % fn, extra=sorted(map(list, extra)))
    else:
        ctx.check(not new, "options", op, "%s:non_persistent_leaves:%s" % (fn, ",".join(sorted("%s.%s" % e for e in new))),
                  "%s(persistent=False) left attributes on the mesh" % fn, new=sorted(map(list, new)))
    want_dense = bool(dense)
    is_dense = type(attr).__name__ == "ArrayAttribute"
    if is_dense != want_dense:
        ctx.note("storage_ignores_dense_flag:%s:persistent=%s" % (fn, persistent))
    return arr


# ----------------------------------------------------------------------------------------------- expectations (surface)
def ekey(e):
    return (min(e), max(e))


def judge_surface(ctx, monitor, fn, extras, arr, R, env):
    """Compares one value array with the reference.  `monitor` is "ref" or "history"."""
    rel = getattr(env, "rel", REL)                                         # 1e-9, or 1e-12 in the far-from-the-origin pass
    postol = getattr(env, "pos_tol", None) or REL * (R.maxabs + R.lmax)    # positions: relative to the coordinates' magnitude
    if arr is None:
        return
    key = fn_key(fn, extras)
    op = key if monitor == "ref" else key
    V = R.V
    K = 1.0 / max(math.sin(min(R.tri_min_angle, math.pi / 2)), 0.05)
    if fn == "edge_length":
        exp = np.array([R.edge_len.get(ekey(e), np.nan) for e in env.E])
        compare(ctx, monitor, op, arr, exp, rel * exp, what="|q-p|")
    elif fn == "edge_middle_point":
        exp = np.array([(V[a] + V[b]) / 2 for a, b in env.E])
        compare(ctx, monitor, op, arr, exp, postol, what="(p+q)/2")
    elif fn == "face_area":
        compare(ctx, monitor, op, arr, R.area, rel * K * R.fdiam ** 2, judged=R.area_regular,
                what="area of the planar polygon (triangle, convex face, or non-convex face star-shaped around its vertex mean)")
        nstar = int(sum(1 for a, b in zip(R.face_nc, R.area_regular) if a and b))
        if nstar:
            ctx.obs("coverage", monitor + ":face_area_on_nonconvex_faces_star_shaped_from_vertex_mean", nstar)
        hard = np.array(R.area_hard)
        if hard.any():
            # planar simple non-convex quads / polygons that are not star-shaped around the mean of their vertices:
            # the shoelace (Newell) area is just as unambiguous there; kept under its own op so that it is told apart
            hop = op + ":nonconvex_face"
            ctx.obs(monitor, hop, int(hard.sum()))
            tolh = rel * K * R.fdiam ** 2
            with np.errstate(invalid="ignore"):
                badh = hard & ~(np.abs(arr - R.area) <= tolh)
            if badh.any():
                i = int(np.argmax(badh))
                nq = len(env.FL[i])
                ctx.violation(monitor, hop, "area_differs_from_shoelace_on_%s" % ("nonconvex_quad" if nq == 4 else "polygon_not_star_shaped_from_its_vertex_mean"),
                              "face_area of a planar simple non-convex face is not its shoelace area", face=env.FL[i],
                              points=R.V[env.FL[i]], got=arr[i], expected=R.area[i], n_bad=int(badh.sum()), n_judged=int(hard.sum()))
    elif fn == "face_normals":
        compare(ctx, monitor, op, arr, R.normal, rel * K * 10, judged=R.face_ok, what="unit normal of the oriented face")
        nc = np.array(R.face_nc)
        if nc.any():
            hop = op + ":nonconvex_face"
            ctx.obs(monitor, hop, int(nc.sum()))
            with np.errstate(invalid="ignore"):
                badn = nc & ~(np.max(np.abs(arr - R.normal), axis=1) <= rel * K * 10)
            if badn.any():
                neg = bool(np.all(np.max(np.abs(arr[badn] + R.normal[badn]), axis=1) <= rel * K * 10))
                i = int(np.argmax(badn))
                ctx.violation(monitor, hop, "opposite_normal_on_planar_nonconvex_face" if neg else "values_differ",
                              "face_normals of a planar simple non-convex face is not the unit normal of the oriented face (Newell)",
                              face=env.FL[i], points=R.V[env.FL[i]], got=arr[i], expected=R.normal[i], n_bad=int(badn.sum()), n_judged=int(nc.sum()))
    elif fn == "face_barycenter":
        compare(ctx, monitor, op, arr, R.fbary, postol, what="mean of the face's vertices")
    elif fn == "face_circumcenter":
        judge_circumcentres(ctx, monitor, op, arr, [V[f] for f in R.F], R.maxabs, K, rel, getattr(env, "pos_tol", None))
    elif fn == "corner_angles":
        exp = np.array([R.angle.get((f, v), np.nan) for v, f in env.CN])
        # at a reflex corner of a non-convex face "the" corner angle is ambiguous (interior angle > pi vs angle between the edges): not judged
        jd = np.array([(f, v) not in R.reflex for v, f in env.CN])
        compare(ctx, monitor, op, arr, exp, rel * 10, judged=jd, what="angle between the two face edges at the corner")
    elif fn == "cotangent":
        exp = np.array([R.cot.get((f, v), np.nan) for v, f in env.CN])
        compare(ctx, monitor, op, arr, exp, rel * 10 * (1 + exp ** 2), what="cotangent of the corner angle")
    elif fn == "cotan_weights":
        ws = [R.cot_weight(a, b) for a, b in env.E]
        exp = np.array([w for w, _ in ws])
        big = np.array([b for _, b in ws])
        border = np.array([ekey(e) in R.border_edges for e in env.E])
        ok = compare(ctx, monitor, op, arr, exp, rel * 10 * (1 + big ** 2), what="1/2 (cot alpha + cot beta)")
        if not ok and border.any() and not border.all():
            err = np.abs(arr - exp) > rel * 10 * (1 + big ** 2)
            if not err[~border].any():
                ctx.violation(monitor, op, "wrong_on_border_edges_only", "cotangent weights are right on interior edges and wrong on border edges")
            elif not err[border].any():
                ctx.violation(monitor, op, "wrong_on_interior_edges_only", "cotangent weights are right on border edges and wrong on interior edges")
    elif fn == "vertex_normals":
        w = extras.get("interpolation", "area")
        exp = np.zeros((R.nV, 3))
        cond = np.zeros(R.nV)
        jd = np.zeros(R.nV, bool)
        for v in range(R.nV):
            exp[v], cond[v], jd[v] = R.vertex_normal(v, w)
        jd &= cond >= 0.05
        if extras.get("_custom"):
            exp = -exp
        if (~jd).any():
            ctx.note("vertex_normals_not_judged(ill_conditioned_or_warped_face)", int(np.sum(~jd)))
        compare(ctx, monitor, op, arr, exp, rel * K * 10 / np.maximum(cond, 0.05), judged=jd, what="normalised %s-weighted sum of face normals" % w)
    elif fn == "angle_defects":
        zb = bool(extras.get("zero_border", False))
        exp = np.array([R.defect(v, zb) for v in range(R.nV)])
        tol = rel * 10 * (1 + R.degree)
        ok = compare(ctx, monitor, op, arr, exp, tol, what="2pi - sum (interior), %s (border)" % ("0" if zb else "pi - sum"))
        if not ok and R.border_vertices and len(R.border_vertices) < R.nV:
            isb = np.array([v in R.border_vertices for v in range(R.nV)])
            err = np.abs(arr - exp) > tol
            if not err[~isb].any():
                ctx.violation(monitor, op, "wrong_on_border_vertices_only", "angle defects are right at interior vertices and wrong on the border")
            elif not err[isb].any():
                ctx.violation(monitor, op, "wrong_on_interior_vertices_only", "angle defects are right on the border and wrong at interior vertices")
    elif fn == "degree":
        compare(ctx, monitor, op, arr, R.degree.astype(float), 0.0, what="number of adjacent vertices")
    elif fn == "triangle_aspect_ratio":
        exp = R.aspect_ratios()
        compare(ctx, monitor, op, arr, exp, rel * 10 * K * K * np.abs(exp), what="abc/(8(s-a)(s-b)(s-c)) on triangles, -1 on other faces")
    elif fn == "face_near_border":
        d = extras.get("dist", 2)
        compare(ctx, monitor, op, arr, R.near_border(d), 0.0, what="faces at dual distance < %d from a face with a border edge" % d)
    elif fn == "border_normals":
        # the docstring only promises "the normal direction of the boundary curve" per vertex: judged = a direction (unit length) exists on
        # every border vertex and nothing is written on interior vertices; the direction itself is judged by the rigid / scale passes
        isb = np.array([v in R.border_vertices for v in range(R.nV)])
        nrm = np.linalg.norm(arr, axis=1)
        if isb.any():
            compare(ctx, monitor, op, nrm[isb], np.ones(int(isb.sum())), rel * 10, what="unit length on border vertices")
        if (~isb).any():
            ctx.obs(monitor, op, int((~isb).sum()))
            if np.any(nrm[~isb] != 0):
                _failed(ctx).add((monitor, op))
                ctx.violation(monitor, op, "nonzero_on_interior_vertex", "border_normals wrote a vector on a vertex that is not on the border",
                              vertex=int(np.argmax((nrm != 0) & ~isb)))
    elif fn == "parallel_transport_curvature":
        # holonomy of the transport around each triangle: judged only where it is unambiguous - a planar mesh has none
        # (canonical flat connection: every face; vertex connection: faces whose three vertices are interior, total angle 2 pi)
        if not getattr(env, "planar", False):
            ctx.note("parallel_transport_curvature_values_not_judged(non_planar_mesh)")
            return
        if extras.get("_pt") == "flat":
            jd = np.ones(R.nF, bool)
        else:
            jd = np.array([all(v not in R.border_vertices for v in f) for f in R.F])
        wrapped = np.abs(np.angle(np.exp(1j * arr)))
        compare(ctx, monitor, op, wrapped, np.zeros(R.nF), rel * 100, judged=jd, what="no curvature on a planar mesh")


def judge_circumcentres(ctx, monitor, op, arr, tris, maxabs, K, rel=REL, pos=None):
    """Equidistance + coplanarity of each returned point; the two facts are reported under distinct mechanisms."""
    n = len(tris)
    ctx.obs(monitor, op, n)
    worst_eq = worst_pl = None
    for i, P in enumerate(tris):
        X = arr[i]
        if not np.all(np.isfinite(X)):
            ctx.violation(monitor, op, "non_finite_value", "%s: non-finite circumcentre" % op, element=i)
            return
        rc = geomq.circumradius(P[0], P[1], P[2])
        tol = rel * 10 * K * rc + (rel * 10 * K * maxabs if pos is None else pos * K)
        spread, off = geomq.circumcentre_residuals(X, P[0], P[1], P[2])
        if monitor == "far":
            _margin(ctx, op, np.array([max(spread, off)]), np.array([tol]))
        if spread > tol and (worst_eq is None or spread / tol > worst_eq[0]):
            worst_eq = (spread / tol, i, spread, tol, off)
        if off > tol and (worst_pl is None or off / tol > worst_pl[0]):
            worst_pl = (off / tol, i, off, tol, spread)
    if worst_pl is not None or worst_eq is not None:
        _failed(ctx).add((monitor, op))
    if worst_pl is not None:
        _, i, off, tol, spread = worst_pl
        mech = "point_off_the_triangle_plane" + ("_but_equidistant" if spread <= tol else "")
        ctx.violation(monitor, op, mech, "%s: returned point is at distance %.3g from the plane of its triangle" % (op, off),
                      element=i, triangle=np.asarray(tris[i]), got=arr[i], distance_to_plane=off, spread_of_vertex_distances=spread, tolerance=tol)
    if worst_eq is not None and (worst_pl is None or worst_pl[4] > worst_pl[3]):
        _, i, spread, tol, off = worst_eq
        if worst_pl is None:
            ctx.violation(monitor, op, "point_not_equidistant_from_the_vertices",
                          "%s: distances to the three vertices differ by %.3g" % (op, spread),
                          element=i, triangle=np.asarray(tris[i]), got=arr[i], spread_of_vertex_distances=spread, tolerance=tol)


def judge_volume(ctx, monitor, fn, extras, arr, R, env):
    rel = getattr(env, "rel", REL)                                         # 1e-9, or 1e-12 in the far-from-the-origin pass
    postol = getattr(env, "pos_tol", None) or REL * (R.maxabs + R.lmax)    # positions: relative to the coordinates' magnitude
    if arr is None:
        return
    op = fn
    V = R.V
    K = 1.0 / max(math.sin(min(R.tri_min_angle, math.pi / 2)), 1e-3)
    if fn == "edge_length":
        exp = np.array([R.edge_len.get(ekey(e), np.nan) for e in env.E])
        compare(ctx, monitor, op, arr, exp, rel * exp, what="|q-p|")
    elif fn == "edge_middle_point":
        exp = np.array([(V[a] + V[b]) / 2 for a, b in env.E])
        compare(ctx, monitor, op, arr, exp, postol, what="(p+q)/2")
    elif fn == "face_area":
        exp = np.array([geomq.polygon_area(V[f]) for f in env.FL])
        compare(ctx, monitor, op, arr, exp, rel * 10 * R.lmax ** 2, what="triangle area")
    elif fn == "face_barycenter":
        exp = np.array([geomq.barycentre(V[f]) for f in env.FL])
        compare(ctx, monitor, op, arr, exp, postol, what="mean of the face's vertices")
    elif fn == "face_circumcenter":
        if R.tri_min_angle >= math.radians(3.0):
            judge_circumcentres(ctx, monitor, op, arr, [V[f] for f in env.FL], R.maxabs, K, rel, getattr(env, "pos_tol", None))
        else:
            ctx.note("volume_face_circumcentres_not_judged(sliver_faces)")
    elif fn == "degree":
        compare(ctx, monitor, op, arr, R.degree.astype(float), 0.0, what="number of adjacent vertices")
    elif fn == "cell_volume":
        compare(ctx, monitor, op, arr, R.volume, rel * R.cdiam ** 3 + rel * R.volume, what="|det|/6")
    elif fn == "cell_barycenter":
        compare(ctx, monitor, op, arr, R.cbary, postol, what="mean of the cell's vertices")
    elif fn == "cell_faces_on_boundary":
        compare(ctx, monitor, op, arr, R.cell_border_faces.astype(float), 0.0, what="number of faces of the cell that belong to no other cell")


# ----------------------------------------------------------------------------------------------- passes
def option_sweep(ctx, env, R, funcs, rng, judge):
    """All (persistent, dense) x extras on fresh meshes; returns {key: value array of the first successful combo}."""
    base = {}
    tri = getattr(R, "tri", True)
    for fn, spec in funcs.items():
        if spec[3] and not tri:
            continue
        for extras in variants(fn, rng, "sweep"):
            key = fn_key(fn, extras)
            first = None
            combos = [(True, True), (True, False), (False, True), (False, False)]
            if fn == "face_near_border" and "dist" in extras:
                combos = [(True, False), (False, True)]      # the four storage combinations are covered by the default-dist variant
            for persistent, dense in combos:
                if True:
                    name = None if rng.random() < 0.5 else "c07_" + fn
                    ctx.cls("opt:persistent=%s,dense=%s,name=%s" % (persistent, dense, "default" if name is None else "custom"))
                    arr = call_quantity(ctx, env, fn, spec, persistent, dense, name, extras)
                    if arr is None:
                        continue
                    judge(ctx, "ref", fn, extras, arr, R, env)
                    if first is None:
                        first = arr
                        base[key] = arr
                    else:
                        same = arr.shape == first.shape and bool(
                            np.all(np.abs(arr - first) <= 1e-12 * (1.0 + float(np.max(np.abs(first)))) * np.ones_like(first)))
                        ctx.check(same, "options", "persistent_dense_agree", "%s:result_depends_on_persistent_or_dense" % key,
                                  "%s: persistent=%s dense=%s gives other values than persistent=True dense=True" % (key, persistent, dense))
    if "vertex_normals" in funcs:
        import mouette as M
        spec = funcs["vertex_normals"]
        for w in ("uniform", "area", "angle"):
            for spell, ws in (("UPPER", w.upper()), ("Capitalised", w.capitalize())):
                m = env.fresh()
                ok, attr = call_mode(ctx, "vertex_normals:" + w + ":" + spell, spell, M.attributes.vertex_normals, m, interpolation=ws,
                                     persistent=rng.random() < 0.5, dense=rng.random() < 0.5)
                if ok:
                    arr = read_values(ctx, "vertex_normals", attr, env.count("vertices"), 3)
                    judge(ctx, "ref", "vertex_normals", {"interpolation": w}, arr, R, env)
    return base


def identities_surface(ctx, env, R, base):
    ang = base.get("corner_angles")
    if ang is not None and env.CN is not None:
        sums = {}
        cnt = {}
        for c, (v, f) in enumerate(env.CN):
            sums[f] = sums.get(f, 0.0) + float(ang[c])
            cnt[f] = cnt.get(f, 0) + 1
        tris = [f for f in range(R.nF) if len(R.F[f]) == 3 and cnt.get(f) == 3]
        if tris:
            got = np.array([sums[f] for f in tris])
            compare(ctx, "identity", "triangle_angle_sum", got, np.full(len(tris), math.pi), REL * 10,
                    what="corner angles of a triangle sum to pi")
    d = base.get("angle_defects")
    if d is not None and R.tri:
        import mouette as M
        m = env.fresh()
        ok, chi = ctx.call("euler_characteristic", M.attributes.euler_characteristic, m, abort=False)
        tol = REL * 10 * (R.nV + R.nF)
        tot = float(np.sum(d))
        ctx.check(abs(tot - 2 * math.pi * R.chi) <= tol, "identity", "defect_sum_2pi_chi", "sum_of_angle_defects_is_not_2pi_chi",
                  "sum of angle defects %.12g != 2 pi chi = %.12g (chi=%d)" % (tot, 2 * math.pi * R.chi, R.chi),
                  chi=R.chi, border_vertices=len(R.border_vertices), total=tot)
        if ok:
            try:
                chi_f = float(chi)
            except Exception:
                chi_f = float("nan")
            ctx.check(abs(tot - 2 * math.pi * chi_f) <= tol, "identity", "defect_sum_2pi_chi", "sum_of_angle_defects_is_not_2pi_times_library_chi",
                      "sum of angle defects %.12g != 2 pi * euler_characteristic(mesh) = %r" % (tot, chi), chi=repr(chi))


def globals_check(ctx, env, R, rng, kind):
    import mouette as M
    A = M.attributes

    def one(name, f, exp, tol, *a, **kw):
        m = env.fresh()
        ok, val = ctx.call(name, f, m, *a, abort=False, **kw)
        if not ok:
            return None
        try:
            got = np.asarray(val, dtype=float).reshape(-1)
        except Exception:
            ctx.violation("call", name, "malformed_values", "%s returned %r" % (name, type(val).__name__))
            return None
        expa = np.asarray(exp, dtype=float).reshape(-1)
        if got.shape != expa.shape:
            ctx.violation("call", name, "malformed_values", "%s returned shape %s" % (name, got.shape))
            return None
        err = float(np.max(np.abs(got - expa))) if np.all(np.isfinite(got)) else float("inf")
        return got, err, tol

    def verdict(op, res, mech, what, **wit):
        if res is None:
            return
        got, err, tol = res
        ctx.check(err <= tol, "ref", op, mech, what + " (|error| %.3g > %.3g)" % (err, tol), got=got, **wit)

    nE = len(env.E)
    lens = np.array([R.edge_len.get(ekey(e), np.nan) for e in env.E])
    verdict("mean_edge_length", one("mean_edge_length", A.mean_edge_length, R.mean_edge_length, REL * R.lmax),
            "differs_from_mean_of_all_edge_lengths", "mean_edge_length(mesh) is not the mean edge length", expected=R.mean_edge_length)
    k = rng.randint(1, nE)
    verdict("mean_edge_length", one("mean_edge_length", A.mean_edge_length, float(np.mean(lens[:k])), REL * R.lmax, k),
            "n_le_count:differs_from_mean_of_first_n_edges", "mean_edge_length(mesh, n<=count) is not the mean of the first n edges", n=k, count=nE)
    k = nE + rng.randint(1, nE + 3)
    verdict("mean_edge_length", one("mean_edge_length", A.mean_edge_length, R.mean_edge_length, REL * R.lmax, k),
            "n_gt_count:differs_from_mean_of_all_edges", "mean_edge_length(mesh, n>count) is not the mean of the (all) edges considered",
            n=k, count=nE, expected=R.mean_edge_length)
    verdict("barycenter", one("barycenter", A.barycenter, R.barycenter, REL * (R.maxabs + R.lmax)),
            "differs_from_mean_of_vertices", "barycenter(mesh) is not the mean of the vertices", expected=R.barycenter)
    if kind == "surface":
        verdict("euler_characteristic", one("euler_characteristic", A.euler_characteristic, R.chi, 0.0),
                "differs_from_V_minus_E_plus_F", "euler_characteristic(mesh) != V - E + F", expected=R.chi)
        if R.all_area_regular:
            tolA = REL * 10 * float(np.sum(R.fdiam ** 2))
            verdict("total_area", one("total_area", A.total_area, R.total_area, tolA),
                    "differs_from_sum_of_face_areas", "total_area(mesh) is not the sum of the face areas", expected=R.total_area)
            tolM = REL * 10 * float(np.max(R.fdiam ** 2))
            verdict("mean_face_area", one("mean_face_area", A.mean_face_area, R.mean_face_area, tolM),
                    "differs_from_mean_of_all_face_areas", "mean_face_area(mesh) is not the mean face area", expected=R.mean_face_area)
            k = rng.randint(1, R.nF)
            verdict("mean_face_area", one("mean_face_area", A.mean_face_area, float(np.mean(R.area[:k])), tolM, k),
                    "n_le_count:differs_from_mean_of_first_n_faces", "mean_face_area(mesh, n<=count) is not the mean of the first n faces", n=k, count=R.nF)
            k = R.nF + rng.randint(1, R.nF + 3)
            verdict("mean_face_area", one("mean_face_area", A.mean_face_area, R.mean_face_area, tolM, k),
                    "n_gt_count:differs_from_mean_of_all_faces", "mean_face_area(mesh, n>count) is not the mean of the (all) faces considered",
                    n=k, count=R.nF, expected=R.mean_face_area)
        elif R.all_area_judged:
            # some planar non-convex quads / not-star-shaped polygons: the sums are as unambiguous, kept under their own ops
            tolA = REL * 10 * float(np.sum(R.fdiam ** 2))
            verdict("total_area:nonconvex_faces", one("total_area", A.total_area, R.total_area, tolA),
                    "differs_from_sum_of_shoelace_areas", "total_area(mesh) is not the sum of the (shoelace) face areas", expected=R.total_area)
            tolM = REL * 10 * float(np.max(R.fdiam ** 2))
            verdict("mean_face_area:nonconvex_faces", one("mean_face_area", A.mean_face_area, R.mean_face_area, tolM),
                    "differs_from_mean_of_shoelace_areas", "mean_face_area(mesh) is not the mean (shoelace) face area", expected=R.mean_face_area)
        else:
            ctx.note("area_sums_not_judged(warped_faces)")
    else:
        nF = len(env.FL)
        areas = np.array([geomq.polygon_area(R.V[f]) for f in env.FL])
        tolM = REL * 10 * R.lmax ** 2
        verdict("mean_face_area", one("mean_face_area", A.mean_face_area, float(np.mean(areas)), tolM),
                "differs_from_mean_of_all_face_areas", "mean_face_area(volume mesh) is not the mean face area")
        k = nF + rng.randint(1, 5)
        verdict("mean_face_area", one("mean_face_area", A.mean_face_area, float(np.mean(areas)), tolM, k),
                "n_gt_count:differs_from_mean_of_all_faces", "mean_face_area(mesh, n>count) is not the mean of the (all) faces considered", n=k, count=nF)
        tolV = REL * 10 * float(np.max(R.cdiam ** 3))
        verdict("mean_cell_volume", one("mean_cell_volume", A.mean_cell_volume, R.mean_cell_volume, tolV),
                "differs_from_mean_of_all_cell_volumes", "mean_cell_volume(mesh) is not the mean cell volume", expected=R.mean_cell_volume)
        k = rng.randint(1, R.nC)
        verdict("mean_cell_volume", one("mean_cell_volume", A.mean_cell_volume, float(np.mean(R.volume[:k])), tolV, k),
                "n_le_count:differs_from_mean_of_first_n_cells", "mean_cell_volume(mesh, n<=count) is not the mean of the first n cells", n=k, count=R.nC)
        k = R.nC + rng.randint(1, R.nC + 3)
        verdict("mean_cell_volume", one("mean_cell_volume", A.mean_cell_volume, R.mean_cell_volume, tolV, k),
                "n_gt_count:differs_from_mean_of_all_cells", "mean_cell_volume(mesh, n>count) is not the mean of the (all) cells considered",
                n=k, count=R.nC, expected=R.mean_cell_volume)


def _make_attr(m, container, n, dim, storage, value, on_mesh, name):
    """A float attribute holding the constant `value` on every element.  storage: dense | sparse | sparse_default."""
    from mouette.mesh.mesh_attributes import Attribute, ArrayAttribute
    if storage == "sparse_default":
        if on_mesh:
            return getattr(m, container).create_attribute(name, float, dim, dense=False, default_value=float(value))
        return Attribute(float, dim, default_value=float(value))
    if on_mesh:
        a = getattr(m, container).create_attribute(name, float, dim, dense=(storage == "dense"))
    else:
        a = ArrayAttribute(float, n, dim) if storage == "dense" else Attribute(float, dim)
    if value is not None:
        for i in range(n):
            a[i] = float(value) if dim == 1 else [float(x) for x in value]
    return a


def call_mode(ctx, site, spell, f, *args, **kw):
    """Call with a mode string.  A non-lower spelling that the library refuses with its argument error is 'not accepted' (noted, not judged)."""
    if spell == "lower":
        return ctx.call(site, f, *args, abort=False, **kw)
    ok, val = ctx.call(site, f, *args, expect=(Exception,), abort=False, **kw)
    if ok:
        return True, val
    e = val
    if type(e).__name__.startswith("InvalidArgument") or "not recognized" in str(e):
        ctx.note("mode_spelling_rejected:" + site)
        return False, e
    ctx.violation("call", site, "exception:%s@%s" % (type(e).__name__, mouette_site(e.__traceback__) or "harness"),
                  "unexpected %s in %s: %s" % (type(e).__name__, site, str(e)[:200]))
    return False, e


def interpolation_constants(ctx, env, rng, kind):
    import mouette as M
    A = M.attributes
    nV = len(env.V)
    nF = len(env.FL)
    nC = len(env.CN) if env.CN is not None else 0
    plans = [("interpolate_vertices_to_faces", "vertices", "faces", None)]
    if kind == "surface":
        for w in ("uniform", "area", "angle", "sum"):
            plans.append(("interpolate_faces_to_vertices", "faces", "vertices", w))
        plans.append(("scatter_vertices_to_corners", "vertices", "face_corners", None))
        for w in ("uniform", "angle", "sum"):
            plans.append(("average_corners_to_vertices", "face_corners", "vertices", w))
        plans.append(("scatter_faces_to_corners", "faces", "face_corners", None))
        for w in ("uniform", "angle", "sum"):
            plans.append(("average_corners_to_faces", "face_corners", "faces", w))
    sizes = {"vertices": nV, "faces": nF, "face_corners": nC}
    for routine, src, dst, w in plans:
        for rep in range(2 if w is None else 3):
            # mode strings are accepted case-insensitively (weight.lower()): lower, UPPER and Capitalised spellings are all driven
            spell = ("lower", "UPPER", "Capitalised")[rep] if w is not None else "lower"
            ws = w if spell == "lower" else (w.upper() if spell == "UPPER" else w.capitalize()) if w is not None else None
            dim = rng.choice([1, 1, 3, 2])
            if dim == 1:
                c = rng.choice([1.0, -2.5, 1e-3, 7e4, 0.0, rng.uniform(-10, 10)])  # the constant 0 is a constant too
                cval = c
            else:
                cval = [rng.uniform(-5, 5) for _ in range(dim)]
                if rng.random() < 0.15:
                    cval = [0.0] * dim  # the null vector
                elif rng.random() < 0.15:
                    cval[rng.randrange(dim)] = 0.0
            in_storage = rng.choice(["dense", "sparse", "sparse_default"] if dim == 1 else ["dense", "sparse"])
            out_storage = rng.choice(["dense", "sparse"])
            in_on_mesh = rng.random() < 0.5
            out_on_mesh = rng.random() < 0.5
            ctx.cls("interp:in=%s,out=%s,dim=%d" % (in_storage, out_storage, dim))
            m = env.fresh()
            if kind == "surface" and w in ("area", "angle") and rng.random() < 0.4:
                # valid helper attributes already on the mesh: the routines reuse them by design
                ctx.cls("interp:helpers_cached")
                ctx.call("corner_angles", A.corner_angles, m, abort=False)
                ctx.call("face_area", A.face_area, m, abort=False)
            ok, ain = ctx.call("make_attribute", _make_attr, m, src, sizes[src], dim, in_storage, cval, in_on_mesh, "c07_in", abort=False)
            if not ok:
                continue
            ok, aout = ctx.call("make_attribute", _make_attr, m, dst, sizes[dst], dim, out_storage, None, out_on_mesh, "c07_out", abort=False)
            if not ok:
                continue
            f = getattr(A, routine)
            kw = {} if w is None else {"weight": ws}
            site = routine + ("" if w is None else ":" + w) + ("" if spell == "lower" else ":" + spell)
            if w is not None:
                ctx.cls("mode_spelling:" + spell)
            ok, res = call_mode(ctx, site, spell, f, m, ain, aout, **kw)
            if not ok:
                continue
            if w == "sum":
                # a sum, not an interpolation: not judged against the constant; but every accepted spelling must do the same thing
                if spell != "lower":
                    ok, aout2 = ctx.call("make_attribute", _make_attr, m, dst, sizes[dst], dim, out_storage, None, False, "c07_out2", abort=False)
                    if ok:
                        ok, res2 = ctx.call(routine + ":sum", f, m, ain, aout2, abort=False, weight="sum")
                        a1 = read_values(ctx, site, res, sizes[dst], dim) if ok else None
                        a2 = read_values(ctx, site, res2, sizes[dst], dim) if ok else None
                        if a1 is not None and a2 is not None:
                            compare(ctx, "identity", "interp_mode_spelling/" + site, a1, a2, 1e-12 * (1 + np.max(np.abs(a2))),
                                    what="weight=%r must behave like weight='sum'" % ws)
                continue
            arr = read_values(ctx, site, res, sizes[dst], dim)
            if arr is None:
                continue
            exp = np.full(sizes[dst], cval) if dim == 1 else np.tile(np.array(cval, float), (sizes[dst], 1))
            scale = abs(cval) if dim == 1 else float(np.max(np.abs(cval)))
            compare(ctx, "identity", "interp_constant/" + site, arr, exp, REL * 10 * scale,
                    what="a constant %s attribute must stay that constant" % src, constant=cval, input_storage=in_storage, output_storage=out_storage)
            if res is not aout:
                ctx.note("interp_returns_other_object:" + routine)
            # second run into the SAME output attribute with another constant: an output is an output
            if rep == 0:
                if dim == 1:
                    c2 = cval * 3.0 + 1.0
                else:
                    c2 = [x * -2.0 + 0.5 for x in cval]
                ok, ain2 = ctx.call("make_attribute", _make_attr, m, src, sizes[src], dim, "dense", c2, False, "c07_in2", abort=False)
                if not ok:
                    continue
                ok, res2 = ctx.call(site, f, m, ain2, aout, abort=False, **kw)
                if not ok:
                    continue
                arr2 = read_values(ctx, site, res2, sizes[dst], dim)
                if arr2 is None:
                    continue
                exp2 = np.full(sizes[dst], c2) if dim == 1 else np.tile(np.array(c2, float), (sizes[dst], 1))
                scale2 = max(scale, abs(c2) if dim == 1 else float(np.max(np.abs(c2))))
                ctx.obs("reuse", "interp_constant_into_used_output/" + site, sizes[dst])
                err2 = np.abs(arr2 - exp2)
                if not bool(np.all(err2 <= REL * 10 * scale2)):
                    ctx.violation("reuse", "interp_constant_into_used_output/" + site, "previous_content_of_output_attribute_leaks_into_result",
                                  "%s called a second time with the same output attribute does not return the new constant" % site,
                                  constant=c2, previous_constant=cval, got=arr2[:4], output_storage=out_storage)


def history_pass(ctx, env, R, funcs, rng, judge):
    """All functions on ONE mesh in random order with random options: the cached branches must give the same right values."""
    m = env.fresh()
    tri = getattr(R, "tri", True)
    todo = []
    for fn, spec in funcs.items():
        if spec[3] and not tri:
            continue
        todo += [(fn, ex) for ex in variants(fn, rng, "history")]
    todo = todo + rng.sample(todo, min(4, len(todo)))
    rng.shuffle(todo)
    order = []
    for fn, extras in todo:
        spec = funcs[fn]
        persistent = rng.random() < 0.7
        dense = rng.random() < 0.6
        # default names feed the library's caches; custom names must not
        name = None if rng.random() < 0.7 else "c07_" + fn_key(fn, extras).replace(":", "_")
        order.append(fn_key(fn, extras) + ("+p" if persistent else ""))
        arr = call_quantity(ctx, env, fn, spec, persistent, dense, name, extras, mesh=m, check_left=False)
        if arr is None:
            continue
        before = len(ctx.violations)
        judge(ctx, "history", fn, extras, arr, R, env)
        if len(ctx.violations) > before:
            ctx.violations[-1]["witness"]["call_order"] = order[-12:]
    if "face_normals" in funcs:
        judge_curvature_matrices(ctx, "history", curvature_matrices_of(ctx, env, mesh=m), R, env)
    # global sums on the same mesh, after the attribute they reuse ("area" / "volume") has been stored under its default name
    import mouette as M
    A = M.attributes

    def glob(name, exp, tol):
        ok, val = ctx.call(name, getattr(A, name), m, abort=False)
        if not ok:
            return
        try:
            err = abs(float(val) - exp)
        except Exception:
            err = float("inf")
        ctx.check(err <= tol, "history", name, "differs_when_the_cached_attribute_is_reused",
                  "%s(mesh) after a persistent %s is wrong" % (name, "cell_volume" if name == "mean_cell_volume" else "face_area"),
                  got=repr(val), expected=exp)
    if "cell_volume" in funcs:
        dn = rng.random() < 0.5  # the cached attribute in either storage
        ctx.cls("history:cached_volume_attribute_" + ("dense" if dn else "sparse"))
        ok, _ = ctx.call("cell_volume", A.cell_volume, m, dense=dn, abort=False)
        if ok:
            glob("mean_cell_volume", R.mean_cell_volume, REL * 10 * float(np.max(R.cdiam ** 3)))
    elif getattr(R, "all_area_regular", False):
        dn = rng.random() < 0.5  # the cached attribute in either storage
        ctx.cls("history:cached_area_attribute_" + ("dense" if dn else "sparse"))
        ok, _ = ctx.call("face_area", A.face_area, m, dense=dn, abort=False)
        if ok:
            glob("total_area", R.total_area, REL * 10 * float(np.sum(R.fdiam ** 2)))
            glob("mean_face_area", R.mean_face_area, REL * 10 * float(np.max(R.fdiam ** 2)))


def curvature_matrices_of(ctx, env, mesh=None):
    """curvature_matrices(mesh) -> (nE, 9) array or None (it has no options and returns a plain ndarray)."""
    import mouette as M
    m = env.fresh() if mesh is None else mesh
    before = snapshot(m)
    ok, val = ctx.call("curvature_matrices", M.attributes.curvature_matrices, m, abort=False)
    if not ok:
        return None
    new = snapshot(m) - before
    ctx.check(not new, "options", "attributes_left_behind", "curvature_matrices:leaves:%s" % ",".join(sorted("%s.%s" % e for e in new)),
              "curvature_matrices left attributes on the mesh", new=sorted(map(list, new)))
    try:
        arr = np.asarray(val, dtype=float)
    except Exception:
        arr = None
    if arr is None or arr.shape != (len(env.E), 3, 3):
        ctx.violation("call", "curvature_matrices", "malformed_values", "curvature_matrices did not return an (n_edges,3,3) array",
                      shape=list(getattr(arr, "shape", ())))
        return None
    return arr.reshape(len(env.E), 9)


def curvature_expected(R, env):
    exp = np.zeros((len(env.E), 9))
    ang = np.zeros(len(env.E))
    jd = np.zeros(len(env.E), bool)
    for i, (a, b) in enumerate(env.E):
        Mx, ang[i], jd[i] = R.edge_curvature_matrix(a, b)
        exp[i] = Mx.reshape(9)
    return exp, ang, jd


def judge_curvature_matrices(ctx, monitor, arr, R, env):
    rel = getattr(env, "rel", REL)
    if arr is None:
        return
    exp, ang, jd = curvature_expected(R, env)
    K = 1.0 / max(math.sin(min(R.tri_min_angle, math.pi / 2)), 0.05)
    ok = compare(ctx, monitor, "curvature_matrices", arr, exp, rel * 10 * K * (1 + ang), judged=jd,
                 what="(angle between the two face normals) * outer(unit edge, unit edge), zero on border edges")
    if not ok:
        border = np.array([ekey(e) in R.border_edges for e in env.E])
        bad = np.max(np.abs(arr - exp), axis=1) > rel * 10 * K * (1 + ang)
        if border.any() and not bad[~border & jd].any():
            ctx.violation(monitor, "curvature_matrices", "nonzero_on_border_edges", "curvature_matrices is not the zero matrix on border edges")


def curvature_meta(ctx, monitor, env, envB, R, base, idx, Q, tolm):
    a = base.get("curvature_matrices")
    if a is None or ("ref", "curvature_matrices") in _failed(ctx):
        return
    b = curvature_matrices_of(ctx, envB)
    if b is None or idx is None or len(idx) != len(a) or np.any(idx < 0):
        return
    _, ang, jd = curvature_expected(R, env)
    exp = np.array([(Q @ Mx.reshape(3, 3) @ Q.T).reshape(9) for Mx in a])
    compare(ctx, monitor, "curvature_matrices", b[idx], exp, tolm * 100 * (1 + ang), judged=jd, what="R M R^T under a rigid motion, unchanged by a scale")


def planar_transport_pass(ctx, desc, rng):
    """parallel_transport_curvature on planar triangle meshes: a planar mesh has no curvature.  Canonical flat connection in the plane z=0
    (every face), vertex connection (faces with three interior vertices), the latter also on a rigidly moved + scaled copy of the plane."""
    for attempt in range(20):
        k = rng.randrange(3)
        if k == 0:
            V, F, name = surfaces.grid(rng.randint(2, 5), rng.randint(2, 5), rng.choice(["tri", "tri_alt"]), rng)
            nr = np.random.default_rng(rng.randrange(2 ** 31))
            V = V + np.c_[nr.uniform(-0.08, 0.08, (len(V), 2)), np.zeros(len(V))]
        elif k == 1:
            V, F, name = surfaces.delaunay_disk(rng, rng.randint(8, 40), rng.choice(["uniform", "clustered"]), lift=False)
        else:
            V, F, name = surfaces.fan(rng.randint(4, 9), closed=True)
            V = V * np.array([1.0, 1.0, 0.0])
        V = np.asarray(V, float)
        if rng.random() < 0.4:
            F = surfaces.flip(F)
        V, F, _ = surfaces.renumber(V, F, rng)
        F = surfaces.rotate_faces(F, rng)
        a = surfaces.topo.analyse(len(V), F)
        if not (a["manifold"] and a["oriented"] and a["border_ok"] and a["unused_vertices"] == 0):
            continue
        try:
            R = geomq.SurfaceRef(V, F)
        except (ZeroDivisionError, FloatingPointError, ValueError):
            continue
        if R.tri and _surface_gate(R, True):
            break
    else:
        ctx.note("no_planar_input_for_transport_pass")
        return
    ctx.cls("planar_transport:" + name.split("_")[0])
    spec = SURF_FUNCS["parallel_transport_curvature"]
    env = Env(ctx, "surface", V, F, desc["vrows"], desc["irows"])
    if not env.probe():
        return
    env.planar = True
    for pt in ("flat", "scv"):
        for persistent in (True, False):
            for dense in (True, False):
                ex = {"_pt": pt}
                arr = call_quantity(ctx, env, "parallel_transport_curvature", spec, persistent, dense, rng.choice([None, "c07_ptc"]), ex)
                judge_surface(ctx, "ref", "parallel_transport_curvature", ex, arr, R, env)
    Q = surfaces.random_rotation(rng)
    sc = 10 ** rng.uniform(-2, 2)
    VB = (V @ Q.T) * sc + np.array([rng.uniform(-2, 2) for _ in range(3)]) * sc
    if rng.random() < 0.5:
        # the moved plane far from the origin: the transport is built from corner angles (edge vectors), so still no curvature
        VB, _ = far_coordinates(VB, rng, rng.choice([3, 4, 5, 6]), False)
        ctx.cls("planar_transport:far_copy")
    try:
        RB = geomq.SurfaceRef(VB, F)
    except (ZeroDivisionError, FloatingPointError, ValueError):
        return
    envB = Env(ctx, "surface", VB, F, desc["vrows"], desc["irows"])
    if envB.probe():
        envB.planar = True
        ex = {"_pt": "scv"}
        arr = call_quantity(ctx, envB, "parallel_transport_curvature", spec, rng.random() < 0.5, rng.random() < 0.5, None, ex, check_left=False)
        judge_surface(ctx, "rigid", "parallel_transport_curvature", ex, arr, RB, envB)


FAR_REL = 2e-13
FAR_DIRS = [(1, 0, 0), (0, 1, 0), (0, 0, 1), (1, 1, 0), (1, -1, 1), (-1, 0.5, 0.25), (0.5, -1, 1), (-1, -1, -1)]


def far_coordinates(V, rng, e10, rotate):
    """The mesh re-centred, optionally rotated, then translated by an exactly representable offset (power of two times a vector of
    dyadic components) of magnitude ~10^e10 mesh sizes.  The ROUNDED result is the input: the reference is computed from it."""
    Vc = V - V.mean(axis=0)
    if rotate:
        Vc = Vc @ surfaces.random_rotation(rng).T
    size = float(np.max(np.ptp(Vc, axis=0)))
    mag = 2.0 ** math.ceil(math.log2(size * 10.0 ** e10))
    T = mag * np.array(rng.choice(FAR_DIRS), dtype=float)
    return Vc + T, mag / size


def far_env(ctx, kind, VF, elems, desc, R):
    env = Env(ctx, kind, VF, elems, desc["vrows"], desc["irows"])
    if not env.probe():
        return None
    env.rel = FAR_REL
    env.pos_tol = 16 * EPS * R.maxabs + FAR_REL * R.lmax
    return env


def far_pass_surface(ctx, desc, V, F, rng):
    """Far from the origin: every translation-invariant quantity must be as accurate as next to the origin, because differences of
    stored coordinates are exact (Sterbenz) or correctly rounded: error <= C u cond(quantity), independent of |offset| / size.
    Positions (midpoints, barycentres, circumcentres) are judged to 16 eps max|coordinate|."""
    import mouette as M
    for rotate in (False, True):
        e10 = desc.get("far_exp", 5) if not rotate else 3 + (desc.get("far_exp", 5) + 2) % 5
        VF, ratio = far_coordinates(V, rng, e10, rotate)
        F2 = F
        if rotate:
            VF, F2, _ = surfaces.renumber(VF, F, rng)
            F2 = surfaces.rotate_faces(F2, rng)
        try:
            R = geomq.SurfaceRef(VF, F2)
        except (ZeroDivisionError, FloatingPointError, ValueError):
            ctx.note("far_copy_not_admissible")
            continue
        if not _surface_gate(R, R.tri, far=True):
            ctx.note("far_copy_not_admissible")
            continue
        env = far_env(ctx, "surface", VF, F2, desc, R)
        if env is None:
            continue
        env.custom_normals = -R.normal
        ctx.cls("far:offset/size=1e%d,%s" % (e10, "rotated" if rotate else "translated"))
        for fn, spec in SURF_FUNCS.items():
            if (spec[3] and not R.tri) or fn == "parallel_transport_curvature":
                continue
            for extras in variants(fn, rng, "meta"):
                arr = call_quantity(ctx, env, fn, spec, rng.random() < 0.5, rng.random() < 0.5, None, extras, check_left=False)
                judge_surface(ctx, "far", fn, extras, arr, R, env)
        judge_curvature_matrices(ctx, "far", curvature_matrices_of(ctx, env), R, env)
        A = M.attributes
        items = [("mean_edge_length", R.mean_edge_length, FAR_REL * 10 * R.lmax)]
        if R.all_area_regular:
            items += [("total_area", R.total_area, FAR_REL * 10 * float(np.sum(R.fdiam ** 2))),
                      ("mean_face_area", R.mean_face_area, FAR_REL * 10 * float(np.max(R.fdiam ** 2)))]
        far_globals(ctx, env, items)


def far_globals(ctx, env, items):
    import mouette as M
    for name, exp, tol in items:
        ok, val = ctx.call(name, getattr(M.attributes, name), env.fresh(), abort=False)
        if not ok:
            continue
        try:
            err = abs(float(val) - exp)
        except Exception:
            err = float("inf")
        _margin(ctx, name, np.array([err]), np.array([tol]))
        ctx.check(err <= tol, "far", name, "differs_far_from_the_origin", "%s of a mesh far from the origin is off by %.3g (tolerance %.3g)" % (name, err, tol),
                  got=repr(val), expected=exp)


def far_pass_volume(ctx, desc, V, C, rng):
    for rotate in (False, True):
        e10 = desc.get("far_exp", 5) if not rotate else 3 + (desc.get("far_exp", 5) + 2) % 5
        VF, ratio = far_coordinates(V, rng, e10, rotate)
        try:
            R = geomq.VolumeRef(VF, C)
        except (ZeroDivisionError, FloatingPointError, ValueError):
            continue
        if R.lmin <= 0 or float(np.min(R.volume / R.cdiam ** 3)) < 1e-8:
            ctx.note("far_copy_not_admissible")
            continue
        env = far_env(ctx, "volume", VF, C, desc, R)
        if env is None:
            continue
        ctx.cls("far:offset/size=1e%d,%s" % (e10, "rotated" if rotate else "translated"))
        for fn, spec in VOL_FUNCS.items():
            arr = call_quantity(ctx, env, fn, spec, rng.random() < 0.5, rng.random() < 0.5, None, {}, check_left=False)
            judge_volume(ctx, "far", fn, {}, arr, R, env)
        far_globals(ctx, env, [("mean_edge_length", R.mean_edge_length, FAR_REL * 10 * R.lmax),
                               ("mean_cell_volume", R.mean_cell_volume, FAR_REL * 10 * float(np.max(R.cdiam ** 3)))])


def needle_pass(ctx, desc, rng):
    """Valid needle / cap / sliver triangles with corner angles 1e-3 ... 1e-9 rad (outside the 3-degree gate of the other passes, so judged
    only on what stays well conditioned): corner_angles against the exact-rational reference, per-triangle angle sum, sum of angle defects,
    cotangent (fresh and from cached angles).  Bounds (u = 2^-53, eps = 2u): edge vectors are exact differences; each component of u x w and
    the dot product carry an absolute error <= 3u|u||w|, so atan2(|u x w|, u.w) is off by <= 6u + 2u*angle ABSOLUTE (relative error u/angle
    for a tiny angle: the cross product of nearly parallel vectors cancels) -> tolerance 8 eps + 8 eps*angle; three angles -> pi within 32 eps;
    cot = cos/sin or -tan(angle + pi/2): error <= (1+cot^2) * (6u + u*pi/2) -> tolerance 16 eps (1+cot^2)."""
    import mouette as M
    A = M.attributes
    V, F, name, th = c07_planar.needle_surface(rng)
    ctx.cls("needle:" + name.split("~")[0].rstrip("0123456789"))
    ctx.cls("needle_angle:1e%d" % int(math.floor(math.log10(th))))
    env = Env(ctx, "surface", V, F, desc["vrows"], desc["irows"])
    if not env.probe():
        return
    V = env.V
    ang = {}
    cot = {}
    for fi, f in enumerate(F):
        for k in range(3):
            ang[(fi, f[k])], cot[(fi, f[k])] = geomq.exact_corner(V[f[k - 1]], V[f[k]], V[f[(k + 1) % 3]])
    if min(ang.values()) <= 0 or not all(np.isfinite(list(cot.values()))):
        ctx.note("needle_input_degenerate_after_rounding")
        return
    exp_a = np.array([ang[(f, v)] for v, f in env.CN])
    exp_c = np.array([cot[(f, v)] for v, f in env.CN])
    tol_a = 8 * EPS + 8 * EPS * exp_a
    tol_c = 16 * EPS * (1 + exp_c ** 2)
    spec_a, spec_c = SURF_FUNCS["corner_angles"], SURF_FUNCS["cotangent"]
    first = None
    for persistent in (True, False):
        for dense in (True, False):
            arr = call_quantity(ctx, env, "corner_angles", spec_a, persistent, dense, None, {}, check_left=False)
            if arr is None:
                continue
            first = arr if first is None else first
            ctx.obs("needle", "corner_angles", len(exp_a))
            err = np.abs(arr - exp_a)
            _margin_named(ctx, "needle", "corner_angles", err, tol_a)
            if not bool(np.all(err <= tol_a)):
                i = int(np.argmax(err / tol_a))
                small = exp_a[i] < 1e-2
                ctx.violation("needle", "corner_angles", "small_angle_inaccurate" if small else "values_differ",
                              "corner angle %.6e rad returned as %.6e (error %.2e, tolerance %.2e)" % (exp_a[i], arr[i], err[i], tol_a[i]),
                              expected=exp_a[i], got=arr[i], nominal_needle_angle=th, face=F[env.CN[i][1]], points=V[F[env.CN[i][1]]])
            arr_c = call_quantity(ctx, env, "cotangent", spec_c, persistent, dense, None, {}, check_left=False)
            if arr_c is not None:
                _needle_cot(ctx, "cotangent", arr_c, exp_c, tol_c)
    if first is not None:
        sums = np.zeros(len(F))
        for c, (v, f) in enumerate(env.CN):
            sums[f] += first[c]
        ctx.obs("needle", "triangle_angle_sum", len(F))
        e = np.abs(sums - math.pi)
        _margin_named(ctx, "needle", "triangle_angle_sum", e, np.full(len(F), 32 * EPS))
        if not bool(np.all(e <= 32 * EPS)):
            ctx.violation("needle", "triangle_angle_sum", "angles_of_a_needle_triangle_do_not_sum_to_pi",
                          "corner angles of a needle triangle sum to pi %+.3e" % float(np.max(e)), nominal_needle_angle=th)
    # cot from the cached angles (the library's other branch) and the angle defects, on one mesh
    m = env.fresh()
    ok, _ = ctx.call("corner_angles", A.corner_angles, m, abort=False)
    if ok:
        arr_c = call_quantity(ctx, env, "cotangent", spec_c, rng.random() < 0.5, True, None, {}, mesh=m, check_left=False)
        if arr_c is not None:
            _needle_cot(ctx, "cotangent_from_cached_angles", arr_c, exp_c, 2 * tol_c)   # + rounding of angle + pi/2 and of tan
    Rn = geomq.topo_counts(len(V), F)
    d = call_quantity(ctx, env, "angle_defects", SURF_FUNCS["angle_defects"], rng.random() < 0.5, rng.random() < 0.5, None, {}, check_left=False)
    if d is not None:
        tot = float(np.sum(d))
        tol = 16 * EPS * (len(exp_a) + len(V))
        ctx.obs("needle", "defect_sum_2pi_chi")
        _margin_named(ctx, "needle", "defect_sum_2pi_chi", np.array([abs(tot - 2 * math.pi * Rn["chi"])]), np.array([tol]))
        if abs(tot - 2 * math.pi * Rn["chi"]) > tol:
            ctx.violation("needle", "defect_sum_2pi_chi", "sum_of_angle_defects_is_not_2pi_chi",
                          "sum of angle defects %.15g != 2 pi chi = %.15g on a needle mesh" % (tot, 2 * math.pi * Rn["chi"]), chi=Rn["chi"],
                          nominal_needle_angle=th)


def _needle_cot(ctx, op, arr, exp, tol):
    ctx.obs("needle", op, len(exp))
    with np.errstate(invalid="ignore"):
        err = np.abs(arr - exp)
    _margin_named(ctx, "needle", op, err, tol)
    if not bool(np.all(err <= tol)):
        i = int(np.argmax(np.nan_to_num(err / tol, nan=np.inf)))
        ctx.violation("needle", op, "cotangent_of_small_angle_inaccurate" if abs(exp[i]) > 100 else "values_differ",
                      "cotangent %.9e returned as %.9e (error %.2e, tolerance %.2e)" % (exp[i], arr[i], err[i], tol[i]), expected=exp[i], got=arr[i])


def _margin_named(ctx, monitor, op, err, tol):
    with np.errstate(invalid="ignore", divide="ignore"):
        r = err / tol
    m = float(np.nanmax(r)) if len(r) else 0.0
    b = "<=1e-3" if m <= 1e-3 else "<=1e-2" if m <= 1e-2 else "<=1e-1" if m <= 1e-1 else "<=0.5" if m <= 0.5 else "<=1" if m <= 1 else ">1"
    ctx.note("%s_error_over_tolerance:%s:%s" % (monitor, op, b))


def custom_normals_after_cached_normals(ctx, env, R, rng):
    """History: the SAME mesh object already carries the persistent face attribute "normals" (left by a default face_normals(mesh) or by
    a persistent vertex_normals(mesh)); vertex_normals(custom_fnormals=...) must still interpolate the caller's field, for every weighting."""
    import mouette as M
    A = M.attributes
    spec = SURF_FUNCS["vertex_normals"]
    for w in ("uniform", "area", "angle"):
        m = env.fresh()
        first = rng.choice(["face_normals", "vertex_normals", "vertex_normals:" + w])
        ctx.cls("custom_fnormals_after:" + first.split(":")[0])
        if first == "face_normals":
            ok, _ = ctx.call("face_normals", A.face_normals, m, abort=False)
        elif first == "vertex_normals":
            ok, _ = ctx.call("vertex_normals", A.vertex_normals, m, abort=False)
        else:
            ok, _ = ctx.call("vertex_normals", A.vertex_normals, m, abort=False, interpolation=w, persistent=True)
        if not ok:
            continue
        ok, has = ctx.call("has_attribute", lambda: bool(m.faces.has_attribute("normals")), abort=False)
        if not (ok and has):
            ctx.note("cached_face_normals_absent_after_persistent_call")
        extras = {"interpolation": w, "_custom": True}
        name = rng.choice([None, "c07_custom_vn"])
        arr = call_quantity(ctx, env, "vertex_normals", spec, rng.random() < 0.5, rng.random() < 0.5, name, extras, mesh=m, check_left=False)
        if arr is not None:
            judge_surface(ctx, "history", "vertex_normals", extras, arr, R, env)


def metamorphic(ctx, monitor, env, envB, funcs, R, base, rng, maps, Q, t, s, tolm, judgeable):
    """Same quantities on the transformed copy; compares with the values of the original mapped through `maps`."""
    tri = getattr(R, "tri", True)
    for fn, spec in funcs.items():
        if spec[3] and not tri:
            continue
        for extras in variants(fn, rng, "meta"):
            key = fn_key(fn, extras)
            a = base.get(key)
            if a is None:
                continue
            if ("ref", key) in _failed(ctx):
                # the values of the original are already reported as wrong: a relation between wrong values says nothing new
                ctx.note("metamorphic_not_judged(original_values_already_flagged):" + key)
                continue
            container = spec[0]
            b = call_quantity(ctx, envB, fn, spec, rng.random() < 0.5, rng.random() < 0.5, None, extras, check_left=False)
            if b is None:
                continue
            jd = judgeable(fn, extras)
            idx = maps.get(container)
            if idx is None or len(idx) != len(a) or np.any(idx < 0):
                ctx.note("metamorphic_map_missing:" + container)
                continue
            if fn == "face_circumcenter":
                # the circumcentre is fixed by two facts (equidistant, in the plane); holding on the original (ref monitor) and on
                # the copy they imply equivariance, and a failure names which fact broke on the moved / scaled copy
                if jd is None or bool(np.all(jd)):
                    Kc = 1.0 / max(math.sin(min(R.tri_min_angle, math.pi / 2)), 0.05)
                    judge_circumcentres(ctx, monitor, key, b, [envB.V[f] for f in envB.FL], float(np.max(np.abs(envB.V))), Kc)
                continue
            bb = b[idx]          # bb[i] = value on the copy of the element that is element i of the original
            kind = KIND[fn]
            if kind == "unit":
                exp = a @ Q.T
                tol = tolm * 10
                what = "unit vectors rotate with the mesh"
            elif kind == "point":
                exp = s * (a @ Q.T) + t
                tol = tolm * (float(np.max(np.abs(envB.V))) + s * R.lmax * 50)
                what = "points move with the mesh"
            else:
                p = kind[1]
                exp = (s ** p) * a
                if fn in ("cotangent", "cotan_weights"):
                    tol = tolm * (1 + exp ** 2) * 20
                elif fn == "parallel_transport_curvature":
                    # an angle in (-pi, pi]: compared on the circle
                    bb = np.angle(np.exp(1j * (bb - exp)))
                    exp = np.zeros(len(bb))
                    tol = tolm * 100
                elif fn == "triangle_aspect_ratio":
                    tol = tolm * (1 + np.abs(exp)) * 100
                elif p == 0:
                    tol = tolm * (1 + np.abs(exp)) * 10 if fn not in EXACT else 0.0
                else:
                    tol = tolm * np.abs(exp) * 10
                what = "scalar times scale^%d" % p
            compare(ctx, monitor, key, bb, exp, tol, judged=jd, what=what, scale=s)


def transformed_globals(ctx, monitor, env, envB, R, Q, t, s, tolm, kind):
    import mouette as M
    A = M.attributes
    items = [("mean_edge_length", 1), ("barycenter", "point")]
    if kind == "surface":
        items += [("euler_characteristic", 0)]
        if R.all_area_regular:
            items += [("total_area", 2), ("mean_face_area", 2)]
    else:
        items += [("mean_cell_volume", 3), ("mean_face_area", 2)]
    for name, p in items:
        f = getattr(A, name)
        ok1, a = ctx.call(name, f, env.fresh(), abort=False)
        ok2, b = ctx.call(name, f, envB.fresh(), abort=False)
        if not (ok1 and ok2):
            continue
        try:
            a = np.asarray(a, float).reshape(-1)
            b = np.asarray(b, float).reshape(-1)
        except Exception:
            continue
        if p == "point":
            if a.shape != (3,) or b.shape != (3,):
                continue
            exp = s * (Q @ a) + t
            tol = tolm * (float(np.max(np.abs(envB.V))) + s * R.lmax * 50)
        else:
            exp = (s ** p) * a
            tol = tolm * np.abs(exp) * 10 if p else 0.0
        err = float(np.max(np.abs(b - exp))) if b.shape == exp.shape and np.all(np.isfinite(b)) else float("inf")
        ctx.check(err <= float(np.max(tol)) if np.ndim(tol) else err <= tol, monitor, name, "global_value_not_equivariant",
                  "%s on the transformed copy is not the transformed value" % name, original=a, copy=b, expected=exp, scale=s)


def meta_tolerance(R, maxabsB_over_s):
    sin2 = min(math.sin(min(R.tri_min_angle, math.pi / 2)) ** 2, 0.05 ** 2 if not getattr(R, "tri", True) else 1.0)
    K = 10.0 / sin2
    epsin = EPS * (R.maxabs + maxabsB_over_s) / R.lmin
    return REL + 100.0 * epsin * K


# ----------------------------------------------------------------------------------------------- surface case
def run_surface(desc, ctx):
    z, R = draw_surface(desc)
    if z is None:
        ctx.note("no_admissible_input_for_seed")
        return
    V, F = np.asarray(z["V"], float), z["F"]
    rng = random.Random(desc["seed"] ^ 0xC07)
    a = z["topo"]
    ar = sorted({len(f) for f in F})
    ctx.cls("kind:" + desc["gen"])
    ctx.cls("class:" + re.sub(r"\d+(_cup|_open)?$", "", z["cls"].split("~")[0].split("+")[0]))
    ctx.cls("arity:" + ",".join(map(str, ar)))
    ctx.cls("border:" + ("closed" if not R.border_edges else "bordered"))
    ctx.cls("chi:%d" % R.chi)
    ctx.cls("faces_judged:" + ("all" if R.all_area_judged else ("some" if any(R.area_regular) else "none")))
    if any(R.face_nc):
        ctx.cls("nonconvex_faces:" + ("star_from_vertex_mean" if not any(R.area_hard) else
                                      ("not_star_or_quad" if not any(a and b for a, b in zip(R.face_nc, R.area_regular)) else "both")))
    ctx.cls("min_angle_deg:%s" % ("3-10" if R.tri_min_angle < math.radians(10) else ("10-30" if R.tri_min_angle < math.radians(30) else ">=30")))
    sv = np.linalg.svd(V - V.mean(axis=0), compute_uv=False)
    planar = bool(sv[-1] <= 1e-9 * max(sv[0], 1e-300))
    if len(F) >= 10 and (not planar or R.border_edges):
        ctx.nontrivial(stable_hash([np.round(V, 9).tolist(), F]))
    env = Env(ctx, "surface", V, F, desc["vrows"], desc["irows"])
    if not env.probe():
        return
    ctx.cls("rows:%s/%s" % (desc["vrows"], desc["irows"]))

    env.custom_normals = -R.normal
    env.planar = planar
    base = option_sweep(ctx, env, R, SURF_FUNCS, rng, judge_surface)
    cm = curvature_matrices_of(ctx, env)
    if cm is not None:
        base["curvature_matrices"] = cm
        judge_curvature_matrices(ctx, "ref", cm, R, env)
    identities_surface(ctx, env, R, base)
    globals_check(ctx, env, R, rng, "surface")
    interpolation_constants(ctx, env, rng, "surface")
    history_pass(ctx, env, R, SURF_FUNCS, rng, judge_surface)
    custom_normals_after_cached_normals(ctx, env, R, rng)
    if desc.get("planar_pt"):
        planar_transport_pass(ctx, desc, rng)
    far_pass_surface(ctx, desc, V, F, rng)
    if desc["gen"] == "tri":
        for _ in range(2):
            needle_pass(ctx, desc, rng)
    if desc.get("source") == "nonconvex":
        face_rotations(ctx, env, R, rng, desc)

    # vertex normals / face quantities that are not judged against the reference are not judged under motion either
    vn_ok = {}
    for w in ("uniform", "area", "angle"):
        vn_ok[w] = np.array([R.vertex_normal(v, w)[1] >= 0.05 and R.vertex_normal(v, w)[2] for v in range(R.nV)])

    def judgeable(fn, extras):
        if fn == "face_area":
            return np.array(R.area_regular)
        if fn == "face_normals":
            return np.array(R.face_ok)
        if fn == "vertex_normals":
            return vn_ok[extras["interpolation"]]
        if fn == "parallel_transport_curvature":
            return ptc_ok
        return None

    # parallel transport on the vertex connection: at a border (feature) vertex the connection rounds (angle sum x corner_order / 2 pi) to an
    # integer, a discrete decision.  Where the angle sum sits on a rounding tie (regular strips: 3 pi / 4, ...) the last bit decides, and a rigid
    # motion legitimately flips it: faces touching such a vertex are not compared between the original and its moved copy
    tie = set()
    for v in R.border_vertices:
        tot = sum(a_ for (fi_, v_), a_ in R.angle.items() if v_ == v)
        x = tot * 4 / (2 * math.pi)
        if abs(x - math.floor(x) - 0.5) < 1e-6 or abs(tot - 2 * math.pi / 4) < 1e-6:
            tie.add(v)
    ptc_ok = np.array([not any(v in tie for v in f) for f in R.F]) if tie else None
    if tie:
        ctx.note("parallel_transport_not_compared_next_to_border_vertices_on_a_rounding_tie")

    # ---- rigid motion + renumbering + face order + face rotation
    V2, F2, perm = surfaces.renumber(V, F, rng)
    forder = list(range(len(F2)))
    rng.shuffle(forder)
    F2 = surfaces.rotate_faces([F2[i] for i in forder], rng)
    Q = surfaces.random_rotation(rng)
    t = np.array([rng.uniform(-2, 2) for _ in range(3)]) * (R.lmax * rng.choice([1, 5, 30]))
    VB = V2 @ Q.T + t
    envB = Env(ctx, "surface", VB, F2, desc["vrows"], desc["irows"])
    if envB.probe():
        maps = surface_maps(env, envB, perm, forder)
        tolm = meta_tolerance(R, float(np.max(np.abs(VB))))
        ctx.cls("meta_tol:%s" % ("<=1e-8" if tolm <= 1e-8 else ("<=1e-6" if tolm <= 1e-6 else ">1e-6")))
        if tolm <= 1e-5:
            envB.planar = planar
            metamorphic(ctx, "rigid", env, envB, SURF_FUNCS, R, base, rng, maps, Q, t, 1.0, tolm, judgeable)
            curvature_meta(ctx, "rigid", env, envB, R, base, maps.get("edges"), Q, tolm)
            transformed_globals(ctx, "rigid", env, envB, R, Q, t, 1.0, tolm, "surface")
        else:
            ctx.note("rigid_pass_skipped(ill_scaled_input)")

    # ---- uniform scale
    if desc.get("extreme_scale"):
        s = rng.choice([1e-7, 3e-6, 2e5, 1e6])
        ctx.cls("scale:extreme")
    else:
        s = 10 ** rng.uniform(-3, 3)
        ctx.cls("scale:moderate")
    VS = V * s
    envS = Env(ctx, "surface", VS, F, desc["vrows"], desc["irows"])
    if envS.probe():
        ident = {"vertices": np.arange(R.nV), "faces": np.arange(R.nF), "edges": edge_map(env.E, envS.E, None),
                 "face_corners": np.arange(len(env.CN)) if env.CN == envS.CN else corner_map(env.CN, envS.CN, None, None)}
        tolm = meta_tolerance(R, R.maxabs)
        if tolm <= 1e-5:
            envS.planar = planar
            metamorphic(ctx, "scale", env, envS, SURF_FUNCS, R, base, rng, ident, np.eye(3), np.zeros(3), s, tolm, judgeable)
            curvature_meta(ctx, "scale", env, envS, R, base, ident.get("edges"), np.eye(3), tolm)
            transformed_globals(ctx, "scale", env, envS, R, np.eye(3), np.zeros(3), s, tolm, "surface")

    if desc.get("sample") and base.get("corner_angles") is not None and env.CN is not None:
        f0 = F[0]
        cs = [c for c, (v, f) in enumerate(env.CN) if f == 0]
        lib = {"corner_angles_of_face_0": [round(float(base["corner_angles"][c]), 9) for c in cs]}
        ref = {"corner_angles_of_face_0": [round(R.angle[(0, env.CN[c][0])], 9) for c in cs]}
        for k, rv in (("face_area", R.area), ("face_normals", R.normal), ("face_barycenter", R.fbary)):
            if k in base:
                lib[k + "[0]"] = np.round(base[k][0], 9).tolist()
                ref[k + "[0]"] = np.round(rv[0], 9).tolist()
        ctx.sample({"class": z["cls"], "n_vertices": len(V), "n_faces": len(F), "chi": R.chi, "border_edges": len(R.border_edges),
                    "face_0": f0, "face_0_points": np.round(V[f0], 6).tolist(), "library": lib, "reference": ref,
                    "also_compared": "%d quantity/option keys x 4 (persistent,dense) combos, identities, 6 interpolation routines, "
                                     "shared-mesh pass, rigid copy, scale %.3g" % (len(base), s)})


def face_rotations(ctx, env, R, rng, desc):
    """Every cyclic vertex order of (up to two) non-convex faces: a renumbering of the face that leaves the surface unchanged, so
    face_area / face_normals / total_area / mean_face_area must not move."""
    import mouette as M
    A = M.attributes
    targets = [fi for fi in range(R.nF) if R.face_nc[fi]][:2]
    for fi in targets:
        n = len(R.F[fi])
        for r in range(1, n):
            F2 = [list(f) for f in R.F]
            F2[fi] = R.F[fi][r:] + R.F[fi][:r]
            envR = Env(ctx, "surface", R.V, F2, desc["vrows"], desc["irows"])
            if not envR.probe():
                continue
            for fn in ("face_area", "face_normals"):
                arr = call_quantity(ctx, envR, fn, SURF_FUNCS[fn], rng.random() < 0.5, rng.random() < 0.5, None, {}, check_left=False)
                judge_surface(ctx, "ref", fn, {}, arr, R, envR)
            if R.all_area_regular:
                for name, exp, tol in (("total_area", R.total_area, REL * 10 * float(np.sum(R.fdiam ** 2))),
                                       ("mean_face_area", R.mean_face_area, REL * 10 * float(np.max(R.fdiam ** 2)))):
                    ok, val = ctx.call(name, getattr(A, name), envR.fresh(), abort=False)
                    if not ok:
                        continue
                    try:
                        err = abs(float(val) - exp)
                    except Exception:
                        err = float("inf")
                    ctx.check(err <= tol, "ref", name, "differs_from_sum_of_face_areas" if name == "total_area" else "differs_from_mean_of_all_face_areas",
                              "%s(mesh) changes with the cyclic vertex order of a face" % name, got=repr(val), expected=exp, rotation=r)


def edge_map(EA, EB, perm):
    """index in EB of the image of each edge of EA."""
    pos = {ekey(e): i for i, e in enumerate(EB)}
    out = np.full(len(EA), -1, dtype=int)
    for i, (a, b) in enumerate(EA):
        if perm is not None:
            a, b = perm[a], perm[b]
        out[i] = pos.get(ekey((a, b)), -1)
    return out


def corner_map(CA, CB, perm, finv):
    pos = {(v, f): i for i, (v, f) in enumerate(CB)}
    out = np.full(len(CA), -1, dtype=int)
    for i, (v, f) in enumerate(CA):
        v2 = perm[v] if perm is not None else v
        f2 = finv[f] if finv is not None else f
        out[i] = pos.get((v2, f2), -1)
    return out


def surface_maps(env, envB, perm, forder):
    finv = {f: j for j, f in enumerate(forder)}
    return {"vertices": np.array(perm, dtype=int),
            "faces": np.array([finv[f] for f in range(len(forder))], dtype=int),
            "edges": edge_map(env.E, envB.E, perm),
            "face_corners": corner_map(env.CN, envB.CN, perm, finv)}


# ----------------------------------------------------------------------------------------------- volume case
def run_volume(desc, ctx):
    z, R = draw_volume(desc)
    if z is None:
        ctx.note("no_admissible_input_for_seed")
        return
    V, C = np.asarray(z["V"], float), z["C"]
    rng = random.Random(desc["seed"] ^ 0xC07)
    ctx.cls("kind:tet")
    ctx.cls("class:" + z["cls"].split("~")[0])
    ctx.cls("jitter:%g" % desc["jitter"])
    ctx.cls("min_face_angle_deg:%s" % ("<3" if R.tri_min_angle < math.radians(3) else ">=3"))
    env = Env(ctx, "volume", V, C, desc["vrows"], desc["irows"])
    if not env.probe():
        return
    if len(env.FL) >= 10:
        ctx.nontrivial(stable_hash([np.round(V, 9).tolist(), C]))
    fkeys = {tuple(sorted(f)) for f in env.FL}
    if fkeys != set(R.faces) or len(env.FL) != len(R.faces) or {ekey(e) for e in env.E} != set(R.edges):
        ctx.note("volume_faces_or_edges_not_the_cell_faces_edges")   # C02/C03's business; the per-element checks below still apply
    base = option_sweep(ctx, env, R, VOL_FUNCS, rng, judge_volume)
    globals_check(ctx, env, R, rng, "volume")
    interpolation_constants(ctx, env, rng, "volume")
    history_pass(ctx, env, R, VOL_FUNCS, rng, judge_volume)
    far_pass_volume(ctx, desc, V, C, rng)

    def judgeable(fn, extras):
        if fn == "face_circumcenter" and R.tri_min_angle < math.radians(3.0):
            return np.zeros(len(env.FL), bool)
        return None

    # rigid + renumber + cell order + in-cell order
    V2, C2 = volumes.renumber(V, C, rng)
    # volumes.renumber does not return the permutation: recover it from the coordinates (vertices are distinct)
    lookup = {tuple(p): i for i, p in enumerate(V2)}
    perm = [lookup.get(tuple(p), -1) for p in V]
    corder = list(range(len(C2)))
    rng.shuffle(corder)
    C2 = volumes.permute_cells([C2[i] for i in corder], rng)
    Q = surfaces.random_rotation(rng)
    t = np.array([rng.uniform(-2, 2) for _ in range(3)]) * (R.lmax * rng.choice([1, 5, 30]))
    VB = V2 @ Q.T + t
    if min(perm) >= 0:
        envB = Env(ctx, "volume", VB, C2, desc["vrows"], desc["irows"])
        if envB.probe():
            cinv = {c: j for j, c in enumerate(corder)}
            posF = {tuple(sorted(f)): i for i, f in enumerate(envB.FL)}
            maps = {"vertices": np.array(perm, dtype=int),
                    "cells": np.array([cinv[c] for c in range(len(C))], dtype=int),
                    "edges": edge_map(env.E, envB.E, perm),
                    "faces": np.array([posF.get(tuple(sorted(perm[v] for v in f)), -1) for f in env.FL], dtype=int)}
            tolm = meta_tolerance(R, float(np.max(np.abs(VB))))
            if tolm <= 1e-5:
                metamorphic(ctx, "rigid", env, envB, VOL_FUNCS, R, base, rng, maps, Q, t, 1.0, tolm, judgeable)
                transformed_globals(ctx, "rigid", env, envB, R, Q, t, 1.0, tolm, "volume")
    s = rng.choice([1e-6, 1e5]) if desc.get("extreme_scale") else 10 ** rng.uniform(-3, 3)
    envS = Env(ctx, "volume", V * s, C, desc["vrows"], desc["irows"])
    if envS.probe():
        posF = {tuple(sorted(f)): i for i, f in enumerate(envS.FL)}
        ident = {"vertices": np.arange(R.nV), "cells": np.arange(R.nC), "edges": edge_map(env.E, envS.E, None),
                 "faces": np.array([posF.get(tuple(sorted(f)), -1) for f in env.FL], dtype=int)}
        tolm = meta_tolerance(R, R.maxabs)
        if tolm <= 1e-5:
            metamorphic(ctx, "scale", env, envS, VOL_FUNCS, R, base, rng, ident, np.eye(3), np.zeros(3), s, tolm, judgeable)
            transformed_globals(ctx, "scale", env, envS, R, np.eye(3), np.zeros(3), s, tolm, "volume")
    if desc.get("sample") and "cell_volume" in base:
        ctx.sample({"class": z["cls"], "n_vertices": len(V), "n_cells": len(C), "cell_0": C[0], "cell_0_points": np.round(V[C[0]], 6).tolist(),
                    "library": {"cell_volume[0]": float(base["cell_volume"][0]),
                                "cell_barycenter[0]": np.round(base.get("cell_barycenter", np.zeros((1, 3)))[0], 9).tolist()},
                    "reference": {"cell_volume[0]": float(R.volume[0]), "cell_barycenter[0]": np.round(R.cbary[0], 9).tolist()},
                    "also_compared": "8 quantity functions x 4 (persistent,dense) combos, global means, shared-mesh pass, rigid copy, scale %.3g" % s})


def run_case(desc, ctx):
    # one record per distinct mechanism and case (the same defect is met by every option combination), so that a frequent
    # defect cannot use up the per-case budget and mask a rarer one
    seen = set()
    record = ctx.violation

    def once(monitor, op, mech, what, **witness):
        k = (monitor, op, mech)
        if k in seen:
            return
        seen.add(k)
        record(monitor, op, mech, what, **witness)
    ctx.violation = once
    ctx.MAX_VIOL_PER_CASE = 40
    if desc["gen"] == "tet":
        run_volume(desc, ctx)
    else:
        run_surface(desc, ctx)
