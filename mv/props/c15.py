"""C15 - border and feature extraction are exact.

Shape: reference-model differential monitor (border loops from the face list; dihedral test from reference normals)."""
import math
import random

import numpy as np

from .. import build
from ..ref import topo
from ..ref.surface_ref import RefSurface
from ..zoo import surfaces
from ..ctx import stable_hash

ID = "C15"
RULE = ("zoo surfaces with 0-6 border loops and 1-2 components (chords between border vertices, ears, ragged borders, polygons) for the border clauses, "
        "every border vertex as starting point; hinge families (two triangulated strips folded by a prescribed dihedral angle swept on both sides of 60 "
        "degrees and of acos(0.8) at distances 1e-1 ... 1e-7 rad, crease declared hard or not) and lifted/closed triangle meshes for the detector, with "
        "options only_border / flag_corners / corner_order; non-trivial = >= 2 border loops, or a hinge within 1e-3 rad of a threshold; distinct = input hash"
        "; variants: one-rung hinges, very pointed feature vertices (pennant, thin rhombus, slender spike; orders 3-8), far-from-origin copies, compute_feature_graph=False, detect-deform-detect history")
REQUIRED = {"cycle": 400, "cycle_all": 80, "polyline": 60, "features": 120, "derived": 100}
CASE_TIMEOUT = {"quick": 30.0, "thorough": 600.0}
ASSUMPTIONS = ["neighbourhood sorting is on (the border walk legitimately relies on sorted rings; the switch belongs to C01's quantifier)",
               "decisions whose normal dot product is within 1e-9 of a threshold are not judged",
               "the surface-to-polyline index map is accepted in either direction provided it is a coordinate-consistent bijection"]


def cases(seed, tier):
    rng = random.Random(seed * 9301 + 15)
    n = 300 if tier == "quick" else 40000
    out = []
    for i in range(n):
        k = i % 5
        if k in (0, 1):
            out.append({"gen": "border", "seed": rng.randrange(2 ** 31), "max_size": 5 if tier == "quick" else 8})
        elif k in (2, 3):
            side = rng.choice([-1, 1])
            out.append({"gen": "hinge", "seed": rng.randrange(2 ** 31), "threshold": rng.choice(["sharp", "hard"]), "delta": side * 10.0 ** (-rng.randint(1, 7)),
                        "declare": rng.random() < 0.6, "only_border": rng.random() < 0.2, "corner_order": rng.choice([4, 4, 6, 3])})
        else:
            out.append({"gen": "features_zoo", "seed": rng.randrange(2 ** 31), "only_border": rng.random() < 0.2, "corner_order": rng.choice([4, 6]),
                        "max_size": 5})
    # very pointed feature vertices (tip of a pennant or of a thin rhombus, apex of a slender spike): angle sums far below 2*pi/corner_order;
    # and one-rung hinges (the crease is an interior edge joining two border vertices)
    for i in range(30 if tier == "quick" else 3000):
        out.append({"gen": "pointed", "seed": rng.randrange(2 ** 31), "shape": ["pennant", "rhombus", "spike"][i % 3], "corner_order": rng.choice([4, 4, 6, 3, 8]),
                    "tip_deg": rng.choice([3.0, 8.0, 14.0, 21.0, 28.0, 33.0, 41.0, 52.0])})
    return out


def _pointed_case(desc, ctx):
    rng = random.Random(desc["seed"])
    a = math.radians(desc["tip_deg"])
    if desc["shape"] == "pennant":
        m = rng.randint(1, 3)
        w = math.tan(a / 2)
        V = [[0.0, 0.0, 0.0]] + [[1.0, -w + 2 * w * k / m, 0.0] for k in range(m + 1)]
        F = [[0, 1 + k, 2 + k] for k in range(m)]
    elif desc["shape"] == "rhombus":
        w = math.tan(a / 2)
        V = [[0.0, 0.0, 0.0], [1.0, -w, 0.0], [2.0, 0.0, 0.0], [1.0, w, 0.0]]
        F = [[0, 1, 3], [1, 2, 3]]
    else:
        nb = rng.choice([3, 4, 5])
        r = 1.0
        # slender pyramid without its base: nb side triangles, each with apex angle a / nb
        half = a / nb / 2
        side = r * math.sin(math.pi / nb) / math.sin(half)  # length of the slanted edges
        h = math.sqrt(max(side * side - r * r, 1e-12))
        V = [[0.0, 0.0, h]] + [[r * math.cos(2 * math.pi * k / nb), r * math.sin(2 * math.pi * k / nb), 0.0] for k in range(nb)]
        F = [[0, 1 + k, 1 + (k + 1) % nb] for k in range(nb)]
    V = np.array(V, float)
    if rng.random() < 0.5:
        V, F, _ = surfaces.renumber(V, F, rng)
    if rng.random() < 0.5:
        F = surfaces.rotate_faces(F, rng)
    V, _, _ = surfaces.rigid(V, rng)
    ctx.cls("pointed:%s" % desc["shape"])
    ctx.cls("tip_angle_times_order_over_2pi:%s" % ("below_half" if a * desc["corner_order"] / (2 * math.pi) < 0.5 else "above_half"))
    ctx.nontrivial(stable_hash([desc["shape"], desc["tip_deg"], desc["corner_order"], desc["seed"]]))
    _feature_oracle(ctx, V, [list(map(int, f)) for f in F], None, False, desc["corner_order"], True, "pointed", None)


# ----------------------------------------------------------------------------- border
def _border_case(desc, ctx):
    import mouette as M
    z = surfaces.make(desc["seed"], max_size=desc["max_size"])
    V, F, a = z["V"], z["F"], z["topo"]
    loops = a["border_loops"]
    ctx.cls("loops:%d" % len(loops))
    ctx.cls("components:%d" % a["n_components"])
    ref = RefSurface(len(V), F)
    bset = ref.border_edges
    chords = sum(1 for e in ref.edges if e not in bset and e[0] in ref.border_vertices and e[1] in ref.border_vertices)
    ctx.cls("chords:" + ("yes" if chords else "no"))
    if len(loops) >= 2:
        ctx.nontrivial(stable_hash([len(V), F]))
    ok, m = ctx.call("build", build.surface, V, F, monitor="cycle")
    edges = build.edges_list(m)
    loop_of = {}
    for li, l in enumerate(loops):
        for v in l:
            loop_of[v] = li
    # every border vertex as a starting point
    starts = sorted(ref.border_vertices)
    if len(starts) > 40:
        rng = random.Random(desc["seed"])
        starts = rng.sample(starts, 40)
    for s in starts:
        ok, res = ctx.call("extract_border_cycle", M.processing.extract_border_cycle, m, s, monitor="cycle", abort=False)
        if not ok:
            continue
        ctx.obs("cycle", "start")
        try:
            vb, eb = res
            vb = [int(x) for x in vb]
            eb = [int(x) for x in eb]
        except Exception:
            ctx.violation("cycle", "extract_border_cycle", "malformed_result", "result is not (vertices, edges)", got=repr(res)[:200])
            continue
        want = loops[loop_of[s]]
        mech = None
        if not vb or vb[0] != s:
            mech = "does_not_start_at_starting_point"
        elif sorted(vb) != sorted(want):
            mech = "not_the_vertices_of_the_loop_once"
        else:
            n = len(vb)
            for i in range(n):
                e = (min(vb[i], vb[(i + 1) % n]), max(vb[i], vb[(i + 1) % n]))
                if e not in bset:
                    mech = "walk_leaves_border_edges"
                    break
            if mech is None:
                if len(eb) != n:
                    mech = "edge_list_wrong_length"
                else:
                    for i in range(n):
                        e = (min(vb[i], vb[(i + 1) % n]), max(vb[i], vb[(i + 1) % n]))
                        if not (0 <= eb[i] < len(edges)) or edges[eb[i]] != e:
                            mech = "edge_ids_do_not_match_walk"
                            break
        if mech:
            ctx.violation("cycle", "extract_border_cycle", mech, "border cycle is not a closed walk along border edges visiting every vertex of the loop once",
                          start=s, got=vb[:30], loop=want[:30], chords=chords)
            break
    # default starting point: some complete border loop
    if loops:
        ok, m0 = ctx.call("build", build.surface, V, F, monitor="cycle")
        ok, res = ctx.call("extract_border_cycle_default_start", M.processing.extract_border_cycle, m0, monitor="cycle", abort=False)
        if ok:
            ctx.obs("cycle", "default_start")
            try:
                vb = [int(x) for x in res[0]]
                good = sorted(vb) in [sorted(l) for l in loops] and all((min(vb[i], vb[(i + 1) % len(vb)]), max(vb[i], vb[(i + 1) % len(vb)])) in bset for i in range(len(vb)))
            except Exception:
                good = False
            if not good:
                ctx.violation("cycle", "extract_border_cycle", "default_start_not_a_border_loop", "without a starting point the result is not one complete border loop")
    # interior starting point must be rejected
    interior = sorted(set(range(len(V))) - ref.border_vertices)
    if interior and loops:
        ok, res = ctx.call("extract_border_cycle_interior", M.processing.extract_border_cycle, m, interior[0], expect=(Exception,), monitor="cycle")
        ctx.check(not ok, "cycle", "interior_start", "interior_start_not_rejected", "an interior starting point was not rejected", start=interior[0])
    # all cycles
    ok, m2 = ctx.call("build", build.surface, V, F, monitor="cycle_all")
    ok, cyc = ctx.call("extract_border_cycle_all", M.processing.extract_border_cycle_all, m2, monitor="cycle_all", abort=False)
    if ok:
        ctx.obs("cycle_all", "all")
        try:
            cyc = [[int(v) for v in c] for c in cyc]
        except Exception:
            cyc = None
        if cyc is None:
            ctx.violation("cycle_all", "all", "malformed_result", "result is not a list of vertex lists")
        elif len(cyc) != len(loops):
            ctx.violation("cycle_all", "all", "wrong_number_of_cycles", "number of cycles differs from the number of border loops", got=len(cyc), want=len(loops))
        elif sorted(sorted(c) for c in cyc) != sorted(sorted(l) for l in loops):
            ctx.violation("cycle_all", "all", "cycles_are_not_the_loops", "cycles are not the border loops, each exactly once")
        else:
            for c in cyc:
                n = len(c)
                if any((min(c[i], c[(i + 1) % n]), max(c[i], c[(i + 1) % n])) not in bset for i in range(n)):
                    ctx.violation("cycle_all", "all", "walk_leaves_border_edges", "a cycle is not a walk along border edges", cycle=c[:30])
                    break
    # border polyline
    if True:  # also with no border at all: an empty polyline and an empty map
        ok, m3 = ctx.call("build", build.surface, V, F, monitor="polyline")
        ok, res = ctx.call("extract_boundary_of_surface", M.processing.extract_boundary_of_surface, m3, monitor="polyline", abort=False)
        if ok:
            ctx.obs("polyline", "extract")
            try:
                pl, mp = res
                pe = [tuple(int(x) for x in e) for e in pl.edges]
                pv = build.vertices_array(pl)
                mp = {int(k): int(v) for k, v in mp.items()}
            except Exception as e:
                ctx.violation("polyline", "extract", "malformed_result", "result is not (polyline, index map): %s" % type(e).__name__)
                return
            nb = len(ref.border_vertices)
            # accept the map in either direction
            s2p = None
            if set(mp.keys()) == ref.border_vertices and sorted(mp.values()) == list(range(nb)):
                s2p = mp
            elif set(mp.values()) == ref.border_vertices and sorted(mp.keys()) == list(range(nb)):
                s2p = {v: k for k, v in mp.items()}
            if s2p is None or len(pv) != nb:
                ctx.violation("polyline", "extract", "index_map_not_a_bijection", "index map is not a bijection between border vertices and polyline vertices",
                              n_map=len(mp), n_border=nb, n_polyline_vertices=len(pv))
                return
            p2s = {p: s for s, p in s2p.items()}
            if any(not np.array_equal(pv[p], np.asarray(V[s], float)) for s, p in s2p.items()):
                ctx.violation("polyline", "extract", "index_map_inconsistent_with_coordinates", "a polyline vertex does not carry the coordinates of its surface vertex")
                return
            got = sorted((min(p2s[a], p2s[b]), max(p2s[a], p2s[b])) for (a, b) in pe)
            ctx.check(got == sorted(bset), "polyline", "edges", "not_exactly_the_border_edges", "border polyline does not consist of exactly the border edges",
                      n=len(got), want=len(bset))
    else:
        ok, m3 = ctx.call("build", build.surface, V, F, monitor="cycle_all")
        ok, cyc = ctx.call("extract_border_cycle_all_closed", M.processing.extract_border_cycle_all, m3, monitor="cycle_all", abort=False)
        if ok:
            ctx.check(len(list(cyc)) == 0, "cycle_all", "closed", "cycles_on_closed_surface", "a closed surface has border cycles")
    if len(F) <= 5:
        ctx.sample({"faces": F, "border_loops": loops, "checked": "extract_border_cycle from every border vertex, cycle_all, border polyline"})


# ----------------------------------------------------------------------------- features
def _normals(V, F):
    N = []
    for f in F:
        if len(f) == 3:
            n = np.cross(V[f[1]] - V[f[0]], V[f[2]] - V[f[0]])
        else:
            # polygon: vector area about the barycentre (only planar polygons are judged, see _planar_faces)
            c = np.mean([V[v] for v in f], axis=0)
            n = sum(np.cross(V[f[k]] - c, V[f[(k + 1) % len(f)]] - c) for k in range(len(f)))
        N.append(n / np.linalg.norm(n))
    return N


def _planar_faces(V, F):
    V = np.asarray(V, float)
    N = _normals(V, F)
    for f, n in zip(F, N):
        if len(f) > 3:
            c = np.mean([V[v] for v in f], axis=0)
            size = max(float(np.linalg.norm(V[v] - c)) for v in f)
            if not np.all(np.isfinite(n)) or any(abs(float(np.dot(V[v] - c, n))) > 1e-12 * size for v in f):
                return False
    return True


def _hinge(rng, phi, n):
    """Two triangulated strips sharing the crease x-axis; the second is rotated about it so that the face normals enclose angle phi."""
    V, F = [], []
    for i in range(n + 1):
        x = i * 1.0 + (rng.uniform(-0.2, 0.2) if 0 < i < n else 0)
        V.append([x, -1.0 + rng.uniform(-0.1, 0.1), 0.0])  # row 0 (strip A, y<0)
    for i in range(n + 1):
        V.append([i * 1.0, 0.0, 0.0])  # crease
    for i in range(n + 1):
        x = i * 1.0 + (rng.uniform(-0.2, 0.2) if 0 < i < n else 0)
        y = 1.0 + rng.uniform(-0.1, 0.1)
        V.append([x, y * math.cos(phi), y * math.sin(phi)])  # row 2 (strip B) rotated about the x axis by phi
    r0, r1, r2 = 0, n + 1, 2 * (n + 1)
    for i in range(n):
        F += [[r0 + i, r0 + i + 1, r1 + i + 1], [r0 + i, r1 + i + 1, r1 + i]]
        F += [[r1 + i, r1 + i + 1, r2 + i + 1], [r1 + i, r2 + i + 1, r2 + i]]
    crease = [(r1 + i, r1 + i + 1) for i in range(n)]
    return np.array(V, float), F, crease


def _feature_oracle(ctx, V, F, declared, only_border, corner_order, flag_corners, tag, near):
    import mouette as M
    if len(F) % 5 == 2 and all(len(f) == 3 for f in F):
        # the same surface far from the origin (geo-referenced data): the offset is a power of two times a short vector, 1e5..1e7 mesh sizes;
        # the stored (rounded) coordinates are the input of both the library and the reference
        V = np.asarray(V, float)
        size = float(np.ptp(V, axis=0).max()) or 1.0
        k = 2.0 ** math.ceil(math.log2(size * [1e5, 1e6, 1e7][len(V) % 3]))
        V = V + k * np.array([[1.0, -0.5, 0.25], [0.0, 1.0, 0.5], [-1.0, 0.25, 1.0]][len(F) % 3])
        ctx.cls("features:far_from_origin")
        near = max(near or 0.0, 1e-5)
    ref = RefSurface(len(V), F)
    E = [list(e) for e in declared] if declared else None
    ok, m = ctx.call("build", build.surface, V, F, "list", "list", E, monitor="features")
    edges = build.edges_list(m)
    N = _normals(np.asarray(V, float), F)
    want, undecided = set(), set()
    dset = {(min(a, b), max(a, b)) for (a, b) in (declared or [])}
    for i, e in enumerate(edges):
        if e in ref.border_edges:
            want.add(i)
            continue
        if only_border:
            continue
        f1, f2 = ref.direct_face(*e), ref.direct_face(e[1], e[0])
        d = float(np.dot(N[f1], N[f2]))
        for thr, cond in ((0.5, True), (0.8, e in dset)):
            if not cond:
                continue
            if abs(d - thr) <= 1e-9:
                undecided.add(i)
            elif d < thr:
                want.add(i)
    def expected(ob, N=N, tol=1e-9):
        w, und = set(), set()
        for i, e in enumerate(edges):
            if e in ref.border_edges:
                w.add(i)
                continue
            if ob:
                continue
            f1, f2 = ref.direct_face(*e), ref.direct_face(e[1], e[0])
            d = float(np.dot(N[f1], N[f2]))
            for thr, cond in ((0.5, True), (0.8, e in dset)):
                if not cond:
                    continue
                if abs(d - thr) <= tol:
                    und.add(i)
                elif d < thr:
                    w.add(i)
        return w, und
    if corner_order == 4 and flag_corners and not only_border and len(V) % 2 == 0:
        # the documented defaults (only_border=False, flag_corners=True, corner_order=4) left to the library
        ctx.cls("detector:default_options")
        ok, det = ctx.call("FeatureEdgeDetector", lambda: M.processing.FeatureEdgeDetector(verbose=False), monitor="features")
    elif len(F) % 3 == 1:
        # without the visualisation graph (what the library's own connection classes ask for): every other derived datum must still be filled
        ctx.cls("detector:compute_feature_graph=False")
        ok, det = ctx.call("FeatureEdgeDetector", lambda: M.processing.FeatureEdgeDetector(only_border=only_border, flag_corners=flag_corners, corner_order=corner_order,
                                                                                           compute_feature_graph=False, verbose=False), monitor="features")
    else:
        ok, det = ctx.call("FeatureEdgeDetector", lambda: M.processing.FeatureEdgeDetector(only_border=only_border, flag_corners=flag_corners, corner_order=corner_order,
                                                                                           verbose=False), monitor="features")
    ok, _ = ctx.call("detect", det.detect, m, monitor="features")
    ctx.obs("features", tag)
    try:
        got = {int(e) for e in det.feature_edges}
    except Exception:
        ctx.violation("features", tag, "malformed_result", "feature_edges is not a set of edge ids")
        return
    # history: further detections on the SAME mesh object with other options (a new detector, then the first detector again)
    for rep, ob in enumerate((not only_border, only_border)):
        w2, und2 = expected(ob)
        if rep == 0:
            ok, det2 = ctx.call("FeatureEdgeDetector", lambda: M.processing.FeatureEdgeDetector(only_border=ob, flag_corners=flag_corners, corner_order=corner_order,
                                                                                               verbose=False), monitor="features")
        else:
            det2 = det
        ok, _ = ctx.call("detect_again_on_same_mesh", det2.detect, m, monitor="features")
        ctx.obs("features", "redetect")
        try:
            g2 = {int(e) for e in det2.feature_edges}
            gv2 = {int(v) for v in det2.feature_vertices}
        except Exception:
            ctx.violation("features", "redetect", "malformed_result", "feature_edges is not a set of edge ids")
            return
        wrong2 = (g2 ^ w2) - und2
        if wrong2:
            e = sorted(wrong2)[0]
            ctx.violation("features", "redetect", ("missing" if e in w2 else "spurious") + "_edge_after_previous_detection_on_same_mesh",
                          "a detection run on a mesh that was already analysed (with other options) does not flag exactly the expected edges",
                          edge=edges[e], only_border=ob, previous_only_border=(only_border if rep == 0 else (not only_border)), n_wrong=len(wrong2))
            return
        if gv2 != {v for e in g2 for v in edges[e]}:
            ctx.violation("features", "redetect", "feature_vertices_inconsistent_after_previous_detection", "feature_vertices are not the end points of the feature edges on a re-run")
            return
    def deformation_history():
        # history: the SAME mesh object is deformed in place (non-rigid linear map) and analysed again: the decision must follow the current geometry.
        # (The harness stored no face normals itself; the detector is only documented to reuse a "normals" attribute the user provided.)
        if all(len(f) == 3 for f in F):
            hr = random.Random(len(V) * 7919 + len(F))
            Va0 = np.asarray(V, float)
            A = np.array([[1.0, hr.uniform(-0.5, 0.5), 0.0], [0.0, hr.uniform(0.6, 1.5), hr.uniform(-0.4, 0.4)], [hr.uniform(-0.3, 0.3), hr.uniform(-0.9, 0.9), hr.uniform(0.3, 2.5)]])
            Vd = Va0 @ A.T
            with np.errstate(all="ignore"):
                Nd = _normals(Vd, F)
            if abs(np.linalg.det(A)) > 0.1 and all(np.all(np.isfinite(n)) for n in Nd):
                for i in range(len(Vd)):
                    m.vertices[i] = M.Vec(Vd[i].copy())
                for rep, ob in enumerate((only_border, False)):
                    w3, und3 = expected(ob, N=Nd, tol=1e-7)
                    ok, det3 = ctx.call("FeatureEdgeDetector", lambda: M.processing.FeatureEdgeDetector(only_border=ob, flag_corners=flag_corners, corner_order=corner_order,
                                                                                                        verbose=False), monitor="features")
                    ok, _ = ctx.call("detect_after_deformation", det3.detect, m, monitor="features")
                    ctx.obs("features", "redetect_after_deformation")
                    try:
                        g3 = {int(e) for e in det3.feature_edges}
                    except Exception:
                        g3 = None
                    if g3 is None or ((g3 ^ w3) - und3):
                        ctx.violation("features", "redetect", "edge_set_does_not_follow_the_deformed_geometry",
                                      "after the vertices of the analysed mesh were moved in place, a new detection does not flag the edges of the current geometry",
                                      n_wrong=None if g3 is None else len((g3 ^ w3) - und3), only_border=ob)
                        return
                for i in range(len(Va0)):
                    m.vertices[i] = M.Vec(Va0[i].copy())
    wrong = (got ^ want) - undecided
    if wrong:
        e = sorted(wrong)[0]
        kind = "border" if edges[e] in ref.border_edges else ("declared_hard" if edges[e] in dset else "plain_interior")
        d = None
        if edges[e] not in ref.border_edges:
            d = float(np.dot(N[ref.direct_face(*edges[e])], N[ref.direct_face(edges[e][1], edges[e][0])]))
        ctx.violation("features", "edge_set", ("missing_" if e in want else "spurious_") + kind + "_edge",
                      "the detector's feature edges are not exactly: border + interior edges with normals > 60 deg apart + declared hard edges > ~37 deg apart",
                      edge=edges[e], normal_dot=d, only_border=only_border, n_wrong=len(wrong), near_threshold=near)
        return
    # derived data consistent with the edge set
    ctx.obs("derived", tag)
    fe = got
    fv = {v for e in fe for v in edges[e]}
    try:
        gfv = {int(v) for v in det.feature_vertices}
    except Exception:
        gfv = None
    if gfv != fv:
        ctx.violation("derived", "feature_vertices", "not_the_endpoints", "feature_vertices are not the end points of the feature edges")
        return
    deg = {}
    for e in fe:
        for v in edges[e]:
            deg[v] = deg.get(v, 0) + 1
    for v in range(len(V)):
        try:
            g = int(det.feature_degrees[v])
        except Exception:
            g = None
        if g != deg.get(v, 0):
            ctx.violation("derived", "feature_degrees", "wrong_degree", "feature degree of a vertex is not its number of incident feature edges", v=v, got=g, want=deg.get(v, 0))
            return
    for v in fv:
        ring = [int(x) for x in m.connectivity.vertex_to_edges(v)]
        wantl = [i for i, e in enumerate(ring) if e in fe]
        try:
            gl = [int(x) for x in det.local_feat_edges[v]]
        except Exception:
            gl = None
        if gl is None or sorted(gl) != wantl:
            ctx.violation("derived", "local_feat_edges", "wrong_local_indices", "local feature-edge indices are not the positions of the feature edges in vertex_to_edges(v)",
                          v=v, got=gl, want=wantl)
            return
    if flag_corners:
        Va = np.asarray(V, float)
        for v in fv:
            ang = 0.0
            for fi in ref.v2f[v]:
                f = F[fi]
                k = f.index(v)
                a, b, c = Va[f[k]], Va[f[(k + 1) % len(f)]], Va[f[(k - 1) % len(f)]]
                u, w = b - a, c - a
                ang += math.atan2(np.linalg.norm(np.cross(u, w)), np.dot(u, w))
            x = ang * corner_order / (2 * math.pi)
            if abs(ang) < 2 * math.pi / corner_order:
                if abs(abs(ang) - 2 * math.pi / corner_order) < 1e-6:
                    continue
                wantc = 1
            else:
                if abs(x - math.floor(x) - 0.5) < 1e-6 or abs(abs(ang) - 2 * math.pi / corner_order) < 1e-6:
                    continue
                wantc = round(x)
            try:
                g = int(det.corners[v])
            except Exception:
                g = None
            if g != wantc:
                ctx.violation("derived", "corners", "wrong_corner_order", "corner order of a feature vertex is not the documented rounding of its angle sum",
                              v=v, got=g, want=wantc, angle=ang, corner_order=corner_order)
                return
    fg = det.feature_graph
    if fg is not None:
        try:
            ok_graph = len(fg.vertices) == len(fv) and len(fg.edges) == len(fe)
            if ok_graph:
                pv = build.vertices_array(fg)
                pos = {tuple(np.round(p, 12)) for p in pv}
                ok_graph = all(tuple(np.round(np.asarray(V[v], float), 12)) in pos for v in fv)
        except Exception:
            ok_graph = False
        ctx.check(ok_graph, "derived", "feature_graph", "graph_not_isomorphic_to_edge_set", "feature graph does not have the feature vertices / edges")
    deformation_history()


def _hinge_case(desc, ctx):
    rng = random.Random(desc["seed"])
    thr = 0.5 if desc["threshold"] == "sharp" else 0.8
    phi = math.acos(thr) + desc["delta"]
    n = rng.randint(1, 6)  # n = 1: a single rung, the crease joins two border vertices
    V, F, crease = _hinge(rng, phi, n)
    ctx.cls("hinge:crease_edges:%s" % ("one" if n == 1 else "several"))
    if rng.random() < 0.5:
        V, F2, perm = surfaces.renumber(V, F, rng)
        crease = [(perm[a], perm[b]) for (a, b) in crease]
        F = F2
    if rng.random() < 0.5:
        F = surfaces.rotate_faces(F, rng)
    if desc["seed"] % 2 == 0:
        # faces listed in any order (so that face number 0 may be one of the two faces at the crease)
        F = [list(f) for f in F]
        random.Random(desc["seed"] ^ 0xf0).shuffle(F)
        ctx.cls("hinge:face_order_shuffled")
    Q, _, _ = None, None, None
    V, Q, t = surfaces.rigid(V, rng)
    declared = crease if desc["declare"] else None
    if declared and rng.random() < 0.5:
        # also declare a flat interior edge (must not become a feature) and a border edge
        ref = RefSurface(len(V), F)
        flat = [e for e in ref.edges if e not in ref.border_edges and e not in {(min(a, b), max(a, b)) for a, b in crease}]
        if flat:
            declared = list(declared) + [rng.choice(sorted(flat))]
    ctx.cls("hinge:%s:%s" % (desc["threshold"], "declared" if desc["declare"] else "plain"))
    ctx.cls("delta:1e%d" % round(math.log10(abs(desc["delta"]))))
    if abs(desc["delta"]) <= 1e-3:
        ctx.nontrivial(stable_hash([desc["threshold"], desc["delta"], desc["declare"], desc["only_border"], n, desc["seed"]]))
    _feature_oracle(ctx, V, F, declared, desc["only_border"], desc["corner_order"], True, "hinge", abs(desc["delta"]))
    if n <= 2:
        ctx.sample({"hinge_threshold": desc["threshold"], "fold_angle_minus_threshold_rad": desc["delta"], "crease_declared_hard": desc["declare"],
                    "faces": F, "only_border": desc["only_border"]})


def _features_zoo_case(desc, ctx):
    z = surfaces.make(desc["seed"], max_size=desc["max_size"], tri_only=True)
    if desc["seed"] % 3 == 0:
        # quad / polygon / mixed surfaces whose faces are planar (so that "the face normal" has one meaning)
        for attempt in range(6):
            zp = surfaces.make(desc["seed"] + 7919 * attempt, max_size=desc["max_size"])
            if any(len(f) > 3 for f in zp["F"]) and _planar_faces(zp["V"], zp["F"]):
                z = zp
                ctx.cls("zoo:faces_with_more_than_three_sides")
                break
    V, F = z["V"], z["F"]
    rng = random.Random(desc["seed"] ^ 5)
    ref = RefSurface(len(V), F)
    declared = None
    if rng.random() < 0.5:
        pool = sorted(ref.edges)
        declared = rng.sample(pool, min(len(pool), rng.randint(1, 5)))
    # keep clear of thresholds and degenerate triangles
    N = _normals(np.asarray(V, float), F)
    for e in ref.edges:
        if e in ref.border_edges:
            continue
        d = float(np.dot(N[ref.direct_face(*e)], N[ref.direct_face(e[1], e[0])]))
        if min(abs(d - 0.5), abs(d - 0.8)) < 1e-7:
            ctx.note("skipped_near_threshold_zoo_mesh")
            return
    ctx.cls("zoo:" + ("closed" if z["topo"]["closed"] else "bordered"))
    if len(z["topo"]["border_loops"]) >= 2:
        ctx.nontrivial(stable_hash([len(V), F, declared]))
    _feature_oracle(ctx, V, F, declared, desc["only_border"], desc["corner_order"], rng.random() < 0.7, "zoo", None)


def run_case(desc, ctx):
    if desc["gen"] == "border":
        _border_case(desc, ctx)
    elif desc["gen"] == "hinge":
        _hinge_case(desc, ctx)
    elif desc["gen"] == "pointed":
        _pointed_case(desc, ctx)
    else:
        _features_zoo_case(desc, ctx)
