"""C13 - subdivision refines a mesh without changing its shape or topology.

Shape: history monitor over one editing block (operation sequences), reference analyser on the result, prefix re-runs to locate
each new vertex at the centre of the element it refines, connectivity script on the result and on the input object."""
import random

import numpy as np

from .. import build, surfconn, volconn
from ..ref import topo
from ..ref.surface_ref import RefSurface
from ..ref.volume_ref import RefVolume, tri
from ..zoo import surfaces, volumes, graphs
from ..ctx import stable_hash, CaseAbort

ID = "C13"
RULE = ("zoo surfaces (triangle, quad, mixed, polygon; closed or bordered; genus 0-2), conforming tetrahedral meshes and polylines; sequences of 1-3 "
        "operations inside one editing block (triangulate, triangulate_face, split_face_as_fan, loop_subdivision, subdivide_triangles_3quads, "
        "subdivide_triangles_6; split_cell_as_fan, split_tet_from_face_center; split_edge), connectivity queried before editing or not; "
        "non-trivial = non-triangular input or >= 2 operations; distinct = (mesh, operation sequence, pre-query) hash")
REQUIRED = {"result": 600, "counts": 150, "newverts": 100, "input_state": 150, "result_conn": 1000}
CASE_TIMEOUT = {"quick": 30.0, "thorough": 900.0}
ASSUMPTIONS = ["documented counts: triangulate quad -> 2 triangles, n-gon (n>=5) -> n-fan with one new vertex; fan: +1 vertex, n triangles; "
               "1-to-4: V+E, 2E+3F, 4F; 1-to-3 quads: V+E+F, 2E+3F, 3F; 1-to-6: V+E+F, 2E+6F, 6F; cell fan: +1 vertex +3 cells; "
               "face-centre split: +1 vertex, +2 cells per incident cell",
               "new-vertex positions are located against the result of the operation prefix run in its own block (the library is deterministic)"]

SURF_OPS = ["triangulate", "triangulate_face", "split_face_as_fan", "loop", "3quads", "6", "loop", "3quads", "6", "triangulate_face", "split_face_as_fan", "loop2", "6x2"]


def cases(seed, tier):
    rng = random.Random(seed * 69621 + 13)
    n = 200 if tier == "quick" else 10000
    out = []
    for i in range(n):
        kind = ["surface", "surface", "surface", "volume", "polyline"][i % 5]
        out.append({"gen": kind, "seed": rng.randrange(2 ** 31), "nops": [1, 1, 2, 2, 3][(i // 5) % 5], "prequery": (i // 2) % 2 == 0,
                    "max_size": 3 if tier == "quick" else 5, "max_faces": 900 if tier == "quick" else 2500})
    for i in range(40 if tier == "quick" else 800):
        out.append({"gen": "error_in_block", "seed": rng.randrange(2 ** 31), "prequery": i % 2 == 0, "max_size": 3})
    for i in range(30 if tier == "quick" else 600):
        out.append({"gen": "ears", "seed": rng.randrange(2 ** 31), "prequery": i % 2 == 0, "max_size": 3 if tier == "quick" else 5})
    return out


# ----------------------------------------------------------------------------- helpers
def _apply_surface_ops(ctx, m, ops, monitor="result"):
    import mouette as M
    with M.mesh.SurfaceSubdivision(m) as ed:
        for op in ops:
            name = op[0]
            if name == "triangulate":
                ed.triangulate()
            elif name == "triangulate_face":
                ed.triangulate_face(op[1] % len(ed.mesh.faces))
            elif name == "split_face_as_fan":
                ed.split_face_as_fan(op[1] % len(ed.mesh.faces))
            elif name == "loop":
                ed.loop_subdivision(1)
            elif name == "loop2":
                ed.loop_subdivision(2)
            elif name == "6x2":
                ed.subdivide_triangles_6(2)
            elif name == "3quads":
                ed.subdivide_triangles_3quads()
            elif name == "6":
                ed.subdivide_triangles_6(1)
    return ed.mesh


def _apply_volume_ops(ctx, m, ops):
    import mouette as M
    with M.mesh.VolumeSubdivision(m) as ed:
        for op in ops:
            if op[0] == "cell_fan":
                ed.split_cell_as_fan(op[1] % len(ed.mesh.cells))
            else:
                ed.split_tet_from_face_center(op[1] % len(ed.mesh.faces))
    return ed.mesh


def _area(V, F):
    a = 0.0
    for f in F:
        p0 = V[f[0]]
        for k in range(1, len(f) - 1):
            a += 0.5 * np.linalg.norm(np.cross(V[f[k]] - p0, V[f[k + 1]] - p0))
    return a


def _volume(V, C):
    return sum(abs(volumes.signed_volume_S(V, c)) for c in C) / 6.0


def _snap_surface(m):
    return {"V": build.vertices_array(m).tolist(), "E": build.edges_list(m), "F": build.faces_list(m),
            "FC": [list(map(int, m.face_corners._elem)), list(map(int, m.face_corners._adj))]}


def _snap_volume(m):
    return {"V": build.vertices_array(m).tolist(), "E": build.edges_list(m), "F": build.faces_list(m), "C": build.cells_list(m),
            "FC": [list(map(int, m.face_corners._elem)), list(map(int, m.face_corners._adj))],
            "CC": [list(map(int, m.cell_corners._elem)), list(map(int, m.cell_corners._adj))],
            "CF": [list(map(int, m.cell_faces._elem)), list(map(int, m.cell_faces._adj))]}


def _expected_surface_counts(V, E, F_ar, ops, faces_now):
    """Sequentially applies the documented count formulas.  F_ar: list of arities."""
    ar = list(F_ar)

    def triangulate_all(V, E, ar):
        out = []
        for n in ar:
            if n == 3:
                out.append(3)
            elif n == 4:
                out += [3, 3]
                E += 1
            else:
                out += [3] * n
                V += 1
                E += n
        return V, E, out
    for op in ops:
        name = op[0]
        if name == "triangulate":
            V, E, ar = triangulate_all(V, E, ar)
        elif name in ("triangulate_face", "split_face_as_fan"):
            i = op[1] % len(ar)
            n = ar[i]
            if name == "triangulate_face" and n == 3:
                pass
            elif name == "triangulate_face" and n == 4:
                ar[i] = 3
                ar.append(3)
                E += 1
            else:
                ar[i] = 3
                ar += [3] * (n - 1)
                V += 1
                E += n
        elif name in ("loop", "loop2"):
            V, E, ar = triangulate_all(V, E, ar)
            for _ in range(2 if name == "loop2" else 1):
                F = len(ar)
                V, E, ar = V + E, 2 * E + 3 * F, [3] * (4 * F)
        elif name == "6x2":
            V, E, ar = triangulate_all(V, E, ar)
            for _ in range(2):
                F = len(ar)
                V, E, ar = V + E + F, 2 * E + 6 * F, [3] * (6 * F)
        elif name == "3quads":
            V, E, ar = triangulate_all(V, E, ar)
            F = len(ar)
            V, E, ar = V + E + F, 2 * E + 3 * F, [4] * (3 * F)
        elif name == "6":
            V, E, ar = triangulate_all(V, E, ar)
            F = len(ar)
            V, E, ar = V + E + F, 2 * E + 6 * F, [3] * (6 * F)
    return V, E, ar


def _centres(V, E, F, C=None):
    pts = [(V[a] + V[b]) / 2 for (a, b) in E]
    pts += [np.mean([V[v] for v in f], axis=0) for f in F]
    if C:
        pts += [np.mean([V[v] for v in c], axis=0) for c in C]
    return np.array(pts) if pts else np.zeros((0, 3))


def _match_new_vertices(ctx, op, base, res_V, scale):
    """base: dict(V,E,F[,C]) of the prefix result (triangulated when the op triangulates first)."""
    Vb = np.array(base["V"], float)
    n0 = len(Vb)
    ctx.obs("newverts", op)
    if len(res_V) < n0 or not np.array_equal(res_V[:n0], Vb):
        ctx.violation("newverts", op, "original_vertices_moved", "the vertices present before the operation are not all in place afterwards")
        return
    cand = _centres(Vb, base["E"], base["F"], base.get("C"))
    for i in range(n0, len(res_V)):
        if len(cand) == 0:
            d = np.inf
        else:
            d = np.min(np.linalg.norm(cand - res_V[i], axis=1))
        if not d <= 1e-11 * scale:
            ctx.violation("newverts", op, "new_vertex_not_at_centre", "a new vertex is not at the centre of an edge, face or cell of the mesh it refines",
                          vertex=i, distance=float(d))
            return


# ----------------------------------------------------------------------------- surface case
def _surface_case(desc, ctx, rng):
    import mouette as M
    z = surfaces.make(rng.randrange(2 ** 31), max_size=desc["max_size"])
    V0, F0, a0 = z["V"], z["F"], z["topo"]
    quads = [f for f in F0 if len(f) == 4]
    if quads and desc["seed"] % 3 == 1:
        # a dart: one corner of a quad is pushed past the opposite diagonal, so that the quad has a reflex corner there (listed first or third)
        rq = random.Random(desc["seed"] ^ 0xda47)
        f = rq.choice(quads)
        k = rq.choice([0, 2])
        V0 = np.array(V0, float)
        mid = (V0[f[(k + 1) % 4]] + V0[f[(k + 3) % 4]]) / 2
        V0[f[k]] = mid + 0.4 * (V0[f[(k + 2) % 4]] - mid)
        ctx.cls("surface:quad_with_reflex_corner")
    ops = []
    for _ in range(desc["nops"]):
        name = rng.choice(SURF_OPS)
        ops.append([name, rng.randrange(10 ** 6)])
    # keep the refined mesh small enough for the full connectivity script: replace late growth steps by local ones
    limit = desc.get("max_faces", 900)
    while len(_expected_surface_counts(len(V0), len(topo.edges_of(F0)), [len(f) for f in F0], ops, None)[2]) > limit:
        idx = [i for i, o in enumerate(ops) if o[0] in ("loop", "3quads", "6", "loop2", "6x2")]
        if not idx:
            break
        ops[idx[-1]][0] = rng.choice(["split_face_as_fan", "triangulate_face", "triangulate"])
    nontri = any(len(f) != 3 for f in F0)
    ctx.cls("surface:" + ("tri" if not nontri else "poly"))
    for op in ops:
        ctx.cls("op:" + op[0])
    ctx.cls("prequery:%s" % desc["prequery"])
    if nontri or len(ops) >= 2:
        ctx.nontrivial(stable_hash([len(V0), F0, ops, desc["prequery"]]))
    irows = ["list", "tuple", "nprow", "npint"][desc["seed"] % 4]
    ctx.cls("rows:" + irows)
    ok, m = ctx.call("build", build.surface, V0, F0, "list", irows, monitor="result")
    ref0 = RefSurface(len(V0), F0)
    P0 = surfconn.probes(ref0, random.Random(1))
    S0 = surfconn.script(P0)
    if desc["prequery"]:
        surfconn.run_script(ctx, m, S0, list(range(len(S0))), monitor="prequery")
    snap0 = _snap_surface(m)
    E0 = len(snap0["E"])
    site = "+".join(op[0] for op in ops)
    ok, r = ctx.call("surface_block", _apply_surface_ops, ctx, m, ops, monitor="result")
    # ---- result validity
    Vr = build.vertices_array(r)
    Fr = build.faces_list(r)
    Er = build.edges_list(r)
    ctx.obs("result", "valid")
    ar = topo.analyse(len(Vr), Fr)
    if not (ar["manifold"] and ar["oriented"]) and _quad_diagonal_is_an_edge(F0):
        # a quad of a very small mesh (a 3 x 3 torus of quads) whose splitting diagonal already joins two vertices of the mesh: no
        # triangulation of that quad without a new vertex gives a manifold, so the mesh is outside what the operation can be asked for
        ctx.note("result_not_judged(quad_whose_diagonal_is_already_an_edge)")
        return
    if not (ar["valid_indices"] and ar["manifold"] and ar["oriented"] and ar["unused_vertices"] == 0 and ar["repeated_faces"] == 0):
        ctx.violation("result", "surface_block", "invalid_mesh", "result is not a valid oriented manifold mesh (ops %s)" % site, analysis={k: ar[k] for k in ("valid_indices", "manifold", "oriented", "unused_vertices", "repeated_faces")})
        return
    ctx.check(type(r).__name__ == "SurfaceMesh", "result", "class", "wrong_class", "result is not a SurfaceMesh", got=type(r).__name__)
    same_topo = (ar["chi"] == a0["chi"] and len(ar["border_loops"]) == len(a0["border_loops"]) and ar["n_components"] == a0["n_components"])
    ctx.check(same_topo, "result", "topology", "topology_changed", "Euler characteristic / border loops / components differ from the input",
              chi=(a0["chi"], ar["chi"]), loops=(len(a0["border_loops"]), len(ar["border_loops"])), comps=(a0["n_components"], ar["n_components"]), ops=site)
    A0, Ar = _area(V0, F0), _area(Vr, Fr)
    planar_faces = all(len(f) == 3 for f in F0)
    if planar_faces:  # area of a non-planar polygon depends on its triangulation: judged on triangle inputs only
        ctx.check(abs(A0 - Ar) <= 1e-10 * max(A0, 1e-300), "result", "area", "area_changed", "total area differs from the input", before=A0, after=Ar, ops=site)
    ctx.check(sorted(Er) == sorted(topo.edges_of(Fr)), "result", "edges", "edge_list_not_face_sides", "result edge list is not exactly the sides of its faces",
              n=len(Er), want=len(topo.edges_of(Fr)))
    # ---- documented counts
    eV, eE, ear = _expected_surface_counts(len(V0), E0, [len(f) for f in F0], ops, None)
    ctx.check((len(Vr), len(Er), len(Fr)) == (eV, eE, len(ear)) and sorted(len(f) for f in Fr) == sorted(ear), "counts", "block", "wrong_element_counts",
              "element counts are not the documented functions of the input counts", got=[len(Vr), len(Er), len(Fr)], want=[eV, eE, len(ear)])
    ctx.check(len(Vr) >= len(V0) and np.array_equal(Vr[:len(V0)], np.asarray(V0, float)), "result", "original_vertices", "original_vertices_moved",
              "original vertices are not all in place in the result")
    # ---- connectivity answers of the result describe the refined mesh
    refr = RefSurface(len(Vr), Fr)
    Pr = surfconn.probes(refr, random.Random(2))
    Sr = surfconn.script(Pr)
    Tr = surfconn.run_script(ctx, r, Sr, list(range(len(Sr))), monitor="result_conn")
    fc = [(int(r.face_corners.element(c)), int(r.face_corners.adj(c))) for c in range(len(r.face_corners))]
    surfconn.verify(ctx, Tr, refr, Er, Pr, True, monitor="result_conn", face_corners=fc)
    # ---- the input object: unchanged or equal to the result, never half-updated
    _input_object_surface(ctx, m, snap0, _snap_surface(r), site)
    # ---- new vertices at the centres (prefix re-runs)
    scale = float(np.ptp(np.asarray(V0, float))) + 1e-300
    base = {"V": np.asarray(V0, float), "E": sorted(topo.edges_of(F0)), "F": F0}
    for k, op in enumerate(ops):
        pre = ops[:k]
        if op[0] in ("loop2", "6x2"):
            break  # repeated refinements: counts / topology / area / connectivity are judged, new-vertex location is judged on the single steps
        needs_tri = op[0] in ("loop", "3quads", "6")
        try:
            if pre or needs_tri:
                ok, mk = ctx.call("build", build.surface, V0, F0, "list", irows, monitor="newverts")
                ok, bk = ctx.call("surface_block_prefix", _apply_surface_ops, ctx, mk, pre + ([["triangulate", 0]] if needs_tri else []), monitor="newverts")
                base = {"V": build.vertices_array(bk), "E": build.edges_list(bk), "F": build.faces_list(bk)}
            ok, mk = ctx.call("build", build.surface, V0, F0, "list", irows, monitor="newverts")
            ok, rk = ctx.call("surface_block_prefix", _apply_surface_ops, ctx, mk, ops[:k + 1], monitor="newverts")
        except CaseAbort:
            break
        _match_new_vertices(ctx, op[0], base, build.vertices_array(rk), scale)
        base = {"V": build.vertices_array(rk), "E": build.edges_list(rk), "F": build.faces_list(rk)}
    if len(F0) <= 4:
        ctx.sample({"input_faces": F0, "operations": [o[0] for o in ops], "result_counts": [len(Vr), len(Er), len(Fr)], "prequery": desc["prequery"]})


def _quad_diagonal_is_an_edge(F):
    """True when some quad [A, B, C, D] of the face list has a diagonal (either one) that is already an edge of the mesh, or that is also a
    diagonal of another quad (once the first quad is split, it is an edge): on such very small meshes (a 3 x 3 torus of quads) splitting the
    quads along diagonals cannot give a manifold."""
    E = {(min(f[k], f[(k + 1) % len(f)]), max(f[k], f[(k + 1) % len(f)])) for f in F for k in range(len(f))}
    seen = set()
    for f in F:
        if len(f) != 4:
            continue
        for d in ((min(f[1], f[3]), max(f[1], f[3])), (min(f[0], f[2]), max(f[0], f[2]))):
            if d in E or d in seen:
                return True
        seen.update([(min(f[1], f[3]), max(f[1], f[3])), (min(f[0], f[2]), max(f[0], f[2]))])
    return False


def _input_object_surface(ctx, m, snap0, snapr, site):
    ctx.obs("input_state", "block")
    try:
        now = _snap_surface(m)
    except Exception as e:
        ctx.violation("input_state", "block", "input_unreadable", "containers of the input object cannot be read after the block: %s" % type(e).__name__)
        return
    if now == snap0:
        state = "unchanged"
    elif now == snapr:
        state = "equal_to_result"
    else:
        diff = [k for k in now if now[k] != snap0[k]]
        same_as_r = [k for k in now if now[k] == snapr[k]]
        ctx.violation("input_state", "surface_block", "half_updated", "the mesh object passed in is neither unchanged nor equal to the result after the editing block",
                      differs_from_before=diff, equal_to_result=same_as_r, ops=site)
        return
    ctx.note("input_" + state)
    # its connectivity answers must describe its current containers
    F = now["F"]
    an = topo.analyse(len(now["V"]), F)
    if not (an["manifold"] and an["oriented"]):
        # (only reachable through a quad whose diagonal was already an edge, see the result check; connectivity of a non-manifold is not judged)
        ctx.note("input_connectivity_not_judged(containers_are_not_an_oriented_manifold)")
        return
    ref = RefSurface(len(now["V"]), F)
    P = surfconn.probes(ref, random.Random(3))
    S = surfconn.script(P)
    order = list(range(len(S)))
    random.Random(len(now["E"]) * 31 + len(S)).shuffle(order)  # any accessor may be the first one asked after the block
    T = surfconn.run_script(ctx, m, S, order, monitor="input_conn")
    fc = list(zip(now["FC"][0], now["FC"][1]))
    surfconn.verify(ctx, T, ref, now["E"], P, True, monitor="input_conn", face_corners=fc)


# ----------------------------------------------------------------------------- volume case
def _volume_case(desc, ctx, rng):
    z = volumes.make(rng.randrange(2 ** 31), max_size=2)
    V0, C0 = z["V"], z["C"]
    unit = [1.0, 1.0, 1e-5, 1.0, 1e-7, 1e4][desc["seed"] % 6]
    if unit != 1.0:
        # the same mesh in very small / large units: counts and incidences have no unit, positions are judged relative to the mesh size
        V0 = np.asarray(V0, float) * unit
        ctx.cls("units:%g" % unit)
    ops = []
    for _ in range(desc["nops"]):
        ops.append([rng.choice(["cell_fan", "face_center"]), rng.randrange(10 ** 6)])
    ctx.cls("volume")
    for op in ops:
        ctx.cls("op:" + op[0])
    if len(ops) >= 2:
        ctx.nontrivial(stable_hash([len(V0), C0, ops, desc["prequery"]]))
    else:
        ctx.nontrivial(stable_hash([len(V0), C0, ops, desc["prequery"], "vol"]))
    irows = ["list", "tuple", "nprow", "npint"][desc["seed"] % 4]
    ctx.cls("rows:" + irows)
    ok, m = ctx.call("build", build.volume, V0, C0, "list", irows, monitor="result")
    ref0 = RefVolume(len(V0), C0)
    if desc["prequery"]:
        P0 = volconn.probes(ref0, random.Random(1))
        S0 = volconn.script(P0, ref0)
        for name, fn in S0:
            ctx.call(name, fn, m, monitor="prequery", abort=False)
        if desc["seed"] % 2 == 0:
            ctx.cls("prequery:boundary_connectivity")
            ctx.call("enable_boundary_connectivity", m.enable_boundary_connectivity, monitor="prequery", abort=False)
    snap0 = _snap_volume(m)
    faces0 = [tri(*f) for f in snap0["F"]]
    # expected counts
    eV, eC = len(V0), len(C0)
    simple = True
    for op in ops:
        if op[0] == "cell_fan":
            eV += 1
            eC += 3
        else:
            simple = False
    site = "+".join(op[0] for op in ops)
    n_face_ops = sum(1 for op in ops if op[0] == "face_center")
    if n_face_ops == 1 and ops[0][0] == "face_center":
        t = faces0[ops[0][1] % len(faces0)]
        eV += 1
        eC += 2 * len(ref0.face_cells[t])
        simple = True
    ok, r = ctx.call("volume_block", _apply_volume_ops, ctx, m, ops, monitor="result")
    Vr, Cr = build.vertices_array(r), build.cells_list(r)
    ctx.obs("result", "valid")
    info = volumes.certify(Vr, Cr) if all(len(c) == 4 and all(0 <= v < len(Vr) for v in c) for c in Cr) else None
    if info is None:
        ctx.violation("result", "volume_block", "invalid_mesh_after_%s" % ("several_operations" if len(ops) > 1 else ops[0][0]), "result is not a conforming tetrahedral mesh with closed manifold boundary (or has unused vertices)", ops=site)
        return
    vol0, volr = _volume(V0, C0), _volume(Vr, Cr)
    ctx.check(abs(vol0 - volr) <= 1e-10 * vol0, "result", "volume", "volume_changed", "total volume differs from the input", before=vol0, after=volr, ops=site)
    refr = RefVolume(len(Vr), Cr)
    b0 = topo.analyse(len(V0), [list(t) for t in ref0.border_faces])
    br = topo.analyse(len(Vr), [list(t) for t in refr.border_faces])
    ncomp = lambda ref: len(set(graphs.components(len(ref.C), [(a, b) for a in range(len(ref.C)) for b in ref.cell_nbrs[a] if a < b])))  # noqa
    chi0 = len(V0) - len(ref0.edges) + len(ref0.faces) - len(C0)
    chir = len(Vr) - len(refr.edges) + len(refr.faces) - len(Cr)
    ctx.check(chi0 == chir and b0["n_components"] == br["n_components"] and ncomp(ref0) == ncomp(refr), "result", "topology", "topology_changed",
              "Euler characteristic / boundary components / cell components differ from the input", chi=(chi0, chir), ops=site)
    if simple:
        ctx.check((len(Vr), len(Cr)) == (eV, eC), "counts", "block", "wrong_element_counts", "vertex / cell counts are not the documented ones",
                  got=[len(Vr), len(Cr)], want=[eV, eC])
    ctx.check(len(Vr) >= len(V0) and np.array_equal(Vr[:len(V0)], np.asarray(V0, float)), "result", "original_vertices", "original_vertices_moved",
              "original vertices are not all in place in the result")
    # connectivity of the result
    Pr = volconn.probes(refr, random.Random(2))
    Sr = volconn.script(Pr, refr)
    Tr = {}
    for name, fn in Sr:
        ok, ans = ctx.call(name, fn, r, monitor="result_conn", abort=False)
        if ok:
            Tr[name] = ans
    volconn.verify(ctx, Tr, refr, build.faces_list(r), build.edges_list(r), Pr, True, monitor="result_conn")
    # input object
    ctx.obs("input_state", "block")
    try:
        now = _snap_volume(m)
        snapr = _snap_volume(r)
    except Exception as e:
        ctx.violation("input_state", "block", "input_unreadable", "containers of the input object cannot be read after the block: %s" % type(e).__name__)
        return
    if now != snap0 and now != snapr:
        ctx.violation("input_state", "volume_block", "half_updated", "the mesh object passed in is neither unchanged nor equal to the result after the editing block",
                      differs_from_before=[k for k in now if now[k] != snap0[k]], equal_to_result=[k for k in now if now[k] == snapr[k]], ops=site)
    else:
        ctx.note("input_" + ("unchanged" if now == snap0 else "equal_to_result"))
        refn = RefVolume(len(now["V"]), now["C"])
        Pn = volconn.probes(refn, random.Random(3))
        Sn = volconn.script(Pn, refn)
        Tn = {}
        Sn_order = list(Sn)
        random.Random(len(now["C"]) * 17 + len(Sn)).shuffle(Sn_order)
        for name, fn in Sn_order:
            ok, ans = ctx.call(name, fn, m, monitor="input_conn", abort=False)
            if ok:
                Tn[name] = ans
        volconn.verify(ctx, Tn, refn, now["F"], now["E"], Pn, True, monitor="input_conn")
        # the boundary surface answered by the input object describes its current cells (it may have been extracted before the block)
        # first as it is (either "not enabled" = None, or current), then after enabling it again
        for stage in ("as_left_by_the_block", "enabled_again"):
            if stage == "enabled_again":
                ok, _ = ctx.call("enable_boundary_connectivity", m.enable_boundary_connectivity, monitor="input_conn", abort=False)
                if not ok:
                    break
            bm = m.boundary_mesh
            if bm is None and stage == "as_left_by_the_block":
                continue
            ctx.obs("input_conn", "boundary_mesh")
            try:
                b2m = {int(k): int(v) for k, v in m.boundary_connectivity.b2m_vertex.items()}
                got = sorted(tri(*[b2m[int(v)] for v in f]) for f in bm.faces)
            except Exception as e:
                got = None
            if got != sorted(refn.border_faces):
                ctx.violation("input_conn", "boundary_mesh", "boundary_surface_does_not_describe_current_cells",
                              "after the editing block the boundary surface answered by the mesh object that was passed in is not the border of its current cells",
                              n=None if got is None else len(got), want=len(refn.border_faces), ops=site, stage=stage)
                break
    # new vertices
    scale = float(np.ptp(np.asarray(V0, float))) + 1e-300
    base = {"V": np.asarray(V0, float), "E": sorted(ref0.edges), "F": [list(t) for t in ref0.faces], "C": C0}
    for k, op in enumerate(ops):
        try:
            ok, mk = ctx.call("build", build.volume, V0, C0, "list", irows, monitor="newverts")
            ok, rk = ctx.call("volume_block_prefix", _apply_volume_ops, ctx, mk, ops[:k + 1], monitor="newverts")
        except CaseAbort:
            break
        _match_new_vertices(ctx, op[0], base, build.vertices_array(rk), scale)
        base = {"V": build.vertices_array(rk), "E": build.edges_list(rk), "F": build.faces_list(rk), "C": build.cells_list(rk)}
    if len(C0) <= 2:
        ctx.sample({"input_cells": C0, "operations": [o[0] for o in ops], "result_counts": [len(Vr), len(Cr)]})


# ----------------------------------------------------------------------------- polyline case
def _polyline_case(desc, ctx, rng):
    import mouette as M
    V0, E0, cls = graphs.make(rng.randrange(2 ** 31), max_n=15)
    ok, m = ctx.call("build", build.polyline, V0, E0, monitor="result")
    ctx.cls("polyline:" + cls)
    if desc["prequery"]:
        for v in range(len(V0)):
            ctx.call("vertex_to_vertices", m.connectivity.vertex_to_vertices, v, monitor="prequery", abort=False)
        ctx.call("edge_id", m.connectivity.edge_id, E0[0][0], E0[0][1], monitor="prequery", abort=False)
    V = [np.asarray(p, float) for p in V0]
    E = [tuple(e) for e in build.edges_list(m)]
    if desc["nops"] >= 2:
        ctx.nontrivial(stable_hash([len(V0), E0, desc["nops"], desc["seed"]]))
    for k in range(desc["nops"]):
        ei = rng.randrange(len(E))
        a, b = E[ei]
        if rng.random() < 0.3:
            ei -= len(E)  # the same edge designated by its negative index
        ok, r = ctx.call("split_edge", M.mesh.split_edge, m, ei, monitor="result")
        ctx.obs("result", "valid")
        ctx.obs("counts", "split_edge")
        ctx.obs("input_state", "split_edge")
        ctx.obs("newverts", "split_edge")
        tgt = r if r is not None else m
        try:
            Er = [tuple(int(x) for x in e) for e in tgt.edges]
            Vr = build.vertices_array(tgt)
        except Exception as e:
            ctx.violation("result", "split_edge", "invalid_mesh", "edges of the result are not vertex pairs: %s" % type(e).__name__)
            return
        if any(len(e) != 2 or not (0 <= e[0] < len(Vr)) or not (0 <= e[1] < len(Vr)) or e[0] == e[1] for e in Er):
            ctx.violation("result", "split_edge", "invalid_mesh", "an edge of the result is not a pair of distinct valid vertex indices",
                          bad=[e for e in Er if len(e) != 2][:3])
            return
        c = len(V)
        newE = set(E) - {(a, b)} | {(min(a, c), max(a, c)), (min(b, c), max(b, c))}
        ctx.check(len(Vr) == len(V) + 1 and len(Er) == len(E) + 1, "counts", "split_edge", "wrong_element_counts", "split_edge must add one vertex and one edge",
                  got=[len(Vr), len(Er)], want=[len(V) + 1, len(E) + 1])
        ctx.check({(min(e), max(e)) for e in Er} == newE, "result", "split_edge", "wrong_edges", "edges after split are not: the split edge replaced by its two halves")
        ctx.check(np.array_equal(Vr[:len(V)], np.array(V)) and len(Vr) == len(V) + 1 and np.allclose(Vr[-1], (V[a] + V[b]) / 2, rtol=0, atol=1e-15 + 1e-13 * np.abs(V[a]).max()),
                  "newverts", "split_edge", "new_vertex_not_at_centre", "the new vertex is not the midpoint of the split edge (or old vertices moved)")
        # the input object is the result (in place): its connectivity must describe the refined polyline
        nb = {}
        for (u, v) in newE:
            nb.setdefault(u, set()).add(v)
            nb.setdefault(v, set()).add(u)
        good = True
        for v in range(len(Vr)):
            ok, g = ctx.call("vertex_to_vertices", m.connectivity.vertex_to_vertices, v, monitor="result_conn", abort=False)
            ctx.obs("result_conn", "vertex_to_vertices")
            if not ok or sorted(int(x) for x in g) != sorted(nb.get(v, ())):
                good = False
        for (u, v) in newE:
            ok, g = ctx.call("edge_id", m.connectivity.edge_id, v, u, monitor="result_conn", abort=False)
            ctx.obs("result_conn", "edge_id")
            if not ok or g is None or tuple(sorted(Er[g])) != (u, v):
                good = False
        if not good:
            ctx.violation("result_conn", "split_edge", "stale_connectivity", "connectivity answers after split_edge do not describe the refined polyline")
        V = [np.asarray(p, float) for p in Vr]
        E = [(min(e), max(e)) for e in Er]
        m = tgt


def _ears_case(desc, ctx, rng):
    """split_double_boundary_edges_triangles: every face with a vertex that has only two incident edges (an 'ear') is fanned from its centre."""
    from mouette.mesh.subdivision import split_double_boundary_edges_triangles
    z = surfaces.make(rng.randrange(2 ** 31), max_size=desc["max_size"], tri_only=True)
    V0, F0 = [list(map(float, p)) for p in np.asarray(z["V"], float)], [list(f) for f in z["F"]]
    ref = RefSurface(len(V0), F0)
    # glue ear triangles onto some border edges (the new vertex has exactly two incident edges)
    border = sorted(ref.border_edges)
    rng.shuffle(border)
    used = set()
    n_ears = 0
    for (a, b) in border[:rng.randint(0, 4)]:
        if a in used or b in used:
            continue
        used.update((a, b))
        f = ref.direct_face(a, b)
        if f is None:
            a, b = b, a
            f = ref.direct_face(a, b)
        c = [v for v in F0[f] if v not in (a, b)][0]
        pa, pb, pc = (np.asarray(V0[v], float) for v in (a, b, c))
        apex = (pa + pb) / 2 + 0.7 * ((pa + pb) / 2 - pc) + rng.uniform(-0.1, 0.1) * (pb - pa)
        V0.append([float(x) for x in apex])
        F0.append([b, a, len(V0) - 1])
        n_ears += 1
    # further components made of one triangle, or of two triangles sharing a side (two or three vertices with only two incident edges in one face)
    for _ in range(rng.choice([0, 0, 1, 2])):
        o = np.array([20.0 + 5 * len(V0), rng.uniform(-1, 1), 0.0])
        b = len(V0)
        if rng.random() < 0.6:
            V0 += [[float(x) for x in o], [float(x) for x in o + [1, 0, 0.2]], [float(x) for x in o + [0.3, 1, 0]]]
            F0.append([b, b + 1, b + 2])
        else:
            V0 += [[float(x) for x in o], [float(x) for x in o + [1, 0, 0.2]], [float(x) for x in o + [1.2, 1, 0]], [float(x) for x in o + [0, 1.1, 0.1]]]
            F0 += [[b, b + 1, b + 2], [b, b + 2, b + 3]]
        n_ears += 1
    a0 = topo.analyse(len(V0), F0)
    if not (a0["manifold"] and a0["oriented"]):
        ctx.cls("ears:skipped_non_manifold_draw")
        return
    deg = {}
    for e in topo.edges_of(F0):
        for v in e:
            deg[v] = deg.get(v, 0) + 1
    ear_faces = [i for i, f in enumerate(F0) if any(deg[v] == 2 for v in f)]
    ctx.cls("ears:%s" % ("none" if not ear_faces else ("some" if len(ear_faces) < 3 else "many")))
    if ear_faces:
        ctx.nontrivial(stable_hash([len(V0), F0, "ears"]))
    irows = ["list", "tuple", "nprow", "npint"][desc["seed"] % 4]
    ok, m = ctx.call("build", build.surface, V0, F0, "list", irows, monitor="result")
    if desc["prequery"]:
        P0 = surfconn.probes(RefSurface(len(V0), F0), random.Random(1))
        S0 = surfconn.script(P0)
        surfconn.run_script(ctx, m, S0, list(range(len(S0))), monitor="prequery")
    snap0 = _snap_surface(m)
    ok, r = ctx.call("split_double_boundary_edges_triangles", split_double_boundary_edges_triangles, m, monitor="result")
    ctx.obs("result", "valid")
    if r is None:
        r = m
    Vr, Fr, Er = build.vertices_array(r), build.faces_list(r), build.edges_list(r)
    ar = topo.analyse(len(Vr), Fr)
    if not (ar["valid_indices"] and ar["manifold"] and ar["oriented"] and ar["unused_vertices"] == 0 and ar["repeated_faces"] == 0):
        ctx.violation("result", "split_ears", "invalid_mesh", "result is not a valid oriented manifold mesh")
        return
    same_topo = (ar["chi"] == a0["chi"] and len(ar["border_loops"]) == len(a0["border_loops"]) and ar["n_components"] == a0["n_components"])
    ctx.check(same_topo, "result", "topology", "topology_changed", "Euler characteristic / border loops / components differ from the input", ops="split_ears")
    A0, Ar = _area(np.asarray(V0, float), F0), _area(Vr, Fr)
    ctx.check(abs(A0 - Ar) <= 1e-10 * max(A0, 1e-300), "result", "area", "area_changed", "total area differs from the input", before=A0, after=Ar, ops="split_ears")
    ctx.check(sorted(Er) == sorted(topo.edges_of(Fr)), "result", "edges", "edge_list_not_face_sides", "result edge list is not exactly the sides of its faces")
    want = (len(V0) + len(ear_faces), len(topo.edges_of(F0)) + 3 * len(ear_faces), len(F0) + 2 * len(ear_faces))
    ctx.check((len(Vr), len(Er), len(Fr)) == want, "counts", "split_ears", "wrong_element_counts",
              "each face with a two-edge vertex must be fanned from its centre (+1 vertex, +3 edges, +2 faces per such face), the others left alone",
              got=[len(Vr), len(Er), len(Fr)], want=list(want), ear_faces=len(ear_faces))
    degr = {}
    for e in topo.edges_of(Fr):
        for v in e:
            degr[v] = degr.get(v, 0) + 1
    ctx.check(not any(degr[v] == 2 for f in Fr for v in f), "result", "split_ears", "a_vertex_with_two_edges_remains",
              "after the operation a face still has a vertex with only two incident edges")
    _match_new_vertices(ctx, "split_ears", {"V": np.asarray(V0, float), "E": [], "F": [F0[i] for i in ear_faces]}, Vr, float(np.ptp(np.asarray(V0, float))) + 1e-300)
    refr = RefSurface(len(Vr), Fr)
    Pr = surfconn.probes(refr, random.Random(2))
    Sr = surfconn.script(Pr)
    Tr = surfconn.run_script(ctx, r, Sr, list(range(len(Sr))), monitor="result_conn")
    fc = [(int(r.face_corners.element(c)), int(r.face_corners.adj(c))) for c in range(len(r.face_corners))]
    surfconn.verify(ctx, Tr, refr, Er, Pr, True, monitor="result_conn", face_corners=fc)
    _input_object_surface(ctx, m, snap0, _snap_surface(r), "split_ears")


def _error_in_block_case(desc, ctx, rng):
    """An operation inside an editing block is asked for an element that does not exist and raises; the exception leaves the block.  The mesh
    object that was passed in must then be unchanged or equal to the result of the operations that did succeed - never half-updated - and its
    connectivity answers must describe its current containers."""
    import mouette as M
    volume = desc["seed"] % 3 == 0
    n_ok = (desc["seed"] // 3) % 3 if not volume else (desc["seed"] // 3) % 2
    if volume:
        z = volumes.make(rng.randrange(2 ** 31), max_size=1)
        V0, C0 = z["V"], z["C"]
        ok, m = ctx.call("build", build.volume, V0, C0, monitor="result")
        ok_ops = [[rng.choice(["cell_fan", "face_center"]), rng.randrange(10 ** 6)] for _ in range(n_ok)]
        ctx.cls("error_in_block:volume:%d_ops_before" % n_ok)
    else:
        z = surfaces.make(rng.randrange(2 ** 31), max_size=desc["max_size"])
        V0, F0 = z["V"], z["F"]
        ok, m = ctx.call("build", build.surface, V0, F0, monitor="result")
        ok_ops = [[rng.choice(["triangulate_face", "split_face_as_fan", "triangulate"]), rng.randrange(10 ** 6)] for _ in range(n_ok)]
        ctx.cls("error_in_block:surface:%d_ops_before" % n_ok)
    ctx.nontrivial(stable_hash(["error_in_block", volume, n_ok, desc["seed"]]))
    if desc["prequery"]:
        if volume:
            ref0 = RefVolume(len(V0), C0)
            for name, fn in volconn.script(volconn.probes(ref0, random.Random(1)), ref0):
                ctx.call(name, fn, m, monitor="prequery", abort=False)
        else:
            S0 = surfconn.script(surfconn.probes(RefSurface(len(V0), F0), random.Random(1)))
            surfconn.run_script(ctx, m, S0, list(range(len(S0))), monitor="prequery")
    snap0 = _snap_volume(m) if volume else _snap_surface(m)
    # what the successful operations alone give, on another object
    if volume:
        ok, mp = ctx.call("build", build.volume, V0, C0, monitor="result")
        ok, rp = ctx.call("volume_block_prefix", _apply_volume_ops, ctx, mp, ok_ops, monitor="result")
        snapr = _snap_volume(rp)
    else:
        ok, mp = ctx.call("build", build.surface, V0, F0, monitor="result")
        ok, rp = ctx.call("surface_block_prefix", _apply_surface_ops, ctx, mp, ok_ops, monitor="result")
        snapr = _snap_surface(rp)
    raised = None
    try:
        if volume:
            with M.mesh.VolumeSubdivision(m) as ed:
                for op in ok_ops:
                    if op[0] == "cell_fan":
                        ed.split_cell_as_fan(op[1] % len(ed.mesh.cells))
                    else:
                        ed.split_tet_from_face_center(op[1] % len(ed.mesh.faces))
                if desc["seed"] % 2:
                    ed.split_cell_as_fan(len(ed.mesh.cells) + 5)
                else:
                    ed.split_tet_from_face_center(len(ed.mesh.faces) + 5)
        else:
            with M.mesh.SurfaceSubdivision(m) as ed:
                for op in ok_ops:
                    if op[0] == "triangulate":
                        ed.triangulate()
                    elif op[0] == "triangulate_face":
                        ed.triangulate_face(op[1] % len(ed.mesh.faces))
                    else:
                        ed.split_face_as_fan(op[1] % len(ed.mesh.faces))
                if desc["seed"] % 2:
                    ed.split_face_as_fan(len(ed.mesh.faces) + 5)
                else:
                    ed.triangulate_face(len(ed.mesh.faces) + 5)
    except Exception as e:
        raised = type(e).__name__
    if raised is None:
        ctx.note("error_in_block:invalid_element_index_accepted")
        return
    ctx.note("error_in_block:raised_" + raised)
    ctx.obs("input_state", "error_in_block")
    if volume:
        try:
            now = _snap_volume(m)
        except Exception as e:
            ctx.violation("input_state", "error_in_block", "input_unreadable", "containers of the input object cannot be read after a block left by an exception: %s" % type(e).__name__)
            return
        if now != snap0 and now != snapr:
            ctx.violation("input_state", "volume_block", "half_updated_after_exception", "after an editing block left by an exception the mesh object passed in is neither unchanged nor "
                          "equal to the result of the operations that succeeded", differs_from_before=[k for k in now if now[k] != snap0[k]], equal_to_prefix_result=[k for k in now if now[k] == snapr[k]])
            return
        refn = RefVolume(len(now["V"]), now["C"])
        Pn = volconn.probes(refn, random.Random(3))
        Tn = {}
        for name, fn in volconn.script(Pn, refn):
            ok, ans = ctx.call(name, fn, m, monitor="input_conn", abort=False)
            if ok:
                Tn[name] = ans
        volconn.verify(ctx, Tn, refn, now["F"], now["E"], Pn, True, monitor="input_conn")
    else:
        _input_object_surface(ctx, m, snap0, snapr, "error_in_block")


def run_case(desc, ctx):
    rng = random.Random(desc["seed"])
    if desc["gen"] == "error_in_block":
        _error_in_block_case(desc, ctx, rng)
    elif desc["gen"] == "ears":
        _ears_case(desc, ctx, rng)
    elif desc["gen"] == "surface":
        _surface_case(desc, ctx, rng)
    elif desc["gen"] == "volume":
        _volume_case(desc, ctx, rng)
    else:
        _polyline_case(desc, ctx, rng)
