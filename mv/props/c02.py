"""C02 - mesh construction normalises raw data, whatever its form.

Shape: reference-model differential monitor (expected containers computed from the raw input) + idempotence history
(build again from the built mesh) + container-type independence (same query script on list/tuple/numpy-row inputs)."""
import os
import random
import shutil
import tempfile

import numpy as np

from .. import build, surfconn, volconn
from ..ref.surface_ref import RefSurface
from ..ref.volume_ref import RefVolume
from ..zoo import surfaces, volumes
from ..ctx import stable_hash

ID = "C02"
RULE = ("raw inputs assembled from zoo meshes (point clouds, polylines, polygon surfaces of arity 3-7, tetrahedral and hexahedral blocks, "
        "cells plus explicitly given faces) with declared edges (face sides and chords, given high-first), invalid edges (self-loops, "
        "out-of-range, negative) and edge attributes (sparse/dense x bool/int/float x arity 1/3, unique payload per declared edge); "
        "three construction routes (raw containers, from_arrays, file) x index rows as list/tuple/numpy row/numpy ints; completion "
        "switches on/off; non-trivial = at least one declared edge and one invalid element, or a cell mesh; distinct = input hash"
        "; variants: padded faces, flat inputs as 1-/2-column arrays through from_arrays, caller-created hard_edges attribute, rejected first construction then retry, early reads of the raw container, file read as raw data then extended")
REQUIRED = {"norm": 3000, "idem": 200, "rows": 100, "corners": 300}
CASE_TIMEOUT = {"quick": 30.0, "thorough": 600.0}
ASSUMPTIONS = ["a construction retried after a rejected first attempt is judged only when the rejected (malformed) edge row was not a side of a face",
               "declared edges are pairwise distinct as unordered pairs (the statement does not say what a twice-declared edge becomes)",
               "edge order and integer types (int vs numpy.int64) are not compared, only values",
               "2-column vertex arrays are fed through from_arrays only (the documented padding route)"]

HEX_FACES = [(0, 1, 2, 3), (4, 5, 6, 7), (0, 3, 7, 4), (0, 1, 5, 4), (1, 2, 6, 5), (2, 3, 7, 6)]


def cases(seed, tier):
    rng = random.Random(seed * 15485863 + 5)
    n = 500 if tier == "quick" else 60000
    kinds = ["surface", "surface", "surface", "tets", "tets", "hexes", "polyline", "points", "cells_plus_faces", "mixed_cells"]
    out = []
    for i in range(n):
        out.append({"gen": "raw", "kind": kinds[i % len(kinds)], "seed": rng.randrange(2 ** 31), "route": ["raw", "raw", "from_arrays", "file"][(i // 10) % 4],
                    "irows": ["list", "tuple", "nprow", "npint"][(i // 3) % 4], "vrows": ["list", "tuple", "nprow", "vec"][(i // 7) % 4],
                    "complete_edges": (i % 11) != 10, "complete_faces": (i % 13) != 12, "max_size": 4 if tier == "quick" else 6})
    return out


# ----------------------------------------------------------------------------- input assembly
def _assemble(desc):
    rng = random.Random(desc["seed"])
    kind = desc["kind"]
    V = E = None
    F, C = [], []
    padded = False
    if kind == "surface":
        z = surfaces.make(rng.randrange(2 ** 31), max_size=desc["max_size"])
        V, F = z["V"], z["F"]
        if desc["seed"] % 6 == 4:
            # triangles padded to quads by repeating a vertex ([a, b, c, c], as some exporters write them): the repeated pair is a self-loop,
            # not a side of the face
            padded = True
            F = [list(f) for f in F]
            for f in rng.sample(F, min(len(F), rng.randint(1, 3))):
                if len(f) == 3:
                    k = rng.randrange(3)
                    f.insert(k + 1, f[k])
    elif kind == "tets":
        z = volumes.make(rng.randrange(2 ** 31), max_size=2)
        V, C = z["V"], z["C"]
    elif kind == "hexes":
        V, C = volumes.hex_block(volumes.random_cubes(rng, rng.randint(1, 5)))
    elif kind == "mixed_cells":
        V1, C1 = volumes.hex_block(volumes.random_cubes(rng, rng.randint(1, 3)))
        z = volumes.make(rng.randrange(2 ** 31), max_size=2)
        V = np.vstack([V1, z["V"] + np.array([20.0, 0, 0])])
        C = C1 + [[v + len(V1) for v in c] for c in z["C"]]
    elif kind == "cells_plus_faces":
        z = volumes.make(rng.randrange(2 ** 31), max_size=2)
        V, C = z["V"], z["C"]
        allf = sorted(volumes.boundary_faces(C))
        rng.shuffle(allf)
        F = [list(f) for f in allf[:rng.randint(1, max(1, len(allf) // 3))]]
        F = [f if rng.random() < 0.5 else [f[1], f[2], f[0]] for f in F]
    elif kind == "polyline":
        n = rng.randint(2, 30)
        V = np.array([[rng.uniform(-1, 1) for _ in range(3)] for _ in range(n)])
        pairs = [(i, i + 1) for i in range(n - 1)]
        if rng.random() < 0.5 and n > 2:
            pairs.append((n - 1, 0))
        E0 = pairs
    else:
        n = rng.randint(1, 30)
        V = np.array([[rng.uniform(-1, 1) for _ in range(3)] for _ in range(n)])
    if desc.get("route") == "from_arrays" and not C and desc["seed"] % 3 != 1:
        # flat data: the caller gives (x, y) only - or x only - and from_arrays pads the missing coordinates with zeros
        V = np.array(V, float)
        V[:, 2] = 0.0
        if kind in ("polyline", "points") and desc["seed"] % 2 == 0:
            V[:, 1] = 0.0
    nV = len(V)
    # declared edges
    sides = set()
    for f in F:
        for k in range(len(f)):
            if f[k] != f[(k + 1) % len(f)]:
                sides.add((min(f[k], f[(k + 1) % len(f)]), max(f[k], f[(k + 1) % len(f)])))
    declared = []
    if kind == "polyline":
        declared = list(E0)
    elif kind != "points" and rng.random() < 0.75:
        pool = sorted(sides)
        rng.shuffle(pool)
        declared = pool[:rng.randint(0, min(len(pool), 6))]
        for _ in range(rng.randint(0, 3)):  # chords / edges that are not face sides
            a, b = rng.randrange(nV), rng.randrange(nV)
            if a != b and (min(a, b), max(a, b)) not in set(declared):
                declared.append((min(a, b), max(a, b)))
    declared = list(dict.fromkeys(declared))
    rows = []  # (a, b, valid, payload index)
    for i, (a, b) in enumerate(declared):
        rows.append([b, a] if rng.random() < 0.5 else [a, b])
    n_valid = len(rows)
    invalid = []
    if kind != "points" and rng.random() < 0.6:
        for _ in range(rng.randint(1, 3)):
            r = rng.randrange(4)
            v = rng.randrange(nV)
            invalid.append([[v, v], [nV, v], [v, nV + 3], [-1, v]][r])
    if kind == "points" and desc["seed"] % 3 == 0:
        # a point set whose declared edges are all invalid (self-loops, out of range): nothing of dimension 1 survives, the result is a point cloud
        for _ in range(rng.randint(1, 3)):
            v = rng.randrange(nV)
            invalid.append([[v, v], [nV, v], [v, nV + 3], [-1, v]][rng.randrange(4)])
    allrows = [(r, True) for r in rows] + [(r, False) for r in invalid]
    rng.shuffle(allrows)
    # attributes
    attrs = []
    if allrows and rng.random() < 0.7:
        for j in range(rng.randint(1, 2)):
            a = {"name": "attr%d" % j, "type": rng.choice(["bool", "int", "float"]), "size": rng.choice([1, 1, 3]), "dense": rng.random() < 0.5}
            # entries written before construction: all of them, or a non-contiguous subset (the others must read the default afterwards)
            if rng.random() < 0.5:
                a["set"] = list(range(len(allrows)))
            else:
                a["set"] = sorted(rng.sample(range(len(allrows)), rng.randint(1, max(1, len(allrows) - 1))))
            if a["size"] == 1 and a["type"] != "bool" and rng.random() < 0.4:
                a["default"] = {"int": -7, "float": 2.25}[a["type"]]
            attrs.append(a)
    early = rng.choice([None, None, "after_vertices", "after_edges", "after_faces"])
    return {"V": V, "E": allrows, "F": [list(map(int, f)) for f in F], "C": [list(map(int, c)) for c in C], "attrs": attrs, "sides": sides, "early_read": early, "padded": padded}


def _payload(a, i):
    t = a["type"]
    if a["size"] == 1:
        return {"bool": True, "int": 1000 + i, "float": 0.5 + i}[t]
    return {"bool": [True, False, True], "int": [1000 + i, i, -i], "float": [0.5 + i, 1.5 * i, -2.0 - i]}[t]


def _pytype(t):
    return {"bool": bool, "int": int, "float": float}[t]


def _eq(a, b):
    try:
        return bool(np.all(np.asarray(a) == np.asarray(b)))
    except Exception:
        return False


# ----------------------------------------------------------------------------- construction routes
def _construct(ctx, inp, desc, irows, tmpdir):
    import mouette as M
    V, F, C = inp["V"], inp["F"], inp["C"]
    E = [r for r, _ in inp["E"]]
    route = desc["route"]
    regular = (len({len(f) for f in F}) <= 1) and (len({len(c) for c in C}) <= 1)
    if route == "from_arrays" and (not regular or inp["attrs"] or any(not ok for _, ok in inp["E"]) and any(min(r) < 0 or max(r) >= len(V) for r in E)):
        route = "raw"
    if route == "file" and (inp["attrs"] or any(not ok for _, ok in inp["E"]) or (F and C) or any(len(c) != 4 for c in C)):
        route = "raw"
    ctx.cls("route:" + route)
    if route == "raw":
        data = M.mesh.RawMeshData()
        early = inp.get("early_read")

        def peek(stage):
            # a caller may look at the raw container while filling it (history quantifier): the answers must not freeze the result
            if early == stage:
                ctx.cls("early_read:" + stage)
                _ = (data.dimensionality, len(data.id_vertices), len(data.id_edges), len(data.id_faces), len(data.id_cells))
        data.vertices += build.coords(V, desc["vrows"])
        peek("after_vertices")
        if E:
            data.edges += build.rows(E, irows)
            if desc["seed"] % 5 == 3:
                # the caller flags the declared edges as hard edges himself (the attribute the library would otherwise create): the sides of the
                # faces must still be completed
                ctx.cls("raw:caller_created_hard_edges_attribute")
                he = data.edges.create_attribute("hard_edges", bool)
                for i in range(len(E)):
                    he[i] = True
        peek("after_edges")
        if F:
            data.faces += build.rows(F, irows)
        peek("after_faces")
        if C:
            data.cells += build.rows(C, irows)
        for a in inp["attrs"]:
            kw = {"default_value": a["default"]} if "default" in a else {}
            at = data.edges.create_attribute(a["name"], _pytype(a["type"]), a["size"], dense=a["dense"], **kw)
            for i in a["set"]:
                at[i] = _payload(a, i)
        # history: the first construction attempt is rejected because one declared edge row has a typo (a third index); the caller corrects the row
        # in place and builds again from the same raw container.  Only rows that are not a side of a face / cell are used (for a side, the rejected
        # attempt has already completed the edge list with it, and what a retry should then do is not stated).
        if E and desc["seed"] % 4 == 2 and not C:
            sides = {(min(f[i], f[(i + 1) % len(f)]), max(f[i], f[(i + 1) % len(f)])) for f in F for i in range(len(f))}
            cand = [j for j, r in enumerate(E) if len(r) == 2 and (min(r), max(r)) not in sides]
            if cand:
                j = cand[desc["seed"] % len(cand)]
                good = data.edges[j]
                data.edges[j] = tuple(int(x) for x in E[j]) + (int(E[j][-1]),)
                try:
                    M.mesh.mesh._instanciate_raw_mesh_data(data)
                    ctx.note("typo_row_accepted_by_first_construction")
                except Exception as e:
                    ctx.cls("history:first_construction_rejected_then_row_corrected")
                    ctx.note("first_construction_rejected_with_" + type(e).__name__)
                data.edges[j] = good
        return M.mesh.mesh._instanciate_raw_mesh_data(data), route
    if route == "from_arrays":
        Va = np.array(V, float)
        planar = bool(np.all(Va[:, 2] == 0))
        if planar:
            ncol = 1 if bool(np.all(Va[:, 1] == 0)) else 2
            ctx.cls("from_arrays:vertex_array_with_%d_columns" % ncol)
            Va = Va[:, :ncol].copy()
        kw = {}
        if E:
            kw["E"] = np.array(E, dtype=np.int64)
        if F:
            kw["F"] = np.array(F, dtype=np.int64)
        if C:
            kw["C"] = np.array(C, dtype=np.int64)
        # an element kind that is absent may be given as an array with zero rows (what slicing or filtering an index array yields) instead of
        # being left out: the finished object depends on the elements present, not on which arguments were passed
        rz = random.Random(desc["seed"] ^ 0xe0)
        for name, width in (("E", 2), ("F", 3), ("C", 4)):
            if name not in kw and rz.random() < 0.4:
                kw[name] = np.zeros((0, width), dtype=np.int64)
                ctx.cls("from_arrays:zero_row_array_for_" + name)
        return M.mesh.from_arrays(Va, **kw), route
    # file route: minimal independent writers (obj for dim <= 2, medit for tets).  Variant: the file holds only part of the faces; it is read as raw
    # data (load(raw=True)), the caller appends the remaining faces to the raw container, and the mesh is built from that
    split = 0
    if not C and len(F) >= 2 and desc["seed"] % 3 != 1:
        split = max(1, len(F) // 3)
        ctx.cls("route:file_raw_then_append")
    if C:
        path = os.path.join(tmpdir, "in.mesh")
        with open(path, "w") as f:
            f.write("MeshVersionFormatted 2\nDimension 3\nVertices\n%d\n" % len(V))
            for p in V:
                f.write("%r %r %r 0\n" % (float(p[0]), float(p[1]), float(p[2])))
            if E:
                f.write("Edges\n%d\n" % len(E))
                for a, b in E:
                    f.write("%d %d 0\n" % (a + 1, b + 1))
            f.write("Tetrahedra\n%d\n" % len(C))
            for c in C:
                f.write("%d %d %d %d 0\n" % tuple(v + 1 for v in c))
            f.write("End\n")
    else:
        path = os.path.join(tmpdir, "in.obj")
        with open(path, "w") as f:
            for p in V:
                f.write("v %r %r %r\n" % (float(p[0]), float(p[1]), float(p[2])))
            for face in (F[:-split] if split else F):
                f.write("f " + " ".join(str(v + 1) for v in face) + "\n")
            for a, b in E:
                f.write("l %d %d\n" % (a + 1, b + 1))
    if split:
        data = M.mesh.load(path, raw=True)
        data.faces += build.rows(F[-split:], irows)
        return M.mesh.mesh._instanciate_raw_mesh_data(data), route
    # the optional `dim` argument of load is a lower bound on the class: a value not above the dimension of the data changes nothing
    real = 3 if C else (2 if F else (1 if E else 0))
    if desc["seed"] % 3 == 1:
        d_ = desc["seed"] % (real + 1)
        ctx.cls("route:file:dim_argument_%d_of_%d" % (d_, real))
        return M.mesh.load(path, d_) if desc["seed"] % 2 else M.mesh.load(path, dim=d_), route
    return M.mesh.load(path), route


# ----------------------------------------------------------------------------- snapshot of all containers
def _attr_snapshot(cont, n):
    out = {}
    for name in sorted(cont.attributes):
        at = cont.get_attribute(name)
        vals = []
        for i in range(n):
            try:
                v = at[i]
                vals.append(np.asarray(v).tolist())
            except Exception as e:
                vals.append("ERR:" + type(e).__name__)
        out[name] = [type(at).__name__, str(at.type), int(at.elemsize), vals]
    return out


def snapshot(m):
    s = {"class": type(m).__name__,
         "vertices": [np.asarray(p, float).tolist() for p in m.vertices],
         "vattr": _attr_snapshot(m.vertices, len(m.vertices))}
    if hasattr(m, "edges"):
        s["edges"] = [[int(x) for x in e] for e in m.edges]
        s["eattr"] = _attr_snapshot(m.edges, len(m.edges))
    if hasattr(m, "faces"):
        s["faces"] = [[int(x) for x in f] for f in m.faces]
        s["fattr"] = _attr_snapshot(m.faces, len(m.faces))
        s["face_corners"] = [[int(x) for x in m.face_corners._elem], [int(x) for x in m.face_corners._adj]]
    if hasattr(m, "cells"):
        s["cells"] = [[int(x) for x in c] for c in m.cells]
        s["cell_corners"] = [[int(x) for x in m.cell_corners._elem], [int(x) for x in m.cell_corners._adj]]
        s["cell_faces"] = [[int(x) for x in m.cell_faces._elem], [int(x) for x in m.cell_faces._adj]]
    return s


def _first_diff(a, b):
    for k in a:
        if k not in b:
            return k
        if a[k] != b[k]:
            if isinstance(a[k], dict):
                for kk in a[k]:
                    if a[k].get(kk) != b[k].get(kk):
                        return "%s.%s" % (k, kk)
            return k
    for k in b:
        if k not in a:
            return k
    return None


# ----------------------------------------------------------------------------- the normalisation oracle
def _check_norm(ctx, m, inp, desc, route):
    import mouette as M
    V, F, C = inp["V"], inp["F"], inp["C"]
    nV = len(V)
    ce, cf = desc["complete_edges"], desc["complete_faces"]
    # class
    dim = 3 if C else (2 if F else (1 if any(ok for _, ok in inp["E"]) else 0))  # dropped (invalid) edges are not "present"
    want_cls = ["PointCloud", "PolyLine", "SurfaceMesh", "VolumeMesh"][dim]
    ctx.check(type(m).__name__ == want_cls, "norm", "class", "wrong_class", "class does not match the highest-dimensional element present",
              got=type(m).__name__, want=want_cls)
    # vertices
    good = len(m.vertices) == nV
    if good:
        for i, p in enumerate(m.vertices):
            if not (isinstance(p, M.Vec) and np.shape(p) == (3,) and _eq(p, V[i])):
                good = False
                break
    ctx.check(good, "norm", "vertices", "vertices_not_3d_vec", "a vertex is not a 3-D Vec equal to the input coordinates")
    if dim == 0:
        return
    # expected faces
    exp_faces = [tuple(sorted(f)) for f in F]
    if C and cf:
        have = set(exp_faces)
        for c in C:
            if len(c) == 4:
                cand = [(c[1], c[3], c[2]), (c[0], c[2], c[3]), (c[3], c[1], c[0]), (c[0], c[1], c[2])]
            else:
                cand = [tuple(c[i] for i in hf) for hf in HEX_FACES]
            for t in cand:
                k = tuple(sorted(t))
                if k not in have:
                    have.add(k)
                    exp_faces.append(k)
    faces = [[int(x) for x in f] for f in m.faces] if hasattr(m, "faces") else []
    if dim >= 2:
        got = sorted(tuple(sorted(f)) for f in faces)
        ctx.check(got == sorted(exp_faces), "norm", "faces", "faces_not_completed_from_cells" if C else "faces_changed",
                  "face list is not the declared faces plus every cell face exactly once", n=len(faces), want=len(exp_faces))
        if C and cf:
            ar = sorted(len(f) for f in faces)
            war = sorted([len(f) for f in F if tuple(sorted(f)) in set(exp_faces)] + [3] * 0)
            ctx.obs("norm", "face_arity")
        # declared faces keep their vertex order
        ctx.check([list(f) for f in faces[:len(F)]] == [list(f) for f in F], "norm", "faces_order", "declared_faces_changed",
                  "declared faces are not kept in order with their vertex order")
    # expected edges
    valid = [(tuple(sorted(r)), i) for i, (r, ok) in enumerate(inp["E"]) if ok]
    exp_edges = [e for e, _ in valid]
    face_for_sides = faces if dim >= 2 else []
    if ce and face_for_sides:
        have = set(exp_edges)
        for f in face_for_sides:
            for k in range(len(f)):
                e = (min(f[k], f[(k + 1) % len(f)]), max(f[k], f[(k + 1) % len(f)]))
                if e[0] != e[1] and e not in have:  # a vertex repeated in a face gives a self-loop, which is dropped
                    have.add(e)
                    exp_edges.append(e)
    edges = [tuple(int(x) for x in e) for e in m.edges]
    ctx.check(all(len(e) == 2 and e[0] < e[1] for e in edges), "norm", "edges_canonical", "edge_not_low_first", "an edge is not stored low index first (or is a self-loop)",
              bad=[e for e in edges if not (len(e) == 2 and e[0] < e[1])][:5])
    ctx.check(all(0 <= v < nV for e in edges for v in e), "norm", "edges_range", "invalid_edge_survives", "an out-of-range edge survived construction")
    # stored edges behave the same whatever container the caller's rows were (hashable, comparable with a pair)
    same_behaviour = True
    try:
        for e_raw, e in zip(m.edges, edges):
            hash(e_raw)
            if not bool(e_raw == e):
                same_behaviour = False
                break
        _ = set(m.edges)
    except Exception:
        same_behaviour = False
    ctx.check(same_behaviour, "norm", "edges_rowtype", "stored_edge_behaves_differently_for_some_row_type",
              "a stored edge is not hashable / does not compare equal to its (low, high) pair: later use depends on the container type of the input rows",
              irows=desc["irows"], example_type=type(m.edges[0]).__name__ if len(m.edges) else None)
    ctx.check(sorted(edges) == sorted(exp_edges), "norm", "edges", "edge_list_mismatch",
              "edge list is not the declared valid edges plus every face side exactly once", n=len(edges), want=len(exp_edges),
              missing=sorted(set(exp_edges) - set(edges))[:5], extra=sorted(set(edges) - set(exp_edges))[:5])
    # attributes follow their edges
    index = {e: i for i, e in enumerate(edges)}
    for a in inp["attrs"]:
        ctx.obs("norm", "edge_attr")
        if not m.edges.has_attribute(a["name"]):
            ctx.violation("norm", "edge_attr", "attribute_lost", "an edge attribute disappeared during construction", name=a["name"])
            continue
        at = m.edges.get_attribute(a["name"])
        dflt = a.get("default", {"bool": False, "int": 0, "float": 0.0}[a["type"]])
        dflt = dflt if a["size"] == 1 else [dflt] * a["size"]
        was_set = set(a["set"])
        for e, i in valid:
            if e not in index:
                continue
            ok, v = ctx.call("edge_attr_read", at.__getitem__, index[e], monitor="norm", abort=False)
            if not ok:
                break
            want = _payload(a, i) if i in was_set else dflt
            if not _eq(v, want):
                ctx.violation("norm", "edge_attr", "surviving_edge_lost_its_value" if i in was_set else "unset_surviving_edge_does_not_read_default",
                              "a surviving declared edge does not keep its attribute value (or, never written, does not read the default)",
                              edge=e, got=np.asarray(v).tolist(), want=want, dense=a["dense"], type=a["type"], partially_set=len(was_set) < len(inp["E"]))
                break
        # edges that were not declared must read the default; dropped payloads must be gone
        if a["type"] != "bool":
            declared_set = {e for e, _ in valid}
            for e, idx in index.items():
                if e in declared_set:
                    continue
                ok, v = ctx.call("edge_attr_read", at.__getitem__, idx, monitor="norm", abort=False)
                if ok and not _eq(v, dflt):
                    ctx.violation("norm", "edge_attr", "value_moved_to_another_edge", "an attribute value ended up on an edge that was not declared",
                                  edge=e, got=np.asarray(v).tolist())
                    break
    # hard edges: only declared edges are flagged
    if m.edges.has_attribute("hard_edges"):
        ctx.obs("norm", "hard_edges")
        he = m.edges.get_attribute("hard_edges")
        declared_set = {e for e, _ in valid}
        flagged = [e for e, i in index.items() if bool(he[i])]
        wrong = [e for e in flagged if e not in declared_set]
        if wrong:
            ctx.violation("norm", "hard_edges", "undeclared_edge_flagged_hard", "an edge the caller did not declare is flagged as a hard edge",
                          n_wrong=len(wrong), n_declared=len(declared_set), example=wrong[:3])
    # corners
    if dim >= 2:
        want = [(v, fi) for fi, f in enumerate(faces) for v in f]
        ok, got = ctx.call("face_corners", lambda: [(int(m.face_corners.element(c)), int(m.face_corners.adj(c))) for c in range(len(m.face_corners))],
                           monitor="corners", abort=False)
        if ok:
            ctx.check(got == want, "corners", "face_corners", "wrong_corner_records", "face corner records are not the face-vertex incidences in element order",
                      n=len(got), want=len(want))
    if dim == 3:
        cells = [[int(x) for x in c] for c in m.cells]
        ctx.check(cells == [list(c) for c in C], "norm", "cells", "cells_changed", "cell list differs from the input")
        want = [(v, ci) for ci, c in enumerate(cells) for v in c]
        ok, got = ctx.call("cell_corners", lambda: [(int(m.cell_corners.element(c)), int(m.cell_corners.adj(c))) for c in range(len(m.cell_corners))],
                           monitor="corners", abort=False)
        if ok:
            ctx.check(got == want, "corners", "cell_corners", "wrong_corner_records", "cell corner records are not the cell-vertex incidences in element order",
                      n=len(got), want=len(want))
        if True:
            fidx = {}
            for i, f in enumerate(faces):
                fidx[tuple(sorted(f))] = i
            want = []
            for ci, c in enumerate(cells):
                if len(c) == 4:
                    cand = [(c[1], c[3], c[2]), (c[0], c[2], c[3]), (c[3], c[1], c[0]), (c[0], c[1], c[2])]
                else:
                    cand = [tuple(c[i] for i in hf) for hf in HEX_FACES]
                for t in cand:
                    if tuple(sorted(t)) in fidx:  # an incidence exists only for faces present (completion may be off)
                        want.append((fidx.get(tuple(sorted(t))), ci))
            n = len(m.cell_faces)
            ok, got = ctx.call("cell_faces", lambda: [(int(m.cell_faces.element(c)), int(m.cell_faces.adj(c))) for c in range(n)],
                               monitor="corners", abort=False)
            if not ok:
                ctx.violation("corners", "cell_faces", "owner_not_recorded", "cell_faces records cannot be read back (element and owner) for every cell-face incidence")
            else:
                ctx.check(got == want, "corners", "cell_faces", "wrong_corner_records",
                          "cell-face records are not the cell-face incidences in element order with their owner", n=len(got), want=len(want))


# ----------------------------------------------------------------------------- entry
def run_case(desc, ctx):
    import mouette as M
    inp = _assemble(desc)
    tmpdir = tempfile.mkdtemp(prefix="c02_")
    try:
        kind = desc["kind"]
        ctx.cls("kind:" + kind)
        ctx.cls("irows:" + desc["irows"])
        ctx.cls("switch:edges=%s,faces=%s" % (desc["complete_edges"], desc["complete_faces"]))
        n_invalid = sum(1 for _, ok in inp["E"] if not ok)
        n_decl = sum(1 for _, ok in inp["E"] if ok)
        if (n_decl >= 1 and n_invalid >= 1) or inp["C"]:
            ctx.nontrivial(stable_hash([len(inp["V"]), inp["E"], inp["F"], inp["C"], inp["attrs"], desc["route"], desc["irows"]]))
        if inp["attrs"]:
            ctx.cls("attr:%s" % ("+".join(sorted({("dense" if a["dense"] else "sparse") for a in inp["attrs"]}))))
        with build.config(complete_edges_from_faces=desc["complete_edges"], complete_faces_from_cells=desc["complete_faces"]):
            ok, (m, route) = ctx.call("construct", _construct, ctx, inp, desc, desc["irows"], tmpdir, monitor="norm")
            _check_norm(ctx, m, inp, desc, route)
            # ---- idempotence: building again from the built mesh changes nothing
            ok, s0 = ctx.call("snapshot", snapshot, m, monitor="idem")
            for how in ("rewrap", "instanciate", "save_wrap"):
                if how == "rewrap":
                    ok, m2 = ctx.call("rewrap", lambda: type(m)(M.mesh.RawMeshData(m)), monitor="idem")
                elif how == "instanciate":
                    ok, m2 = ctx.call("instanciate", lambda: M.mesh.mesh._instanciate_raw_mesh_data(M.mesh.RawMeshData(m)), monitor="idem")
                else:
                    ok, m2 = ctx.call("prepare_again", lambda: (M.mesh.RawMeshData(m).prepare(), m)[1], monitor="idem")
                ok, s1 = ctx.call("snapshot", snapshot, m2, monitor="idem")
                d = _first_diff(s0, s1)
                ctx.check(d is None, "idem", how, "rebuild_changes_" + str(d).split(".")[0] + ("." + d.split(".")[1] if d and "." in d and d.split(".")[1] == "hard_edges" else ""),
                          "building again from an already built mesh changed %s" % d, container=d)
                ok, s0b = ctx.call("snapshot", snapshot, m, monitor="idem")
                d = _first_diff(s0, s0b)
                ctx.check(d is None, "idem", how + "_source", "rebuild_changes_source_" + str(d).split(".")[0],
                          "building again from an already built mesh changed the source object's %s" % d, container=d)
                s0 = s0b if d is None else s0
        # ---- container-type independence of later behaviour (default switches)
        if kind in ("surface", "tets") and desc["route"] == "raw" and not inp.get("padded"):
            rng = random.Random(desc["seed"] ^ 77)
            if kind == "surface":
                ref = RefSurface(len(inp["V"]), inp["F"])
                P = surfconn.probes(ref, rng)
                S = surfconn.script(P)
            else:
                ref = RefVolume(len(inp["V"]), inp["C"])
                P = volconn.probes(ref, rng)
                S = volconn.script(P, ref)
            tables = {}
            for irows in ("list", desc["irows"] if desc["irows"] != "list" else "nprow"):
                if kind == "surface":
                    ok, mm = ctx.call("construct_" + irows, build.surface, inp["V"], inp["F"], "list", irows, monitor="rows")
                else:
                    ok, mm = ctx.call("construct_" + irows, build.volume, inp["V"], inp["C"], "list", irows, monitor="rows")
                tab = {}
                for name, fn in S:
                    ok, ans = ctx.call(name, fn, mm, monitor="rows_" + irows, abort=False)
                    if ok:
                        tab[name] = ans
                tables[irows] = tab
            (r0, t0), (r1, t1) = list(tables.items())
            for name, _ in S:
                ctx.obs("rows", name)
                if name in t0 and name in t1 and t0[name] != t1[name]:
                    ctx.violation("rows", name, "answer_depends_on_row_type", "%s answers differ between %s rows and %s rows" % (name, r0, r1))
                elif (name in t0) != (name in t1):
                    ctx.violation("rows", name, "success_depends_on_row_type", "%s succeeds with one row container type and fails with the other" % name,
                                  ok_with=[r for r, t in tables.items() if name in t])
        if len(inp["V"]) <= 8:
            ctx.sample({"kind": kind, "vertices": len(inp["V"]), "declared_edges(row,valid)": inp["E"], "faces": inp["F"], "cells": inp["C"],
                        "edge_attributes": inp["attrs"], "route": desc["route"], "rows": desc["irows"]})
    finally:
        shutil.rmtree(tmpdir, ignore_errors=True)
