"""C18 - surface frame fields are unit, border-aligned and topologically consistent.

Monitors (all on real executions of SurfaceFrameField):
  (a) unit modulus, with a hook on FrameField.normalize that records pre-normalisation magnitudes;
  (b) constraints kept by optimize(), and tangency of one branch to the single feature/border edge of a face;
  (c) singularity indices of the face-based field: quantised at interior vertices, summing to 4*chi;
  (d) harmonic extension: dense re-solve with the library's own connection Laplacian, Hermitian check, flat-connection reduction;
  (e) invariance of edge-relative branch angles under vertex renumbering and face rotation (harness-built copy)."""
import cmath
import math
import random

import numpy as np

from .. import build
from ..ref import topo
from ..ref.surface_ref import RefSurface
from ..zoo import surfaces
from ..ctx import stable_hash, CaseAbort
from .c15 import _hinge

ID = "C18"
RULE = ("triangulated zoo surfaces in generic position (lifted Delaunay disks, ragged disks, hinge strips with feature creases, annuli; closed spheres "
        "and tori) and exactly symmetric ones (regular grids); orders 1-6; elements vertices / faces; features on/off; n_smooth in {0,1,3} (explicit attach "
        "weight where invariance is judged); cotangent or uniform weights; non-trivial = order != 4 or features present or closed surface; "
        "distinct = (mesh, order, element kind, options) hash")
REQUIRED = {"unit": 100, "constraints": 60, "singularities": 30, "harmonic": 40, "hermitian": 40, "invariance": 30}
CASE_TIMEOUT = {"quick": 30.0, "thorough": 900.0}
ASSUMPTIONS = ["cad_correction is switched off: its OSQP call fails in this sandbox with the same OSQP.setup() TypeError as the 13 pre-existing baseline test failures",
               "closed surfaces use a randomly started eigen-iteration: only unit modulus and singularity sums are judged there",
               "invariance is judged with n_smooth = 0 or an explicit smooth_attach_weight (ARPACK's random start is otherwise in the picture), on elements whose "
               "pre-normalisation magnitude is >= 1e-6, as edge-relative branch angles in the field's own charts",
               "minimum triangle angle of generated meshes >= 4 degrees"]

_pre_norm = {"mags": None, "calls": 0}
_installed = False


def worker_init():
    global _installed
    if _installed:
        return
    from mouette.processing.framefield.base import FrameField
    orig = FrameField.normalize

    def normalize(self):
        if self.var is not None:
            _pre_norm["mags"] = np.abs(np.asarray(self.var)).copy()
            _pre_norm["calls"] += 1
        return orig(self)
    FrameField.normalize = normalize
    _installed = True


def cases(seed, tier):
    rng = random.Random(seed * 1103515245 % (2 ** 31) + 18)
    n = 130 if tier == "quick" else 10000
    out = [{"gen": "anchor_symmetric_grid", "seed": 1, "order": 2, "elements": "faces", "features": False, "n_smooth": 0, "cotan": True, "kind": "grid"},
           {"gen": "anchor_symmetric_grid", "seed": 2, "order": 6, "elements": "faces", "features": False, "n_smooth": 0, "cotan": True, "kind": "grid"}]
    out += [{"gen": "ff", "kind": "hinge", "seed": 1927690951, "order": 1, "elements": "vertices", "features": True, "n_smooth": 0, "cotan": False, "max_size": 4},
            {"gen": "ff", "kind": "disk", "seed": 2121862795, "order": 3, "elements": "faces", "features": False, "n_smooth": 1, "cotan": True, "max_size": 4, "keep_ears": True},
            {"gen": "ff", "kind": "hinge", "seed": 1741156018, "order": 4, "elements": "vertices", "features": True, "n_smooth": 1, "cotan": True, "max_size": 4},
            # crease ending on a straight border, order 2 (K-C18-5)
            {"gen": "ff", "kind": "hinge", "seed": 1197765174, "order": 2, "elements": "vertices", "features": True, "n_smooth": 0, "cotan": False, "max_size": 7, "keep_ears": False}]
    # the option axes are drawn independently (index arithmetic with the periods 8, 8, 2 used before tied the mesh kind to the order and to
    # the element type: symmetric grids, for instance, only ever met orders 3 and 4 on vertices); every (kind, order, elements) triple is
    # also visited systematically
    kinds = ["disk", "disk", "hinge", "closed", "annulus", "disk", "grid", "polar", "creased_closed"]
    triples = [(k, o, e) for k in sorted(set(kinds)) for o in (1, 2, 3, 4, 5, 6) for e in ("vertices", "faces")]
    rng.shuffle(triples)
    for i in range(n):
        if i < len(triples) or tier != "quick":
            kind, order, elements = triples[i % len(triples)]
        else:
            kind, order, elements = rng.choice(kinds), rng.choice([4, 1, 2, 3, 4, 5, 6, 4]), rng.choice(["vertices", "faces"])
        out.append({"gen": "ff", "kind": kind, "seed": rng.randrange(2 ** 31), "order": order,
                    "elements": elements, "features": kind in ("hinge", "creased_closed") or rng.random() < 0.2,
                    "n_smooth": rng.choice([0, 0, 1, 3]), "cotan": rng.random() < 0.67, "max_size": 4 if tier == "quick" else 7, "keep_ears": rng.random() < 0.11})
    return out


def _mesh_for(desc, rng):
    kind = desc["kind"]
    if desc["gen"] == "anchor_symmetric_grid":
        n = 6
        V = np.array([[i / n, j / n, 0.0] for i in range(n + 1) for j in range(n + 1)])
        F = []
        for i in range(n):
            for j in range(n):
                a, b, c, d = i * (n + 1) + j, (i + 1) * (n + 1) + j, (i + 1) * (n + 1) + j + 1, i * (n + 1) + j + 1
                F += [[a, b, c], [a, c, d]]
        return V, F, "symmetric_grid"
    if kind == "creased_closed":
        # closed surface with sharp creases: a sheared box (its edges are feature edges, its corners feature vertices) or a capped prism
        if rng.random() < 0.5:
            V, Fq, _ = surfaces.cube_surface()
            F = []
            for q in Fq:
                F += [[q[0], q[1], q[2]], [q[0], q[2], q[3]]] if rng.random() < 0.5 else [[q[0], q[1], q[3]], [q[1], q[2], q[3]]]
            A = np.array([[1.0, rng.uniform(-0.3, 0.3), 0.0], [0.0, rng.uniform(0.8, 1.6), rng.uniform(-0.2, 0.2)], [0.0, 0.0, rng.uniform(0.7, 1.4)]])
            V = np.asarray(V, float) @ A.T
        else:
            k = rng.randint(5, 9)
            V = [[math.cos(2 * math.pi * i / k), math.sin(2 * math.pi * i / k) * 1.3, 0.0] for i in range(k)]
            V += [[math.cos(2 * math.pi * i / k) + 0.2, math.sin(2 * math.pi * i / k) * 1.3, 1.5] for i in range(k)]
            V += [[0.0, 0.0, 0.0], [0.2, 0.0, 1.5]]
            F = []
            for i in range(k):
                j = (i + 1) % k
                F += [[i, j, k + j], [i, k + j, k + i], [2 * k, j, i], [2 * k + 1, k + i, k + j]]
        for _ in range(rng.randint(1, 2)):
            V, F = surfaces.refine_midpoint(V, F, project=False)
        return np.asarray(V, float), [list(f) for f in F], "creased_closed"
    if kind == "hinge":
        V, F, crease = _hinge(rng, math.radians(rng.choice([75, 90, 110])), rng.randint(3, 6))
        # interior rows so that free elements exist: refine once with the reference refinement
        V, F = surfaces.refine_midpoint(V, F, project=False)
        V = surfaces.jitter(np.asarray(V, float), rng, 0.0)
        return np.asarray(V, float), [list(f) for f in F], "hinge"
    if kind == "polar":
        # regular polar disc, centre slightly off: the harmonic extension of the border frames decays like r^order towards the centre, so
        # pre-normalisation magnitudes get very small without vanishing
        nr, nt = rng.randint(5, 8), rng.choice([24, 32, 40])
        V = [[1e-3, 2e-3, 0.0]]
        for r in range(1, nr + 1):
            for t in range(nt):
                a_ = 2 * math.pi * t / nt
                V.append([r / nr * math.cos(a_), r / nr * math.sin(a_), 0.0])
        F = [[0, 1 + t, 1 + (t + 1) % nt] for t in range(nt)]
        for r in range(1, nr):
            for t in range(nt):
                a0, a1 = 1 + (r - 1) * nt + t, 1 + (r - 1) * nt + (t + 1) % nt
                b0, b1 = 1 + r * nt + t, 1 + r * nt + (t + 1) % nt
                F += [[a0, b0, b1], [a0, b1, a1]]
        return np.array(V, float), F, "polar_disc"
    if kind == "grid":
        z = surfaces.make(rng.randrange(2 ** 31), max_size=desc.get("max_size", 4) + 2, tri_only=True, classes=["grid_tri"], combinators=False, min_faces=18)
        return z["V"], z["F"], "regular_grid"
    classes = {"disk": ["delaunay", "delaunay", "delaunay_ragged"], "closed": ["sphere", "torus_tri", "sphere"], "annulus": ["annulus_tri", "grid_tri_holes"]}[kind]
    for attempt in range(30):
        z = surfaces.make(rng.randrange(2 ** 31), max_size=desc.get("max_size", 4) + 2, tri_only=True, classes=classes, connected=True, allow_union=False,
                          generic=(kind != "closed" or rng.random() < 0.7), min_faces=12)
        if kind == "closed" and not z["topo"]["closed"]:
            continue
        V = np.asarray(z["V"], float)
        Fz = z["F"]
        if kind == "disk" and not desc.get("keep_ears"):
            Vs, Fs = _strip_ears(V, Fz)
            if len(Fs) >= 10:
                V, Fz = Vs, Fs
        if _min_angle(V, Fz) >= math.radians(4):
            return V, Fz, z["cls"].split("~")[0]
    return V, Fz, z["cls"].split("~")[0]


def _strip_ears(V, F):
    """Removes triangles with two border edges until none is left (the library documents 'a triangle has only one edge on the boundary' as its working
    assumption for face-based fields; ears are kept in a share of the cases)."""
    F = [list(f) for f in F]
    for _ in range(200):
        cnt = {}
        for f in F:
            for k in range(3):
                e = (min(f[k], f[(k + 1) % 3]), max(f[k], f[(k + 1) % 3]))
                cnt[e] = cnt.get(e, 0) + 1
        ears = [i for i, f in enumerate(F) if sum(cnt[(min(f[k], f[(k + 1) % 3]), max(f[k], f[(k + 1) % 3]))] == 1 for k in range(3)) >= 2]
        if not ears or len(F) <= 4:
            break
        F.pop(ears[0])
    a = topo.analyse(len(V), F)
    if not topo.is_disk(dict(a, chi=len(a["used_vertices"]) - a["n_edges"] + len(F))):
        return V, []
    used = a["used_vertices"]
    mp = {v: i for i, v in enumerate(used)}
    return V[used].copy(), [[mp[v] for v in f] for f in F]


def _min_angle(V, F):
    m = 10.0
    for f in F:
        for k in range(3):
            a, b, c = V[f[k]], V[f[(k + 1) % 3]], V[f[(k + 2) % 3]]
            u, w = b - a, c - a
            m = min(m, math.atan2(np.linalg.norm(np.cross(u, w)), np.dot(u, w)))
    return m


def _make_ff(ctx, V, F, desc, monitor, attach=None):
    import mouette as M
    ok, m = ctx.call("build", build.surface, V, F, monitor=monitor)
    kw = dict(order=desc["order"], features=desc["features"], verbose=False, n_smooth=desc["n_smooth"], use_cotan=desc["cotan"], cad_correction=False)
    if attach is not None:
        kw["smooth_attach_weight"] = attach
    if desc["order"] == 4 and desc["seed"] % 3 == 0:
        del kw["order"]  # the documented default order (4) left to the library
    if desc["elements"] == "faces" and desc.get("kind") in ("grid", "polar") and desc["seed"] % 2 == 0:
        # a connection supplied by the caller (documented argument): on these planar meshes the flat connection, whose face bases are the
        # canonical axes and do not follow the border edges
        from mouette.processing.connection import FlatConnectionFaces
        ok, conn = ctx.call("FlatConnectionFaces", FlatConnectionFaces, m, monitor=monitor)
        kw["custom_connection"] = conn
        ctx.cls("connection:custom_flat")
    ok, ff = ctx.call("SurfaceFrameField[%s]" % desc["elements"], lambda: M.framefield.SurfaceFrameField(m, desc["elements"], **kw), monitor=monitor)
    return m, ff


def _branch_dirs(z, order):
    return [(cmath.phase(z) + 2 * math.pi * k) / order for k in range(order)]


def _circ(a, period):
    return (a + period / 2) % period - period / 2


def run_case(desc, ctx):
    import mouette as M
    worker_init()
    rng = random.Random(desc["seed"])
    V, F, cls = _mesh_for(desc, rng)
    V = np.asarray(V, float)
    a = topo.analyse(len(V), F)
    ref = RefSurface(len(V), F)
    order, elements = desc["order"], desc["elements"]
    closed = a["closed"]
    ctx.cls("mesh:" + cls)
    ctx.cls("order:%d" % order)
    ctx.cls("elements:" + elements)
    ctx.cls("features:%s" % desc["features"])
    ctx.cls("n_smooth:%d" % desc["n_smooth"])
    ctx.cls("weights:" + ("cotan" if desc["cotan"] else "uniform"))
    if order != 4 or desc["features"] or closed:
        ctx.nontrivial(stable_hash([len(V), F, order, elements, desc["features"], desc["n_smooth"], desc["cotan"]]))
    attach = None
    if desc["n_smooth"] > 0 and not closed:
        attach = _safe_attach_weight(ctx, V, F, desc)
    m, ff = _make_ff(ctx, V, F, desc, "unit", attach)
    ok, _ = ctx.call("initialize[%s]" % elements, ff.initialize, monitor="constraints")
    ff.initialized = True
    var0 = np.array(ff.var, dtype=complex).copy()
    edges = build.edges_list(m)
    try:
        feat_edges = {int(e) for e in ff.feat.feature_edges}
        feat_vertices = {int(v) for v in ff.feat.feature_vertices}
    except Exception as e:
        ctx.violation("constraints", "features", "malformed_feature_data", "feature data of the field cannot be read: %s" % type(e).__name__)
        return
    feat_pairs = {edges[e] for e in feat_edges if 0 <= e < len(edges)}
    n_el = len(V) if elements == "vertices" else len(F)
    if elements == "vertices":
        fixed = sorted(feat_vertices)
    else:
        fx = set()
        for e in feat_edges:
            u, v = edges[e]
            for t in (ref.direct_face(u, v), ref.direct_face(v, u)):
                if t is not None:
                    fx.add(t)
        fixed = sorted(fx)
    free = [i for i in range(n_el) if i not in set(fixed)]
    _pre_norm["mags"] = None
    calls0 = _pre_norm["calls"]
    ok, _ = ctx.call("optimize[%s]" % elements, ff.optimize, monitor="unit")
    var = np.array(ff.var, dtype=complex)
    pre = _pre_norm["mags"]
    # ---------------- (a) unit modulus
    ctx.obs("unit", elements, n_el)
    if var.shape != (n_el,) or not np.all(np.isfinite(var)):
        ctx.violation("unit", elements, "malformed_field", "the field does not have one finite complex value per element", shape=list(var.shape))
        return
    mod = np.abs(var)
    bad = np.where(np.abs(mod - 1) > 1e-9)[0]
    if len(bad):
        i = int(bad[0])
        never_constrained = (i in set(fixed)) and abs(var0[i]) < 1e-8
        vanished = pre is not None and len(pre) == len(var) and pre[i] <= 1e-10
        if never_constrained:
            mech = "constrained_element_has_zero_constraint" + ("_odd_order" if order % 2 == 1 else "")
        elif vanished:
            mech = "solved_field_vanishes_on_element"
        elif _pre_norm["calls"] == calls0:
            mech = "field_never_normalised"
        else:
            mech = "modulus_not_one"
        ctx.violation("unit", elements, mech, "an element of the computed field does not have unit modulus", element=i, modulus=float(mod[i]),
                      pre_normalisation_modulus=(float(pre[i]) if pre is not None and len(pre) == len(var) else None), n_bad=len(bad), order=order,
                      mesh=cls, closed=closed)
        if mech not in ("solved_field_vanishes_on_element", "constrained_element_has_zero_constraint_odd_order"):
            return
        # a second kind of defect must not hide behind the first one: look at the remaining bad elements too
        fixed_set = set(fixed)
        for j in bad:
            j = int(j)
            zc = (j in fixed_set) and abs(var0[j]) < 1e-8
            vn = pre is not None and len(pre) == len(var) and pre[j] <= 1e-10
            if not (zc or vn):
                ctx.violation("unit", elements, "modulus_not_one", "an element of the computed field does not have unit modulus", element=j, modulus=float(mod[j]))
                return
    # ---------------- (b) constraints kept
    if fixed:
        ctx.obs("constraints", "kept", len(fixed))
        chg = [i for i in fixed if abs(var0[i]) > 1e-8 and abs(var[i] - var0[i]) > 1e-9]
        if chg:
            ctx.violation("constraints", elements, "constrained_element_changed_by_optimize", "optimize() moved an element away from the value set by initialize()",
                          element=chg[0], before=var0[chg[0]], after=var[chg[0]])
            return
    if elements == "faces" and fixed:
        for t in fixed:
            fe = []
            f = F[t]
            for k in range(3):
                e = (min(f[k], f[(k + 1) % 3]), max(f[k], f[(k + 1) % 3]))
                if e in feat_pairs:
                    fe.append(e)
            if len(fe) != 1:
                continue
            ctx.obs("constraints", "tangent")
            X, Y = (np.asarray(b, float) for b in ff.conn.base(t))
            E = V[fe[0][1]] - V[fe[0][0]]
            E = E / np.linalg.norm(E)
            best = min(abs(_circ(th - math.atan2(np.dot(E, Y), np.dot(E, X)), math.pi)) for th in _branch_dirs(var[t], order))
            if best > 1e-7:
                custom_flat = desc.get("kind") in ("grid", "polar") and desc["seed"] % 2 == 0
                if custom_flat and order != 4:
                    # K-C18-6: the constraint is written (c/|c|)**4 whatever the order; harmless with the library's own connection (c is real there),
                    # wrong with a caller-supplied connection whose bases do not follow the edges
                    ctx.violation("constraints", "faces", "no_branch_tangent_with_caller_supplied_connection_and_order_other_than_4",
                                  "with a caller-supplied connection and an order other than 4 no branch of the face field is tangent to the border edge",
                                  face=t, order=order, angle_to_nearest_branch=best)
                    return
                ctx.violation("constraints", "faces", "no_branch_tangent_to_feature_edge",
                              "on a face with exactly one border/feature edge no branch of the field is tangent to that edge", face=t, order=order,
                              angle_to_nearest_branch=best)
                return
    # ---------------- (d) harmonic extension (n_smooth = 0, constrained elements present)
    if fixed and free and desc["n_smooth"] == 0:
        # the reference operator is assembled on a fresh mesh object of the same surface (nothing cached on it by the field: the weights it uses
        # are those of the `cotan` argument alone), with the field's own connection
        ok, m_ref = ctx.call("build", build.surface, V, F, monitor="harmonic")
        if elements == "vertices":
            ok, L = ctx.call("operators.laplacian", M.operators.laplacian, m_ref, desc["cotan"], ff.conn, order, monitor="harmonic")
        else:
            ok, L = ctx.call("operators.laplacian_triangles", M.operators.laplacian_triangles, m_ref, desc["cotan"], ff.conn, order, monitor="harmonic")
        Ld = np.asarray(L.todense()) if hasattr(L, "todense") else np.asarray(L)
        ctx.obs("hermitian", elements)
        nrm = np.abs(Ld).max()
        if Ld.shape != (n_el, n_el) or np.abs(Ld - Ld.conj().T).max() > 1e-10 * max(nrm, 1e-300):
            ctx.violation("hermitian", elements, "connection_laplacian_not_hermitian", "the connection Laplacian is not Hermitian", shape=list(Ld.shape),
                          asym=float(np.abs(Ld - Ld.conj().T).max()) if Ld.shape == (n_el, n_el) else None)
            return
        ctx.obs("harmonic", elements)
        LII = Ld[np.ix_(free, free)]
        LIB = Ld[np.ix_(free, fixed)]
        try:
            zI = np.linalg.solve(LII, -LIB @ var0[fixed])
            cond = np.linalg.cond(LII)
        except np.linalg.LinAlgError:
            zI, cond = None, np.inf
        if zI is not None and cond < 1e9:
            ok_el = np.abs(zI) > 1e-6
            want = zI / np.where(np.abs(zI) > 0, np.abs(zI), 1)
            got = var[free]
            diff = np.abs(got - want)[ok_el]
            if len(diff) and diff.max() > 1e-6:
                ctx.violation("harmonic", elements, "not_the_normalised_harmonic_extension",
                              "with smoothing off the field is not the element-wise normalised harmonic extension of the constrained frames", max_diff=float(diff.max()),
                              order=order, cotan=desc["cotan"], cond=float(cond))
                return
            # history: optimize() asked again on the same object (a caller re-running the solve, run() followed by optimize()): with smoothing off
            # the solve is direct, so the field must again be the normalised harmonic extension of the same constrained frames
            if desc["seed"] % 2 == 0:
                ctx.cls("history:optimize_called_again_on_the_same_object")
                for again in range(2):
                    ok, _ = ctx.call("optimize[%s]" % elements, ff.optimize, monitor="harmonic")
                    var_again = np.array(ff.var, dtype=complex)
                    ctx.obs("harmonic", "again")
                    d_again = np.abs(var_again[free] - want)[ok_el] if var_again.shape == var.shape else np.array([np.inf])
                    if len(d_again) and not d_again.max() <= 1e-6:
                        ctx.violation("harmonic", elements, "second_optimize_is_not_the_normalised_harmonic_extension",
                                      "optimize() called again on the same field object no longer yields the normalised harmonic extension of the constrained frames",
                                      max_diff=float(d_again.max()), call=again + 2, order=order, cotan=desc["cotan"])
                        return
        else:
            ctx.note("harmonic_system_ill_conditioned_not_judged")
    # flat connection reduces to the scalar Laplacian: on this mesh when it is planar, and on a dedicated planar Delaunay disk in every case
    if desc["gen"] == "ff":
        try:
            Vp, Fp, _ = surfaces.delaunay_disk(random.Random(desc["seed"] ^ 0x51ab), 14, "uniform", lift=False)
            _flat_reduction(ctx, np.asarray(Vp, float), Fp, elements, order, desc["cotan"])
        except CaseAbort:
            raise
    if np.all(V[:, 2] == 0) and desc["n_smooth"] == 0 and False:
        ctx.obs("hermitian", "flat_" + elements)
        ok, m2 = ctx.call("build", build.surface, V, F, monitor="hermitian")
        if elements == "vertices":
            ok, fc = ctx.call("FlatConnectionVertices", M.processing.connection.FlatConnectionVertices, m2, monitor="hermitian")
            ok, La = ctx.call("laplacian_flat", M.operators.laplacian, m2, desc["cotan"], fc, order, monitor="hermitian")
            ok, m3 = ctx.call("build", build.surface, V, F, monitor="hermitian")
            ok, Lb = ctx.call("laplacian_scalar", M.operators.laplacian, m3, desc["cotan"], monitor="hermitian")
        else:
            ok, fc = ctx.call("FlatConnectionFaces", M.processing.connection.FlatConnectionFaces, m2, monitor="hermitian")
            ok, La = ctx.call("laplacian_triangles_flat", M.operators.laplacian_triangles, m2, desc["cotan"], fc, order, monitor="hermitian")
            ok, m3 = ctx.call("build", build.surface, V, F, monitor="hermitian")
            ok, Lb = ctx.call("laplacian_triangles_scalar", M.operators.laplacian_triangles, m3, desc["cotan"], monitor="hermitian")
        A_, B_ = np.asarray(La.todense()), np.asarray(Lb.todense())
        if A_.shape != B_.shape or np.abs(A_ - B_).max() > 1e-6 * max(1.0, np.abs(B_).max()):
            ctx.violation("hermitian", "flat_" + elements, "flat_connection_does_not_reduce_to_scalar_laplacian",
                          "with a flat connection the connection Laplacian differs from the scalar Laplacian", max_diff=float(np.abs(A_ - B_).max()) if A_.shape == B_.shape else None)
            return
    # ---------------- (c) singularities of the face-based field
    if elements == "faces":
        ok, _ = ctx.call("flag_singularities", ff.flag_singularities, monitor="singularities")
        ctx.obs("singularities", "flag")
        try:
            sing = m.vertices.get_attribute("singuls")
            vals = np.array([float(sing[v]) for v in range(len(V))])
        except Exception as e:
            ctx.violation("singularities", "faces", "unreadable_singularities", "singularity attribute cannot be read: %s" % type(e).__name__)
            return
        q = 4.0 / order
        for v in range(len(V)):
            if v in ref.border_vertices or vals[v] == 0:
                continue
            r = vals[v] / q
            if abs(r - round(r)) > 1e-5:
                ctx.violation("singularities", "faces", "index_not_a_multiple_of_the_quantum", "a singularity index at an interior vertex is not a whole multiple of 4/order",
                              vertex=v, value=float(vals[v]), order=order)
                return
        tol = 1e-5 + (0 if closed else (2e-3 / math.pi) * len(V))
        if abs(vals.sum() - 4 * a["chi"]) > tol:
            ctx.violation("singularities", "faces", "indices_do_not_sum_to_4_chi", "singularity indices do not add up to 4 x Euler characteristic",
                          total=float(vals.sum()), chi=a["chi"], order=order, closed=closed)
            return
        # history: another field (other order) computed on the same mesh object and flagged into the same attribute
        order2 = {1: 4, 2: 6, 3: 4, 4: 2, 5: 2, 6: 4}[order]
        kw2 = dict(order=order2, features=desc["features"], verbose=False, n_smooth=0, use_cotan=desc["cotan"], cad_correction=False)
        ok, ffb = ctx.call("SurfaceFrameField[faces]_second_on_same_mesh", lambda: M.framefield.SurfaceFrameField(m, "faces", **kw2), monitor="singularities")
        ok, _ = ctx.call("run_second_on_same_mesh", ffb.run, monitor="singularities")
        ok, _ = ctx.call("flag_singularities_second", ffb.flag_singularities, monitor="singularities")
        ctx.obs("singularities", "flag_second_field_same_mesh")
        vb = np.array(ffb.var, dtype=complex)
        if vb.shape == (len(F),) and np.all(np.abs(np.abs(vb) - 1) <= 1e-9):
            sing2 = m.vertices.get_attribute("singuls")
            vals2 = np.array([float(sing2[v]) for v in range(len(V))])
            q2 = 4.0 / order2
            for v in range(len(V)):
                if v in ref.border_vertices or vals2[v] == 0:
                    continue
                r = vals2[v] / q2
                if abs(r - round(r)) > 1e-5:
                    ctx.violation("singularities", "faces", "index_not_a_multiple_of_the_quantum_after_reuse",
                                  "after flagging a second field on the same mesh, an index at an interior vertex is not a whole multiple of 4/order",
                                  vertex=v, value=float(vals2[v]), order=order2, previous_order=order)
                    return
            if abs(vals2.sum() - 4 * a["chi"]) > tol:
                ctx.violation("singularities", "faces", "indices_do_not_sum_to_4_chi_after_reuse",
                              "after flagging a second field on the same mesh the indices do not add up to 4 x Euler characteristic",
                              total=float(vals2.sum()), chi=a["chi"], order=order2, previous_order=order)
                return
    # ---------------- (e) invariance under renumbering / face rotation (bordered, deterministic settings)
    generic = desc.get("kind") in ("disk", "annulus", "hinge")
    if not closed and fixed and free and pre is not None and desc["gen"] == "ff" and generic and (desc["n_smooth"] == 0 or attach is not None):
        V2, F2, perm = surfaces.renumber(V, F, rng)
        rot = [rng.randrange(3) for _ in F2]
        F2 = [f[k:] + f[:k] for f, k in zip(F2, rot)]
        m2, ff2 = _make_ff(ctx, V2, F2, desc, "invariance", attach)
        ok, _ = ctx.call("run_renumbered[%s]" % elements, ff2.run, monitor="invariance")
        var2 = np.array(ff2.var, dtype=complex)
        ctx.obs("invariance", elements)
        period = 2 * math.pi / order
        worst, where = 0.0, None
        usable = (pre >= 1e-6) if len(pre) == n_el else np.ones(n_el, bool)
        if elements == "vertices":
            for (u, w) in edges:
                for (x, y) in ((u, w), (w, u)):
                    if not usable[x]:
                        continue
                    d1 = cmath.phase(var[x]) / order - ff.conn.transport(x, y)
                    d2 = cmath.phase(var2[perm[x]]) / order - ff2.conn.transport(perm[x], perm[y])
                    d = abs(_circ(d1 - d2, period))
                    if d > worst:
                        worst, where = d, (x, y)
        else:
            for t, f in enumerate(F):
                if not usable[t]:
                    continue
                X1, Y1 = (np.asarray(b, float) for b in ff.conn.base(t))
                X2, Y2 = (np.asarray(b, float) for b in ff2.conn.base(t))
                for k in range(3):
                    u, w = f[k], f[(k + 1) % 3]
                    if u > w:
                        u, w = w, u
                    E = V[w] - V[u]
                    d1 = cmath.phase(var[t]) / order - math.atan2(np.dot(E, Y1), np.dot(E, X1))
                    d2 = cmath.phase(var2[t]) / order - math.atan2(np.dot(E, Y2), np.dot(E, X2))
                    d = abs(_circ(d1 - d2, period))
                    if d > worst:
                        worst, where = d, (t, k)
        if worst > 1e-7:
            mech = "directions_depend_on_numbering"
            if elements == "faces":
                two = [t for t in fixed if sum(1 for k in range(3) if (min(F[t][k], F[t][(k + 1) % 3]), max(F[t][k], F[t][(k + 1) % 3])) in feat_pairs) >= 2]
                if two:
                    mech = "face_with_two_feature_edges_constraint_depends_on_numbering"
            else:
                # constrained interior feature vertices whose own (constrained) direction already differs between the two runs
                for x in fixed:
                    if x in ref.border_vertices or abs(var0[x]) < 1e-8:
                        continue
                    y = sorted(ref.nbrs[x])[0]
                    d1 = cmath.phase(var[x]) / order - ff.conn.transport(x, y)
                    d2 = cmath.phase(var2[perm[x]]) / order - ff2.conn.transport(perm[x], perm[y])
                    if abs(_circ(d1 - d2, period)) > 1e-7:
                        mech = "interior_feature_vertex_constraint_depends_on_ring_start"
                        break
                if mech == "directions_depend_on_numbering" and order % 2 == 0 and getattr(ff, "smooth_normals", False):
                    # constrained vertices where the order-th powers of the incident feature directions can cancel: the library adds them one by one and
                    # skips a term that would bring the sum to zero, so the constraint depends on the order in which the feature edges are met
                    import itertools
                    for x in fixed:
                        if abs(var0[x]) < 1e-8:
                            continue
                        y = sorted(ref.nbrs[x])[0]
                        d1 = cmath.phase(var[x]) / order - ff.conn.transport(x, y)
                        d2 = cmath.phase(var2[perm[x]]) / order - ff2.conn.transport(perm[x], perm[y])
                        if abs(_circ(d1 - d2, period)) <= 1e-7:
                            continue
                        ps = []
                        for (a_, b_) in feat_pairs:
                            if x in (a_, b_):
                                vx, vy = ff.conn.project(V[b_] - V[a_], x)
                                z = complex(vx, vy)
                                ps.append((z / abs(z)) ** order)
                        outcomes = set()
                        for pm in itertools.permutations(ps) if len(ps) <= 5 else []:
                            acc = 0j
                            for q in pm:
                                if abs(acc + q) > 1e-10:
                                    acc += q
                            if abs(acc) > 1e-8:
                                acc /= abs(acc)
                            outcomes.add((round(acc.real, 6), round(acc.imag, 6)))
                        if len(outcomes) > 1:
                            mech = "feature_vertex_with_cancelling_feature_directions_depends_on_edge_order"
                            break
            ctx.violation("invariance", elements, mech, "edge-relative branch angles change under vertex renumbering / face rotation",
                          worst=worst, where=where, order=order, n_smooth=desc["n_smooth"], cotan=desc["cotan"])
            return
    if len(F) <= 30 and elements == "faces":
        ctx.sample({"mesh": cls, "n_faces": len(F), "order": order, "elements": elements, "features": desc["features"], "n_smooth": desc["n_smooth"],
                    "n_constrained": len(fixed), "first_values": [[round(z.real, 6), round(z.imag, 6)] for z in var[:4]]})


def _safe_attach_weight(ctx, V, F, desc):
    """Half the smallest eigenvalue of the free-free block of the connection Laplacian w.r.t. the mass matrix, computed densely from the library's own
    operators on a scratch object: keeps the smoothing systems (L_II - alpha A_II) positive definite, hence well conditioned."""
    import mouette as M
    import scipy.linalg
    d0 = dict(desc)
    d0["n_smooth"] = 0
    try:
        m, ff = _make_ff(ctx, V, F, d0, "unit")
        ff.initialize()
        n_el = len(V) if desc["elements"] == "vertices" else len(F)
        if desc["elements"] == "vertices":
            L = M.operators.laplacian(m, desc["cotan"], ff.conn, desc["order"])
            A = M.operators.area_weight_matrix(m)
            fixed = {int(v) for v in ff.feat.feature_vertices}
        else:
            L = M.operators.laplacian_triangles(m, desc["cotan"], ff.conn, desc["order"])
            A = M.operators.area_weight_matrix_faces(m)
            fixed = set()
            for e in ff.feat.feature_edges:
                u, v = m.edges[e]
                for t in m.connectivity.edge_to_faces(u, v):
                    if t is not None:
                        fixed.add(int(t))
        free = [i for i in range(n_el) if i not in fixed]
        if not free:
            return 1e-3
        Ld = np.asarray(L.todense())[np.ix_(free, free)]
        Ad = np.asarray(A.todense())[np.ix_(free, free)].real
        w = scipy.linalg.eigh((Ld + Ld.conj().T) / 2, Ad, eigvals_only=True)
        lam = float(w[0])
        return 0.5 * lam if lam > 1e-9 else None
    except CaseAbort:
        raise
    except Exception:
        return None


def _flat_reduction(ctx, V, F, elements, order, cotan):
    import mouette as M
    ctx.obs("hermitian", "flat_" + elements)
    ok, m2 = ctx.call("build", build.surface, V, F, monitor="hermitian")
    ok, m3 = ctx.call("build", build.surface, V, F, monitor="hermitian")
    if elements == "vertices":
        ok, fc = ctx.call("FlatConnectionVertices", M.processing.connection.FlatConnectionVertices, m2, monitor="hermitian")
        ok, La = ctx.call("laplacian_flat", M.operators.laplacian, m2, cotan, fc, order, monitor="hermitian")
        ok, Lb = ctx.call("laplacian_scalar", M.operators.laplacian, m3, cotan, monitor="hermitian")
    else:
        ok, fc = ctx.call("FlatConnectionFaces", M.processing.connection.FlatConnectionFaces, m2, monitor="hermitian")
        ok, La = ctx.call("laplacian_triangles_flat", M.operators.laplacian_triangles, m2, cotan, fc, order, monitor="hermitian")
        ok, Lb = ctx.call("laplacian_triangles_scalar", M.operators.laplacian_triangles, m3, cotan, monitor="hermitian")
    A_, B_ = np.asarray(La.todense()), np.asarray(Lb.todense())
    if A_.shape != B_.shape or np.abs(A_ - B_).max() > 1e-6 * max(1.0, np.abs(B_).max()):
        ctx.violation("hermitian", "flat_" + elements, "flat_connection_does_not_reduce_to_scalar_laplacian",
                      "with a flat connection the connection Laplacian differs from the scalar Laplacian", order=order, cotan=cotan,
                      max_diff=float(np.abs(A_ - B_).max()) if A_.shape == B_.shape else None)
        raise CaseAbort()
    if np.abs(A_ - A_.conj().T).max() > 1e-10 * max(1.0, np.abs(A_).max()):
        ctx.violation("hermitian", "flat_" + elements, "connection_laplacian_not_hermitian", "the connection Laplacian is not Hermitian", order=order)
        raise CaseAbort()
