"""C11 - k-d tree queries are exact and construction always terminates.

Shape: three monitors on `mouette.spatial.KDTree`.

(1) termination   `KDTree._split_points` is wrapped (worker_init) and counts *logical steps* of one construction.
                  A construction needs fewer than n productive splits; the budget is 64*(n+1) steps.  The hook
                  also records every unproductive split (one side empty) keyed by the state (axis, point indices).
                  Verdict = violation only when the loop is *provably* infinite: a state has recurred (the same
                  oversized leaf came back on the same axis, i.e. the last `dim` splits of that leaf were all
                  unproductive) and either all points of the leaf are identical (every pivot of every strategy is that
                  value) or the pivot rule is deterministic for that leaf (balanced; fast when the leaf is not larger
                  than the sample cap, so that the "sample" is the whole leaf).  A provable recurrence ends the
                  construction at once (descriptor flag early=true) or when the budget is exhausted (early=false, both
                  paths are exercised).  Budget exhausted without proof (random pivots) is *not judged*: a note.
                  Wall-clock never decides.
(2) structure     on the built tree: nodes[i].id == i, child/parent links form one tree rooted at 0, the leaves
                  partition range(n), every leaf's points lie in its (closed) box and boxes are nested.  Each split
                  seen by the hook must itself partition its input.
(3) knn / radius  against brute force (mv/ref/c11_bruteforce.py) with a relative tie band (zero band on integer data
                  where the arithmetic is exact).  `KDTree.is_leaf` (public) is wrapped to record the visiting order
                  of one query; from it the monitor tells whether a subtree was discarded while fewer than k
                  candidates were held (the premature-pruning clause) and names that in the mechanism string.
"""
import hashlib
import inspect
import random
import re

import numpy as np

from ..ctx import StepBudgetExceeded
from ..ref import c11_bruteforce as ref
from ..zoo import c11_points as zoo

ID = "C11"
RULE = ("seeded point sets from the C11 zoo (uniform, normal, clustered 1e-9 ball, two clusters, collinear, axis-parallel line, "
        "constant axis, integer lattice, duplicates x2..x8, all identical, per-axis majority at the maximum, sorted input; "
        "n 0..2000, d 1..6, scales 1e-20..1e20, float64/float32/int64, ndarray/list/strided/fortran/read-only) x leaf size "
        "1..>=n x strategy balanced/fast/random x numpy seed; per tree several query points (data point, inside, far outside, on a "
        "splitting plane, midpoint of two data points, box corner, next to an extreme) each with one k from "
        "{1,2,leaf,leaf+1,n-1,n,n+5,random} and one radius from {0, exact inter-point distance, between two distances, small, "
        "huge}; plus an adversarial family for premature pruning (1-D/2-D, leaf 1-3, random strategy or duplicated points, "
        "query next to an extreme, k in {n-1,n,n+5}); a case is non-trivial when the tree has >= 3 levels and some k exceeds the "
        "smallest non-empty leaf population; distinct = distinct hash of (coordinates, leaf size, strategy, numpy seed, queries)"
        "; variants: strategy option in lower case / capitalised / upper case, caller's array overwritten in place after the build")
REQUIRED = {"termination/build": 300, "structure/partition": 200, "structure/leaf_box": 200, "structure/node_ids": 200,
            "knn/count": 1500, "knn/distances": 800, "knn/order": 1500, "knn/indices": 1500, "radius/set": 1500}
CASE_TIMEOUT = {"quick": 30.0, "thorough": 300.0}
ASSUMPTIONS = ["coordinates and query points are finite and far from overflow/underflow of squared differences (|x| <= 1e26)",
               "k >= 1, radius >= 0 and finite, max_leaf_size >= 1",
               "distances within 1e-12 relative of each other (of the radius) are ties: either answer is accepted; on integer "
               "data (exact arithmetic) the band is zero",
               "for strategy 'fast' the pivot is deterministic only when the leaf is not larger than the sample cap read from "
               "KDTree._find_pivot's source; otherwise (and for 'random') non-termination is judged only on identical points",
               "exceeding the step budget without a proof of recurrence is not judged (note termination_not_judged)"]

STRATEGIES = ["balanced", "fast", "random"]

_BUILD = None      # state of the construction being observed (dict) or None
_TRACE = None      # node ids visited by the kNN query being observed (list) or None
_FAST_CAP = None   # sample cap of the 'fast' strategy, read from the source; None = unknown (fast treated as random)


# ============================================================================================ hooks
def _read_fast_cap(KDTree):
    try:
        src = inspect.getsource(KDTree._find_pivot)
    except Exception:
        return None
    m = re.search(r"np\.random\.choice\(\s*pts_ax\s*,\s*min\(\s*(\d+)\s*,\s*pts_ax\.size\s*\)\s*,\s*replace\s*=\s*False\s*\)", src)
    if m and "np.median(samples)" in src:
        return int(m.group(1))
    return None


def worker_init():
    global _FAST_CAP
    from mouette.spatial.kdtree import KDTree
    if getattr(KDTree, "_c11_hooked", False):
        return
    _FAST_CAP = _read_fast_cap(KDTree)
    orig_split = KDTree._split_points
    orig_is_leaf = KDTree.is_leaf

    def split_hook(self, pt_idx, axis):
        st = _BUILD
        if st is None:
            return orig_split(self, pt_idx, axis)
        st["steps"] += 1
        out = orig_split(self, pt_idx, axis)
        stop = None
        try:
            stop = _record_split(st, self, pt_idx, axis, out)
        except Exception as e:  # bookkeeping must never look like a library failure
            st["hook_error"] = "%s: %s" % (type(e).__name__, e)
        if stop:
            raise StepBudgetExceeded(stop)
        return out

    def is_leaf_hook(self, node_id):
        tr = _TRACE
        if tr is not None:
            try:
                tr.append(int(node_id))
            except Exception:
                pass
        return orig_is_leaf(self, node_id)

    KDTree._split_points = split_hook
    KDTree.is_leaf = is_leaf_hook
    KDTree._c11_hooked = True


def _new_build_state(n, dim, strategy, early):
    return {"n": n, "dim": dim, "strategy": strategy, "early": early, "budget": 64 * (n + 1), "steps": 0,
            "unproductive": 0, "seen": {}, "proof": None, "bad_split": None, "hook_error": None, "max_chain": 0}


def _record_split(st, tree, pt_idx, axis, out):
    pivot, less, more = out
    idx = np.asarray(pt_idx)
    less = np.asarray(less)
    more = np.asarray(more)
    m, nl, nr = int(idx.size), int(less.size), int(more.size)
    if st["bad_split"] is None:
        good = (nl + nr == m) and np.array_equal(np.sort(np.concatenate([less.ravel(), more.ravel()])), np.sort(idx.ravel()))
        if not good:
            st["bad_split"] = {"size": m, "left": nl, "right": nr, "axis": int(axis),
                               "input": idx.ravel()[:40].tolist(), "less": less.ravel()[:40].tolist(),
                               "more": more.ravel()[:40].tolist()}
    if (nl == 0 or nr == 0) and nl + nr == m and m > 0:
        st["unproductive"] += 1
        key = (int(axis), idx.tobytes())
        rec = st["seen"].get(key)
        if rec is None:
            try:
                pv = float(pivot)
            except Exception:
                pv = None
            st["seen"][key] = {"count": 1, "axis": int(axis), "idx": idx.copy(), "pivot": pv,
                               "side": "right_empty" if nr == 0 else "left_empty"}
        else:
            rec["count"] += 1
            if rec["count"] > st["max_chain"]:
                st["max_chain"] = rec["count"]
            if st["early"] and st["proof"] is None:
                proof = _provable(st, tree, key)
                if proof is not None:
                    st["proof"] = proof
                    return "recurrence"
    if st["steps"] > st["budget"]:
        return "budget"
    return None


def _provable(st, tree, key):
    """The state `key` = (axis, indices) has been seen at least twice.  Returns a classification when the loop is provably
    infinite, else None."""
    rec = st["seen"][key]
    if rec["count"] < 2:
        return None
    idx = rec["idx"]
    pts = np.asarray(tree.points)[idx]
    dim = int(pts.shape[1])
    identical = bool(np.all(pts == pts[0]))
    strategy = st["strategy"]
    deterministic = strategy == "balanced" or (strategy == "fast" and _FAST_CAP is not None and idx.size <= _FAST_CAP)
    if not identical and not deterministic:
        return None
    recs = [st["seen"].get((a, key[1])) for a in range(dim)]
    sides = [r["side"] if r is not None else None for r in recs]
    frac_at_max = [float(np.count_nonzero(pts[:, a] == pts[:, a].max())) / idx.size for a in range(dim)]
    if identical:
        mech = "nonterminating_identical_points"
    elif all(s == "right_empty" for s in sides):
        mech = "nonterminating_majority_at_axis_maximum"
    else:
        mech = "nonterminating_unproductive_split_cycle"
    rows = pts[:12].tolist()
    return {"mech": mech, "leaf_size": int(idx.size), "identical": identical, "deterministic_pivot": deterministic,
            "sides_per_axis": sides, "fraction_at_axis_maximum": frac_at_max,
            "pivots_per_axis": [r["pivot"] if r is not None else None for r in recs],
            "times_state_seen": rec["count"], "leaf_points_head": rows, "leaf_indices_head": idx[:12].tolist()}


# ============================================================================================ case planning
def _pick_leaf(rng, n):
    r = rng.random()
    if r < 0.30:
        return 1
    if r < 0.52:
        return rng.choice([2, 3])
    if r < 0.70:
        return rng.randrange(4, 11)
    if r < 0.80:
        return 10
    if r < 0.93:
        return max(1, rng.randrange(1, max(2, n + 1)))
    return max(1, n + rng.choice([0, 1, 7]))


def _pick_n(rng, tier):
    r = rng.random()
    if r < 0.04:
        return rng.choice([0, 1, 2])
    if r < 0.40:
        return rng.randrange(3, 31)
    if r < 0.78:
        return rng.randrange(31, 201)
    if r < 0.95:
        return rng.randrange(201, 801)
    return rng.randrange(801, 2001)


_CLASS_WEIGHTS = [("uniform", 14), ("normal", 6), ("clustered", 10), ("two_clusters", 6), ("collinear", 8), ("axis_line", 6),
                  ("const_axis", 8), ("lattice", 12), ("duplicates", 12), ("identical", 4), ("max_majority", 7),
                  ("sorted_1d_like", 7)]


def _general_case(rng, tier, i):
    classes = [c for c, w in _CLASS_WEIGHTS for _ in range(w)]
    cls = rng.choice(classes)
    n = _pick_n(rng, tier)
    d = rng.choice([1, 1, 2, 2, 2, 3, 3, 3, 4, 5, 6])
    if cls in ("identical", "max_majority") and n > 300:
        n = rng.randrange(3, 300)
    leaf = _pick_leaf(rng, n)
    desc = {"gen": "zoo", "cls": cls, "n": n, "d": d, "leaf": leaf, "strategy": STRATEGIES[i % 3],
            "npseed": rng.randrange(5), "seed": rng.randrange(2 ** 31), "nq": 6 if tier == "quick" else 20,
            "early": not (n <= 150 and rng.random() < 0.3), "qrep": rng.choice(["ndarray", "ndarray", "vec", "list", "tuple"])}
    r = rng.random()
    if r < 0.70:
        desc["scale"] = 1.0
    elif r < 0.80:
        desc["scale"] = 1e-6
    elif r < 0.90:
        desc["scale"] = 1e6
    elif r < 0.95:
        desc["scale"] = 1e-20
    else:
        desc["scale"] = 1e20
    desc["offset"] = 0.0
    if desc["scale"] == 1.0 and rng.random() < 0.15:
        desc["offset"] = rng.choice([-3.0, 1000.0, 1e6])
    if cls == "lattice":
        desc["m"] = rng.choice([2, 3, 4, 4, 5, 8])
        desc["scale"] = 1.0
        desc["offset"] = rng.choice([0.0, 0.0, -2.0])
        desc["dtype"] = rng.choice(["float64", "int64", "float32"])
    else:
        desc["dtype"] = "float32" if rng.random() < 0.08 else "float64"
    if cls == "duplicates":
        desc["copies"] = rng.choice([2, 2, 3, 4, 8])
    desc["container"] = rng.choice(["ndarray"] * 5 + ["list", "fortran", "strided", "readonly"])
    return desc


def _adversarial_case(rng, tier, i):
    d = rng.choice([1, 1, 2])
    n = rng.randrange(5, 61)
    leaf = rng.choice([1, 1, 2, 3])
    if i % 3 == 2:
        cls, strategy = "duplicates", rng.choice(["balanced", "fast"])
    else:
        cls, strategy = rng.choice(["uniform", "sorted_1d_like", "normal", "lattice"]), "random"
    desc = {"gen": "adv", "cls": cls, "n": n, "d": d, "leaf": leaf, "strategy": strategy, "npseed": rng.randrange(5),
            "seed": rng.randrange(2 ** 31), "nq": 6 if tier == "quick" else 16, "early": True, "qrep": "ndarray",
            "scale": 1.0, "offset": 0.0, "dtype": "float64", "container": "ndarray"}
    if cls == "duplicates":
        desc["copies"] = min(leaf, 2) if leaf >= 2 else 2
    if cls == "lattice":
        desc["m"] = 64  # few repeated coordinates: the point of this family is the unbalanced split, not the hang
    return desc


# small, readable anchors placed first (they provide the evidence samples)
_ANCHORS = [
    {"gen": "explicit", "name": "line4_k_all", "points": [[0.0], [1.0], [2.0], [3.0]], "leaf": 1, "strategy": "random",
     "npseed": 0, "queries": [{"q": [0.5], "k": 4, "r": 1.5}, {"q": [0.5], "k": 3, "r": 0.5}]},
    {"gen": "explicit", "name": "line10_k_all", "points": [[float(i)] for i in range(10)], "leaf": 1, "strategy": "random",
     "npseed": 1, "queries": [{"q": [7.5], "k": 10, "r": 2.5}, {"q": [7.5], "k": 9, "r": 0.5}, {"q": [1.5], "k": 15, "r": 0.0}]},
    {"gen": "explicit", "name": "eight_points_2d_balanced",
     "points": [[3.0, 3.0], [1.0, 4.0], [0.0, 2.0], [3.0, 4.0], [2.0, 1.0], [1.0, 2.0], [2.0, 3.0], [4.0, 0.0]], "leaf": 1,
     "strategy": "balanced", "npseed": 0, "queries": [{"q": [2.0, 3.0], "k": 5, "r": 1.5}, {"q": [2.0, 3.0], "k": 8, "r": 0.0}]},
    {"gen": "explicit", "name": "pairs_on_a_line", "points": [[0.0], [0.0], [1.0], [1.0], [2.0], [2.0], [3.0], [3.0]], "leaf": 2,
     "strategy": "balanced", "npseed": 0, "queries": [{"q": [1.0], "k": 4, "r": 1.0}, {"q": [3.0], "k": 8, "r": 0.0}]},
    {"gen": "explicit", "name": "three_identical_leaf2", "points": [[0.5, 0.25]] * 3, "leaf": 2, "strategy": "balanced",
     "npseed": 0, "queries": [{"q": [0.5, 0.25], "k": 2, "r": 0.0}]},
    {"gen": "explicit", "name": "three_identical_leaf2_random", "points": [[0.5, 0.25]] * 3, "leaf": 2, "strategy": "random",
     "npseed": 0, "early": False, "queries": [{"q": [0.0, 0.0], "k": 3, "r": 1.0}]},
    {"gen": "explicit", "name": "majority_at_maximum_5pts",
     "points": [[1.0, 0.0], [1.0, 0.5], [1.0, 1.0], [0.0, 1.0], [0.5, 1.0]], "leaf": 4, "strategy": "balanced", "npseed": 0,
     "queries": [{"q": [0.0, 0.0], "k": 2, "r": 1.0}]},
    {"gen": "explicit", "name": "majority_at_maximum_5pts_fast",
     "points": [[1.0, 0.0], [1.0, 0.5], [1.0, 1.0], [0.0, 1.0], [0.5, 1.0]], "leaf": 2, "strategy": "fast", "npseed": 0,
     "early": False, "queries": [{"q": [0.9, 0.9], "k": 5, "r": 0.5}]},
    {"gen": "explicit", "name": "lattice_2d", "points": [[3, 3], [3, 3], [3, 1], [0, 3], [1, 2], [3, 3], [2, 0], [0, 0]], "leaf": 2,
     "strategy": "balanced", "npseed": 0, "queries": [{"q": [3, 3], "k": 3, "r": 0.0}, {"q": [1, 1], "k": 8, "r": 2.0}]},
    {"gen": "explicit", "name": "square_grid_3x3", "points": [[float(i), float(j)] for i in range(3) for j in range(3)], "leaf": 1,
     "strategy": "random", "npseed": 3, "queries": [{"q": [0.25, 0.25], "k": 9, "r": 1.0}, {"q": [1.0, 1.0], "k": 5, "r": 1.0}]},
]


def cases(seed, tier):
    rng = random.Random(seed * 104729 + 11)
    out = []
    for a in _ANCHORS:
        c = dict(a)
        c["seed"] = 1
        out.append(c)
    n_general = 520 if tier == "quick" else 36000
    n_adv = 140 if tier == "quick" else 6000
    gen = [_general_case(rng, tier, i) for i in range(n_general)]
    adv = [_adversarial_case(rng, tier, i) for i in range(n_adv)]
    # interleave so that every shard gets both families
    step = max(1, n_general // max(1, n_adv))
    j = 0
    for i, g in enumerate(gen):
        out.append(g)
        if i % step == step - 1 and j < len(adv):
            out.append(adv[j])
            j += 1
    out.extend(adv[j:])
    return out


# ============================================================================================ helpers (harness side)
def _is_int(x):
    return isinstance(x, (int, np.integer)) and not isinstance(x, (bool, np.bool_))


def _as_index_list(res):
    """Returns (list of python ints, malformed description or None)."""
    try:
        items = list(res)
    except Exception:
        return [], "result is not iterable (%s)" % type(res).__name__
    idx = []
    for x in items:
        if _is_int(x):
            idx.append(int(x))
        else:
            return idx, "result contains a non-integer item of type %s" % type(x).__name__
    return idx, None


class _TreeInfo:
    """Harness-side digest of a built tree (filled by the structure monitor)."""

    def __init__(self):
        self.ok = False
        self.is_leaf = []
        self.parent = []
        self.pop = []
        self.leaf_of_point = None
        self.levels = 0
        self.n_leaves = 0
        self.min_pop = 0
        self.planes = []  # (axis, value) of internal nodes


def _check_structure(ctx, tree, P64, desc_small):
    """Monitor (2).  Returns a _TreeInfo (ok=False when the structure is too broken to interpret queries)."""
    from mouette.spatial.kdtree import KDTree
    info = _TreeInfo()
    n, dim = P64.shape
    nodes = getattr(tree, "nodes", None)
    if not isinstance(nodes, list) or len(nodes) == 0:
        ctx.check(False, "structure", "node_ids", "no_node_list", "tree.nodes is not a non-empty list", tree=desc_small)
        return info
    N = len(nodes)
    # --- ids and links
    bad_id = next((i for i in range(N) if getattr(nodes[i], "id", None) != i), None)
    link_problem = None
    depth = [-1] * N
    is_leaf = [isinstance(nd, KDTree.Leaf) for nd in nodes]
    parent = [None] * N
    order = []
    if bad_id is None:
        depth[0] = 0
        stack = [0]
        while stack and link_problem is None:
            i = stack.pop()
            order.append(i)
            if is_leaf[i]:
                continue
            nd = nodes[i]
            for side in ("left", "right"):
                c = getattr(nd, side, None)
                if not _is_int(c) or not (0 <= int(c) < N):
                    link_problem = "child_out_of_range"
                    break
                c = int(c)
                if depth[c] != -1:
                    link_problem = "node_reached_twice"
                    break
                if getattr(nodes[c], "parent", None) != i:
                    link_problem = "parent_link_mismatch"
                    break
                depth[c] = depth[i] + 1
                parent[c] = i
                stack.append(c)
        if link_problem is None and len(order) != N:
            link_problem = "unreachable_nodes"
    mech = "id_differs_from_position" if bad_id is not None else link_problem
    ctx.check(mech is None, "structure", "node_ids", mech or "", "nodes[i].id == i and the links form one tree rooted at node 0",
              tree=desc_small, first_bad_id=bad_id, n_nodes=N)
    if mech is not None:
        return info
    # --- partition
    leaves = [i for i in order if is_leaf[i]]
    pops = [0] * N
    chunks = []
    malformed = None
    for i in leaves:
        pts = getattr(nodes[i], "points", None)
        try:
            arr = np.asarray(pts)
            if arr.size and arr.dtype.kind not in "iu":
                malformed = "leaf_points_not_integers"
                break
            arr = arr.astype(np.int64).ravel()
        except Exception:
            malformed = "leaf_points_unreadable"
            break
        pops[i] = int(arr.size)
        chunks.append((i, arr))
    if malformed is None:
        allpts = np.concatenate([a for _, a in chunks]) if chunks else np.zeros(0, dtype=np.int64)
        srt = np.sort(allpts)
        if srt.size and (srt[0] < 0 or srt[-1] >= n):
            malformed = "index_out_of_range"
        elif srt.size != n or not np.array_equal(srt, np.arange(n)):
            cnt = np.bincount(allpts, minlength=n) if allpts.size else np.zeros(n, dtype=np.int64)
            if np.any(cnt[:n] == 0):
                malformed = "point_in_no_leaf"
            else:
                malformed = "point_in_several_leaves"
    ctx.check(malformed is None, "structure", "partition", malformed or "", "the leaves must partition range(n)",
              tree=desc_small, n=n, leaf_populations=[pops[i] for i in leaves][:60])
    if malformed is not None:
        return info
    # --- boxes
    box_problem = None
    witness = None
    boxes = [None] * N
    try:
        for i in order:
            bb = nodes[i].bb
            lo = np.asarray(bb.mini, dtype=np.float64).ravel()
            hi = np.asarray(bb.maxi, dtype=np.float64).ravel()
            if lo.size != dim or hi.size != dim:
                box_problem = "box_dimension"
                witness = {"node": i}
                break
            boxes[i] = (lo, hi)
            p = parent[i]
            if p is not None:
                plo, phi = boxes[p]
                if np.any(lo < plo) or np.any(hi > phi):
                    box_problem = "child_box_not_inside_parent_box"
                    witness = {"node": i, "box": [lo.tolist(), hi.tolist()], "parent_box": [plo.tolist(), phi.tolist()]}
                    break
        if box_problem is None:
            for i, arr in chunks:
                if arr.size == 0:
                    continue
                lo, hi = boxes[i]
                X = P64[arr]
                out = np.any((X < lo) | (X > hi), axis=1)
                if np.any(out):
                    j = int(arr[int(np.nonzero(out)[0][0])])
                    box_problem = "leaf_point_outside_leaf_box"
                    witness = {"leaf": i, "point_index": j, "point": P64[j].tolist(), "box": [lo.tolist(), hi.tolist()]}
                    break
    except Exception as e:
        box_problem = "box_unreadable"
        witness = {"error": "%s: %s" % (type(e).__name__, e)}
    ctx.check(box_problem is None, "structure", "leaf_box", box_problem or "",
              "every leaf's points lie in its box and boxes are nested", tree=desc_small, detail=witness)
    # the digest stays usable for interpreting queries even when a box is wrong
    info.ok = True
    info.is_leaf = is_leaf
    info.parent = parent
    info.pop = pops
    lop = np.full(n, -1, dtype=np.int64)
    for i, arr in chunks:
        lop[arr] = i
    info.leaf_of_point = lop
    info.levels = (max(depth) + 1) if depth else 0
    info.n_leaves = len(leaves)
    nonempty = [pops[i] for i in leaves if pops[i] > 0]
    info.min_pop = min(nonempty) if nonempty else 0
    planes = []
    for i in order:
        if not is_leaf[i]:
            try:
                ax, v = int(nodes[i].split_axis), float(nodes[i].split_value)
                if 0 <= ax < dim and np.isfinite(v):
                    planes.append((ax, v))
            except Exception:
                pass
    info.planes = planes
    return info


def _trace_digest(trace, info, k):
    """From the visiting order of one kNN query: (pos, held) where held[i] = candidates held when trace[i] was popped."""
    if not info.ok or not trace:
        return None
    N = len(info.is_leaf)
    pos, held, c = {}, [], 0
    for t, nid in enumerate(trace):
        if not (0 <= nid < N) or nid in pos:
            return None
        pos[nid] = t
        held.append(min(k, c))
        if info.is_leaf[nid]:
            c += info.pop[nid]
    return pos, held


def _why_missed(point, digest, info, k):
    """Why was the leaf of `point` not read by the query?  Returns a dict or None when it cannot be told."""
    if digest is None or info.leaf_of_point is None:
        return None
    pos, held = digest
    cur = int(info.leaf_of_point[point])
    if cur < 0:
        return None
    if cur in pos:
        return {"leaf_visited": True}
    guard = 0
    while info.parent[cur] is not None and info.parent[cur] not in pos:
        cur = info.parent[cur]
        guard += 1
        if guard > len(info.parent):
            return None
    par = info.parent[cur]
    if par is None:
        return None
    h = held[pos[par]]
    return {"leaf_visited": False, "discarded_subtree": cur, "at_node": par, "candidates_held": h, "k": k, "premature": h < k}


def _make_queries(desc, P64, info, rng):
    """List of (kind, q64) query points derived from the data (and from the splitting planes of the built tree)."""
    n, d = P64.shape
    nq = int(desc.get("nq", 6))
    if n == 0:
        return [("empty_data", rng.standard_normal(d)) for _ in range(min(nq, 2))]
    lo, hi = P64.min(axis=0), P64.max(axis=0)
    diam = float(np.sqrt(np.sum((hi - lo) ** 2)))
    unit = diam if diam > 0 else max(1.0, float(np.max(np.abs(P64)))) * 1e-3
    integer = zoo.integer_valued(P64)
    out = []
    kinds = ["data", "inside", "outside", "plane", "midpoint", "corner", "near_extreme", "data"]
    if desc.get("gen") == "adv":
        kinds = ["near_extreme", "near_extreme", "near_extreme", "data", "inside", "midpoint"]
    for t in range(nq):
        kind = kinds[t % len(kinds)] if t < len(kinds) else kinds[int(rng.integers(len(kinds)))]
        if kind == "plane" and not (info is not None and info.planes):
            kind = "inside"
        if kind == "data":
            q = P64[int(rng.integers(n))].copy()
        elif kind == "inside":
            q = lo + rng.random(d) * (hi - lo)
            if integer:
                q = np.round(q)
        elif kind == "outside":
            u = rng.standard_normal(d)
            u /= max(np.linalg.norm(u), 1e-300)
            q = (lo + hi) / 2 + u * unit * float(rng.choice([3.0, 50.0, 1e3]))
            if integer:
                q = np.round(q)
        elif kind == "plane":
            ax, v = info.planes[int(rng.integers(len(info.planes)))]
            q = P64[int(rng.integers(n))].copy() if rng.random() < 0.5 else lo + rng.random(d) * (hi - lo)
            q[ax] = v
        elif kind == "midpoint":
            q = (P64[int(rng.integers(n))] + P64[int(rng.integers(n))]) / 2
        elif kind == "corner":
            q = np.where(rng.random(d) < 0.5, lo, hi).astype(np.float64)
        else:  # near_extreme: between the 1st..4th most extreme values of one axis, other coordinates from a data point
            ax = int(rng.integers(d))
            vals = np.unique(P64[:, ax])
            q = P64[int(rng.integers(n))].copy()
            if vals.size >= 2:
                j = int(rng.integers(0, min(3, vals.size - 1)))
                w = float(rng.choice([0.5, 0.25, 0.9]))
                if rng.random() < 0.5:
                    a, b = vals[-1 - j], vals[-2 - j]
                else:
                    a, b = vals[j], vals[j + 1]
                q[ax] = a + w * (b - a)
        out.append((kind, np.asarray(q, dtype=np.float64)))
    return out


def _represent(q64, rep, integer_data):
    """The query point in the representation handed to the library + the float64 values the reference uses."""
    if rep == "vec":
        from mouette import Vec
        return Vec(q64), q64
    if rep == "list":
        return [float(x) for x in q64], q64
    if rep == "tuple":
        return tuple(float(x) for x in q64), q64
    if rep == "int" and zoo.integer_valued(q64):
        return q64.astype(np.int64), q64
    return q64.copy(), q64


def _pick_k(rng, n, leaf, adv):
    if adv:
        return max(1, int(rng.choice([n - 1, n, n, n + 5])))
    opts = [1, 2, leaf, leaf + 1, n - 1, n, n + 5, int(rng.integers(1, max(2, n + 1))), int(rng.integers(1, max(2, n // 4 + 2)))]
    return max(1, int(opts[int(rng.integers(len(opts)))]))


def _pick_radius(rng, dist):
    n = dist.size
    if n == 0:
        return "any", float(rng.random())
    kind = ["zero", "exact", "between", "small", "huge", "exact"][int(rng.integers(6))]
    srt = np.sort(dist)
    if kind == "zero":
        return kind, 0.0
    if kind == "exact":
        return kind, float(dist[int(rng.integers(n))])
    if kind == "between":
        j = int(rng.integers(n))
        nxt = srt[j + 1] if j + 1 < n else srt[j] * 2 + 1.0
        return kind, float((srt[j] + nxt) / 2)
    if kind == "small":
        return kind, float(srt[min(n - 1, max(0, n // 20))] * (0.5 + rng.random()))
    return kind, float((srt[-1] + 1.0) * 1e6)


def _small(x, limit=12):
    a = np.asarray(x)
    return a.tolist() if a.shape[0] <= limit else {"n": int(a.shape[0]), "head": a[:6].tolist()}


# ============================================================================================ the case
def run_case(desc, ctx):
    global _BUILD, _TRACE
    from mouette.spatial import KDTree
    # ---- input
    if desc["gen"] == "explicit":
        raw = np.array(desc["points"])
        P_in = raw if desc.get("as_array", True) else desc["points"]
        P64 = np.array(raw, dtype=np.float64)
        cls = "explicit:" + desc["name"]
    else:
        P_in, P64 = zoo.make(desc)
        cls = desc["cls"]
    n, d = P64.shape
    leaf, strategy = int(desc["leaf"]), desc["strategy"]
    early = bool(desc.get("early", True))
    adv = desc["gen"] == "adv"
    tree_small = {"class": cls, "n": n, "dim": d, "max_leaf_size": leaf, "strategy": strategy, "numpy_seed": desc.get("npseed", 0)}
    if n <= 12:
        tree_small["points"] = P64.tolist()
    ctx.cls("family:" + desc["gen"])
    ctx.cls("class:" + cls.split(":")[0])
    ctx.cls("dim:%d" % d)
    ctx.cls("strategy:" + strategy)
    ctx.cls("n:" + ("0" if n == 0 else "1-2" if n <= 2 else "3-30" if n <= 30 else "31-200" if n <= 200 else "201-800" if n <= 800
                    else "801-2000"))
    ctx.cls("leaf:" + ("1" if leaf == 1 else "2-3" if leaf <= 3 else ">=n" if leaf >= n else "4-10" if leaf <= 10 else "11..n-1"))
    ctx.cls("dtype:" + str(desc.get("dtype", "float64")))
    ctx.cls("container:" + str(desc.get("container", "ndarray")))
    ctx.cls("scale:%g" % float(desc.get("scale", 1.0)))

    # the option is matched whatever its capitalisation ('fast', 'Fast', 'FAST' all pass the constructor's validation)
    spelled = [strategy, strategy.capitalize(), strategy, strategy.upper()][(n + 3 * leaf + d) % 4]
    if spelled != strategy:
        ctx.cls("strategy_spelling:" + ("capitalised" if spelled[1:].islower() else "upper_case"))
    # ---- (1) construction under the step budget
    np.random.seed(int(desc.get("npseed", 0)))
    st = _new_build_state(n, d, strategy, early)
    _BUILD = st
    stopped = None
    try:
        try:
            ok, tree = ctx.call("construct", KDTree, P_in, leaf, spelled, monitor="termination")
        except StepBudgetExceeded as e:
            stopped = str(e)
            tree = None
    finally:
        _BUILD = None
    if st["hook_error"]:
        raise RuntimeError("C11 split hook bookkeeping failed: " + st["hook_error"])
    if st["bad_split"] is not None:
        ctx.check(False, "structure", "split", "split_is_not_a_partition_of_its_input",
                  "_split_points returned index sets that do not partition the leaf it was given", tree=tree_small,
                  split=st["bad_split"])
    elif st["steps"]:
        ctx.obs("structure", "split", st["steps"])
    if st["unproductive"]:
        ctx.note("builds_with_unproductive_splits")
    if stopped is not None:
        proof = st["proof"]
        if proof is None:  # budget exhausted: look for a recurred state that proves the loop
            for key, rec in st["seen"].items():
                if rec["count"] >= 2:
                    class _T:  # the aborted tree is gone; the hook only needs .points
                        points = P64
                    proof = _provable(st, _T, key)
                    if proof is not None:
                        break
        ctx.cls("build:stopped_" + stopped)
        if proof is not None:
            ctx.obs("termination", "build")
            ctx.violation("termination", "build", proof["mech"],
                          "construction never terminates (%s strategy): an oversized leaf of %d points came back unchanged on the "
                          "same axis after %d unproductive splits" % (strategy, proof["leaf_size"], d),
                          tree=tree_small, stopped_by=stopped, steps=st["steps"], budget=st["budget"],
                          unproductive_splits=st["unproductive"], proof=proof)
            if n <= 12:
                ctx.sample({"tree": tree_small, "construction": "does not terminate", "mechanism": proof["mech"],
                            "stuck_leaf_indices": proof["leaf_indices_head"]})
        else:
            ctx.note("termination_not_judged:%s:budget_exhausted_without_recurrence_proof" % strategy)
        return
    ctx.obs("termination", "build")
    ctx.cls("build:finished")
    if st["steps"] >= max(1, n):
        ctx.note("builds_with_n_or_more_split_steps")

    # history: the caller reuses its own buffer after the tree was built (here: the rows are reversed in place); the tree answers for the
    # point set it was built from
    if isinstance(P_in, np.ndarray) and P_in.flags.writeable and not np.shares_memory(P_in, P64) and n >= 2 and int(desc.get("seed", n)) % 3 == 1:
        ctx.cls("history:caller_array_overwritten_after_the_build")
        P_in[...] = P_in[::-1].copy()
    # ---- (2) structure
    info = _check_structure(ctx, tree, P64, tree_small)
    if not info.ok:
        return
    ctx.cls("levels:" + ("1" if info.levels <= 1 else "2" if info.levels == 2 else "3-6" if info.levels <= 6 else "7-12"
                         if info.levels <= 12 else ">12"))

    # ---- (3) queries
    rng = np.random.default_rng([int(desc["seed"]) & 0x7FFFFFFF, 23])
    integer_data = zoo.integer_valued(P64)
    plan = []
    if desc["gen"] == "explicit":
        for qd in desc["queries"]:
            plan.append(("explicit", np.array(qd["q"], dtype=np.float64), int(qd["k"]), "explicit", float(qd["r"])))
    else:
        for kind, q64 in _make_queries(desc, P64, info, rng):
            dist = ref.dists(P64, q64)
            k = _pick_k(rng, n, leaf, adv)
            rk, r = _pick_radius(rng, dist)
            plan.append((kind, q64, k, rk, r))
    reps = [desc.get("qrep", "ndarray")]
    big_k = False
    digest_for_key = []
    for qi, (kind, q64, k, rk, r) in enumerate(plan):
        rep = reps[0] if not (integer_data and qi % 2 == 1) else "int"
        if rep == "int" and not zoo.integer_valued(q64):
            rep = "ndarray"
        q_in, q64 = _represent(q64, rep, integer_data)
        exact = integer_data and zoo.integer_valued(q64)
        tol = 0.0 if exact else ref.TOL
        dist = ref.dists(P64, q64)
        ctx.cls("query_point:" + kind)
        ctx.cls("query_rep:" + rep)
        ctx.cls("arithmetic:" + ("exact" if exact else "rounded"))
        digest_for_key.append([kind, q64.tolist(), k, r])
        want = min(k, n)
        kcls = ("k=1" if k == 1 else "k>n" if k > n else "k=n" if k == n else "k=n-1" if k == n - 1 else "k<=leaf" if k <= leaf
                else "leaf<k<n-1")
        ctx.cls("k:" + kcls)
        if k > info.min_pop and info.min_pop > 0:
            big_k = True

        # ---------------------------------------------------------------- kNN
        _TRACE = []
        try:
            ok, res = ctx.call("query", tree.query, q_in, k, monitor="knn")
        finally:
            trace, _TRACE = _TRACE, None
        idx, bad = _as_index_list(res)
        qsmall = {"query_point": q64.tolist(), "k": k, "returned": idx[:40]}
        digest = _trace_digest(trace, info, k)
        if digest is not None:
            pos, held = digest
            if any((not info.is_leaf[nid]) and 0 < held[t] < k for nid, t in pos.items()):
                ctx.note("knn_queries_expanding_a_node_with_1_to_k-1_candidates")
            first_leaf = next((nid for nid in trace if info.is_leaf[nid]), None)
            if first_leaf is not None and info.n_leaves > 1 and k > info.pop[first_leaf]:
                ctx.note("knn_queries_with_k_above_first_explored_leaf_population")
        in_range = bad is None and all(0 <= i < n for i in idx)
        distinct = len(set(idx)) == len(idx)
        mech = "malformed_result" if bad is not None else "index_out_of_range" if not in_range else "duplicate_index"
        ctx.check(in_range and distinct, "knn", "indices", mech, bad or "indices must be distinct and in range(n)",
                  tree=tree_small, query=qsmall)
        if not in_range:
            continue
        why = None
        if len(idx) < want:
            missing = [j for j in np.argsort(dist, kind="stable").tolist() if j not in set(idx)]
            for j in missing[:50]:
                why = _why_missed(j, digest, info, k)
                if why is not None and not why.get("leaf_visited"):
                    break
        mech = ("too_many_indices" if len(idx) > want else
                "short_answer_subtree_discarded_with_fewer_than_k_candidates" if (why and why.get("premature")) else "short_answer")
        ctx.check(len(idx) == want, "knn", "count", mech,
                  "query(q,k) must return min(k,n)=%d indices, got %d" % (want, len(idx)), tree=tree_small, query=qsmall,
                  discarded=why)
        if len(idx) != want and n <= 12 and not ctx.samples:
            ctx.sample({"tree": tree_small, "knn_query": {"q": q64.tolist(), "k": k}, "returned": idx,
                        "problem": "min(k,n)=%d indices expected" % want})
        dsel = dist[idx] if idx else np.zeros(0)
        if dsel.size >= 2:
            inc = dsel[1:] >= dsel[:-1] * (1.0 - tol)
            ctx.check(bool(np.all(inc)), "knn", "order", "decreasing_distance",
                      "distances of the returned indices must be non-decreasing", tree=tree_small, query=qsmall,
                      distances=dsel[:40].tolist())
        else:
            ctx.obs("knn", "order")
        if len(idx) == want and distinct:
            exp = ref.knn_expected(dist, k)
            got = np.sort(dsel)
            agree = ref.close(got, exp, tol) if want else np.ones(0, dtype=bool)
            okd = bool(np.all(agree))
            mech, why, miss = "", None, None
            if not okd:
                worst = got[-1]
                closer = [j for j in np.argsort(dist, kind="stable")[:want].tolist() if j not in set(idx) and dist[j] < worst * (1 - tol)]
                miss = closer[:5]
                for j in closer[:50]:
                    why = _why_missed(j, digest, info, k)
                    if why is not None:
                        break
                if why and why.get("premature"):
                    mech = "closer_point_missed_subtree_discarded_with_fewer_than_k_candidates"
                elif why and why.get("leaf_visited"):
                    mech = "closer_point_missed_although_its_leaf_was_read"
                else:
                    mech = "closer_point_missed"
            ctx.check(okd, "knn", "distances", mech, "the returned distances must be the k smallest distances to the query point",
                      tree=tree_small, query=qsmall, returned_distances=got[:40].tolist(), expected_distances=exp[:40].tolist(),
                      missed_points=miss, discarded=why)
            if okd and n <= 12 and n >= 4 and want >= 2 and info.levels >= 2 and not ctx.samples:
                ctx.sample({"tree": tree_small, "knn_query": {"q": q64.tolist(), "k": k}, "returned": idx,
                            "distances": [round(float(x), 6) for x in dsel]})

        # ---------------------------------------------------------------- radius
        ctx.cls("radius:" + rk)
        ok, res = ctx.call("query_radius", tree.query_radius, q_in, r, monitor="radius")
        idx, bad = _as_index_list(res)
        in_range = bad is None and all(0 <= i < n for i in idx)
        mech, detail = "", None
        if not in_range:
            mech = "malformed_result" if bad is not None else "index_out_of_range"
        else:
            must, may = ref.radius_must_may(dist, r, tol)
            S = set(idx)
            missing, extra = sorted(must - S), sorted(S - may)
            if missing:
                mech = "point_within_radius_missed"
                detail = {"missed": missing[:10], "their_distances": dist[missing[:10]].tolist()}
            elif extra:
                mech = "point_beyond_radius_returned"
                detail = {"extra": extra[:10], "their_distances": dist[extra[:10]].tolist()}
            elif len(S) != len(idx):
                mech = "duplicate_index"
        ctx.check(mech == "", "radius", "set", mech, bad or "query_radius(q,r) must return exactly the points with distance <= r",
                  tree=tree_small, query={"query_point": q64.tolist(), "r": r, "radius_kind": rk, "returned": idx[:40]},
                  detail=detail)

    if info.levels >= 3 and big_k:
        h = hashlib.sha1(P64.tobytes())
        h.update(repr((leaf, strategy, desc.get("npseed", 0), digest_for_key)).encode())
        ctx.nontrivial(h.hexdigest()[:16])
