"""C06 - meshes have value semantics: copy, merge and transforms never alias.

Shape: history + shadow state + alias graph.  A pool of meshes from every producer of the library is driven through a generated
history of copy / merge / transform / direct-edit steps; after every step every mesh of the pool is compared with an independent
float64 shadow (the operated mesh must equal map(shadow), every other mesh must equal its shadow bit for bit)."""
import math
import os
import random
import shutil
import tempfile

import numpy as np

from .. import build
from ..zoo import surfaces, volumes, graphs
from ..ctx import stable_hash, CaseAbort

ID = "C06"
RULE = ("pools of 2-4 meshes from every producer (raw containers with list/tuple/numpy-row/Vec coordinates, from_arrays, obj/mesh loaders, all "
        "procedural generators, merge incl. the same mesh twice, copy with/without attributes, subdivision results, boundary extraction) driven "
        "through histories of 4-12 steps: copy, merge, translate/rotate/scale/scale_xyz/normalize/fit_into_unit_cube/translate_to_origin/flatten "
        "and their inverses, direct vertex edits; non-trivial = the history contains a merge or copy followed by an edit of another mesh than "
        "the one produced; distinct = (producers, history) hash"
        "; variants: one-mesh merge lists, user attributes edited in place after copy, narrow integer index rows near capacity, float32-stored producers (tolerances follow the stored precision)")
REQUIRED = {"shadow": 3000, "transform": 600, "copy": 100, "merge": 100, "inverse": 100, "normalize": 60}
CASE_TIMEOUT = {"quick": 30.0, "thorough": 900.0}
ASSUMPTIONS = ["pool meshes are built from data owned by the case (fresh arrays per producer call): aliasing with caller-owned arrays is reported as a note only",
               "a boundary mesh extracted from a volume is put in the pool without its parent volume (the statement does not speak of that pair)",
               "degenerate bounding boxes (zero largest extent) are not generated for normalize"]


def cases(seed, tier):
    rng = random.Random(seed * 22695477 + 6)
    n = 320 if tier == "quick" else 40000
    out = [{"gen": "history", "seed": rng.randrange(2 ** 31), "steps": rng.randint(4, 8 if tier == "quick" else 14)} for _ in range(n)]
    # every producer kind, several draws each, through the same fixed history (both copy options, merge with itself, the transforms): detection of
    # a producer-specific defect must not depend on the random histories happening to pair that producer with the right step
    for rep in range(4 if tier == "quick" else 40):
        for k in PRODUCER_KINDS:
            out.append({"gen": "history", "seed": rng.randrange(2 ** 31), "steps": 9, "force_kind": k,
                        "force_steps": ["copy", "copy", "copy", "merge", "translate", "normalize", "rotate", "scale", "copy"]})
            if rep % 2 == 1:
                # the transforms applied to a mesh that is already where they would put it (repeated normalisation: the translation part is
                # exactly zero), a null translation, and the default axis of flatten
                out.append({"gen": "history", "seed": rng.randrange(2 ** 31), "steps": 8, "force_kind": k,
                            "force_steps": ["normalize", "normalize", "fit", "fit", "translate_zero", "flatten_default", "normalize", "copy"]})
    return out


# ----------------------------------------------------------------------------- producers
def _fresh(*pts):
    return [np.array(p, dtype=float) for p in pts]


def _procedural(rng):
    import mouette as M
    P = M.procedural
    r = lambda: [rng.uniform(-2, 2) for _ in range(3)]  # noqa
    table = [
        ("ring_open", lambda: P.ring(rng.randint(3, 9), rng.uniform(0.0, 2.0), open=True)),
        ("ring_closed", lambda: P.ring(rng.randint(3, 9), rng.uniform(0.0, 2.0))),
        ("flat_ring", lambda: P.flat_ring(rng.randint(3, 9), rng.uniform(0.0, 2.0))),
        ("ring_multi_cover", lambda: P.ring(rng.randint(3, 7), rng.uniform(0.0, 1.5), open=rng.random() < 0.5, n_cover=rng.randint(2, 3))),
        ("flat_ring_multi_cover", lambda: P.flat_ring(rng.randint(3, 7), rng.uniform(0.0, 1.5), n_cover=rng.randint(2, 3))),
        ("triangle", lambda: P.triangle(*_fresh(r(), r(), r()))),
        ("quad", lambda: P.quad(*_fresh(r(), r(), r()), triangulate=rng.random() < 0.5)),
        ("unit_grid", lambda: P.unit_grid(rng.randint(2, 5), rng.randint(2, 5), triangulate=rng.random() < 0.5) if False else P.unit_grid(3, 3, triangulate=rng.random() < 0.5)),
        ("unit_triangle", lambda: P.unit_triangle(4, 4)),
        ("tetrahedron", lambda: P.tetrahedron(*_fresh(r(), r(), r(), r()), volume=rng.random() < 0.5)),
        ("axis_aligned_cube", lambda: P.axis_aligned_cube(triangulate=rng.random() < 0.5)),
        ("hexahedron_4pts", lambda: P.hexahedron_4pts(*_fresh([0, 0, 0], [1, 0, 0], [0, 1, 0], [0, 0, 1]))),
        ("octahedron", lambda: P.octahedron()),
        ("icosahedron", lambda: P.icosahedron()),
        ("dodecahedron", lambda: P.dodecahedron()),
        ("cylinder", lambda: P.cylinder(*_fresh(r(), r()), radius=rng.uniform(0.2, 2), N=rng.randint(3, 8), fill_caps=rng.random() < 0.5)),
        ("torus", lambda: P.torus(rng.randint(3, 6), rng.randint(3, 6), 1.0, 0.3, triangulate=rng.random() < 0.5)),
        ("sphere_uv", lambda: P.sphere_uv(rng.randint(3, 6), rng.randint(3, 6))),
        ("icosphere", lambda: P.icosphere(rng.randint(0, 1))),
        ("sphere_fibonacci", lambda: P.sphere_fibonacci(rng.randint(8, 20))),
        ("chain_of_vertices", lambda: P.chain_of_vertices(np.array([r() for _ in range(rng.randint(2, 6))]), loop=rng.random() < 0.5)),
        ("vector_field", lambda: P.vector_field(np.array([r() for _ in range(3)]), np.array([r() for _ in range(3)]))),
    ]
    return rng.choice(table)


PRODUCER_KINDS = ["raw_surface", "raw_volume", "raw_hexes", "raw_polyline", "raw_points", "from_arrays", "loader", "procedural", "subdivision", "boundary", "dual", "spherify",
                  "reorder", "loader_other"]


def _produce(ctx, rng, tmpdir, force=None):
    """Returns (mesh, producer name)."""
    import mouette as M
    k = force or rng.choice(["raw_surface", "raw_volume", "raw_volume", "raw_polyline", "raw_points", "from_arrays", "loader", "procedural", "procedural", "procedural",
                    "subdivision", "boundary", "dual", "spherify", "reorder", "loader_other"])
    if k == "reorder":
        # a mesh produced by renumbering the vertices of another one (the source is dropped)
        if rng.random() < 0.5:
            z = surfaces.make(rng.randrange(2 ** 31), max_size=3)
            src = build.surface(z["V"], z["F"], vrows=rng.choice(["list", "nprow", "vec"]))
        else:
            z = volumes.make(rng.randrange(2 ** 31), max_size=1)
            src = build.volume(z["V"], z["C"])
        perm = list(range(len(src.vertices)))
        rng.shuffle(perm)
        return M.mesh.mesh.reorder_vertices(src, perm if rng.random() < 0.5 else np.array(perm)), "reorder_vertices"
    if k == "loader_other":
        ext = rng.choice([".mesh", ".geogram_ascii", ".off", ".stl", ".tet", ".xyz"])
        if ext == ".tet":
            z = volumes.make(rng.randrange(2 ** 31), max_size=1)
            src = build.volume(z["V"], z["C"])
        elif ext == ".xyz":
            src = build.pointcloud(np.array([[rng.uniform(-1, 1) for _ in range(3)] for _ in range(rng.randint(2, 10))]))
        else:
            z = surfaces.make(rng.randrange(2 ** 31), max_size=3, tri_only=True)
            src = build.surface(z["V"], z["F"])
        path = os.path.join(tmpdir, "q%d%s" % (rng.randrange(10 ** 6), ext))
        M.mesh.save(src, path)
        return M.mesh.load(path), "loader" + ext
    if k == "raw_surface":
        z = surfaces.make(rng.randrange(2 ** 31), max_size=3)
        return build.surface(z["V"], z["F"], vrows=rng.choice(["list", "tuple", "nprow", "vec"])), k
    if k == "raw_hexes" or (k == "raw_volume" and rng.random() < 0.35):
        # hexahedral cells (6 faces, 8 corners per cell: the three corner containers differ), also with face completion switched off
        Vh, Ch = volumes.hex_block(volumes.random_cubes(rng, rng.randint(2, 4)))
        if rng.random() < 0.3:
            with build.config(complete_faces_from_cells=False):
                return build.volume(Vh, Ch), "raw_hexes:no_face_completion"
        return build.volume(Vh, Ch, vrows=rng.choice(["list", "nprow"])), "raw_hexes"
    if k == "raw_volume":
        if rng.random() < 0.2:
            z = volumes.make(rng.randrange(2 ** 31), max_size=1)
            with build.config(complete_faces_from_cells=False):
                return build.volume(z["V"], z["C"]), "raw_volume:no_face_completion"
        z = volumes.make(rng.randrange(2 ** 31), max_size=1)
        return build.volume(z["V"], z["C"], vrows=rng.choice(["list", "tuple", "nprow", "vec"])), k
    if k == "raw_polyline":
        V, E, _ = graphs.make(rng.randrange(2 ** 31), max_n=12)
        return build.polyline(V, E, vrows=rng.choice(["list", "nprow"])), k
    if k == "raw_points":
        V = np.array([[rng.uniform(-1, 1) for _ in range(3)] for _ in range(rng.randint(2, 10))])
        return build.pointcloud(V, vrows=rng.choice(["list", "nprow", "vec"])), k
    if k == "from_arrays":
        z = surfaces.make(rng.randrange(2 ** 31), max_size=3, tri_only=True)
        A = np.array(z["V"], float)
        # index arrays of any integer type that can hold the indices (uint8 / int16 rows stay what they are inside the mesh)
        dts = [np.int64, np.int32] + ([np.int16, np.uint16] if len(A) < 32000 else []) + ([np.uint8] if len(A) < 256 else [])
        dt = rng.choice(dts)
        if rng.random() < 0.4:
            # close to the capacity of an 8-bit index: 170-225 vertices held in uint8 rows (a merge shifts them past 255)
            g = rng.randint(12, 14)
            Vg, Fg, _ = surfaces.grid(g, g, "tri", rng)
            A, z, dt = np.array(Vg, float), {"F": Fg}, np.uint8
        m = M.mesh.from_arrays(A, F=np.array(z["F"], dtype=dt))
        return m, k + ":" + np.dtype(dt).name
    if k == "loader":
        z = surfaces.make(rng.randrange(2 ** 31), max_size=3)
        path = os.path.join(tmpdir, "p%d.obj" % rng.randrange(10 ** 6))
        with open(path, "w") as f:
            for p in z["V"]:
                f.write("v %r %r %r\n" % (float(p[0]), float(p[1]), float(p[2])))
            for face in z["F"]:
                f.write("f " + " ".join(str(v + 1) for v in face) + "\n")
        return M.mesh.load(path), k
    if k == "procedural":
        name, fn = _procedural(rng)
        return fn(), "procedural:" + name
    if k == "subdivision":
        z = surfaces.make(rng.randrange(2 ** 31), max_size=2)
        m0 = build.surface(z["V"], z["F"])
        with M.mesh.SurfaceSubdivision(m0) as ed:
            op = rng.choice(["triangulate", "loop", "3quads", "fan"])
            if op == "triangulate":
                ed.triangulate()
            elif op == "loop":
                ed.loop_subdivision(1)
            elif op == "3quads":
                ed.subdivide_triangles_3quads()
            else:
                ed.split_face_as_fan(0)
        return ed.mesh, "subdivision:" + op
    if k == "boundary":
        which = rng.choice(["boundary_mesh", "extract_volume", "extract_surface"])
        if which == "extract_surface":
            z = surfaces.make(rng.randrange(2 ** 31), max_size=3, closed=False)
            ms = build.surface(z["V"], z["F"])
            res = M.processing.extract_boundary_of_surface(ms)
            return res[0], "boundary:" + which
        z = volumes.make(rng.randrange(2 ** 31), max_size=1)
        mv = build.volume(z["V"], z["C"])
        if which == "boundary_mesh":
            mv.enable_boundary_connectivity()
            return mv.boundary_mesh, "boundary:" + which
        return M.processing.extract_boundary_of_volume(mv)[0], "boundary:" + which
    if k == "dual":
        z = surfaces.make(rng.randrange(2 ** 31), max_size=3, classes=["sphere", "octa", "torus_tri", "tetra"], closed=True, connected=True, combinators=False)
        return M.procedural.dual_mesh(build.surface(z["V"], z["F"])), "procedural:dual_mesh"
    V = np.array([[rng.uniform(-1, 1) for _ in range(3)] for _ in range(rng.randint(1, 3))])
    return M.procedural.spherify_vertices(build.pointcloud(V), radius=0.1, n_subdiv=0), "procedural:spherify_vertices"


# ----------------------------------------------------------------------------- shadow
def _store_precision(m):
    """Arithmetic on a vertex stored as a single-precision row (binary STL loader) is single precision: tolerances follow the stored dtype."""
    worst = 1.0
    try:
        for p in m.vertices:
            dt = getattr(p, "dtype", None)
            if dt is not None and dt.kind == "f" and dt.itemsize < 8:
                worst = max(worst, float(np.finfo(dt).eps) / float(np.finfo(float).eps))
    except Exception:
        pass
    return worst


def _coords(m):
    return np.array([np.asarray(p, dtype=float).reshape(-1)[:3] for p in m.vertices], dtype=float).reshape(-1, 3)


def _indices(m):
    out = {}
    for name in ("edges", "faces", "cells"):
        if hasattr(m, name):
            out[name] = [[int(x) for x in el] for el in getattr(m, name)]
    return out


class Shadow:
    def __init__(self, m, producer):
        self.V = _coords(m).copy()
        self.I = _indices(m)
        self.producer = producer
        self.prec = _store_precision(m)  # 1 for double-precision coordinates; eps32/eps64 when the producer stores single-precision rows
        self.cls = type(m).__name__


def _internal_alias(m):
    """pairs of vertex ids whose coordinate storage overlaps."""
    vs = list(m.vertices)
    seen = {}
    for i, p in enumerate(vs):
        if not isinstance(p, np.ndarray):
            continue
        key = p.__array_interface__["data"][0]
        if key in seen:
            return (seen[key], i)
        seen[key] = i
    return None


def _compare_pool(ctx, pool, shadows, producers, step_name, operated):
    scale = 1.0
    for j, (m, sh) in enumerate(zip(pool, shadows)):
        ctx.obs("shadow", "mesh_state")
        try:
            V = _coords(m)
            I = _indices(m)
        except Exception as e:
            ctx.violation("shadow", step_name, "mesh_unreadable", "a mesh of the pool cannot be read after the step: %s" % type(e).__name__, producer=sh.producer)
            raise CaseAbort()
        if I != sh.I:
            ctx.violation("shadow", step_name, "indices_changed", "element index lists of a mesh changed", producer=sh.producer, operated=(j == operated))
            raise CaseAbort()
        if V.shape != sh.V.shape:
            ctx.violation("shadow", step_name, "vertex_count_changed", "number of vertices of a mesh changed", producer=sh.producer)
            raise CaseAbort()
        if j == operated:
            continue
        if not np.array_equal(V, sh.V):
            bad = int(np.argmax(np.any(V != sh.V, axis=1)))
            ctx.violation("shadow", step_name, "bystander_mesh_changed",
                          "a step applied to one mesh changed another mesh of the pool (shared coordinate storage)",
                          changed_producer=sh.producer, operated_producer=shadows[operated].producer if operated is not None else None,
                          vertex=bad, before=sh.V[bad].tolist(), after=V[bad].tolist())
            raise CaseAbort()


def _check_operated(ctx, m, sh, want, op, tol, mech_prefix="transform"):
    V = _coords(m)
    ctx.obs("transform", op)
    scale = max(1.0, float(np.abs(want).max()) if want.size else 1.0)
    tol = (max(tol, 2.3e-16) if sh.prec > 1 else tol) * sh.prec  # a value written into a single-precision row is rounded to it
    if sh.prec > 1:
        ctx.note("producer_stores_single_precision_coordinates:" + sh.producer)
    if V.shape != want.shape or not np.all(np.abs(V - want) <= tol * scale):
        diff = np.abs(V - want).max(axis=1) if V.shape == want.shape else None
        bad = int(np.argmax(diff)) if diff is not None else -1
        # classify: moved twice / not moved
        info = {}
        if diff is not None:
            info = {"vertex": bad, "got": V[bad].tolist(), "want": want[bad].tolist(), "before": sh.V[bad].tolist(), "n_wrong": int(np.sum(diff > tol * scale))}
        ctx.violation("transform", op, "vertex_not_moved_exactly_once_by_requested_map", "after the transform some vertex is not map(previous position)",
                      producer=sh.producer, alias=_internal_alias(m), **info)
        raise CaseAbort()
    sh.V = V.copy()


def _origin(rng, m, sh):
    """Returns (argument passed to the library, value used by the shadow, tag).  The fixed point may be the very vector object the mesh stores
    for one of its vertices: the requested map is then 'about that vertex', evaluated on its position before the call."""
    import mouette as M
    r = rng.random()
    if r < 0.4 or len(sh.V) == 0:
        return None, np.zeros(3), "default"
    if r < 0.75:
        o = np.array([rng.uniform(-1, 1) for _ in range(3)])
        return M.Vec(o.copy()), o, "fresh"
    k = rng.randrange(len(sh.V))
    return m.vertices[k], sh.V[k].copy(), "own_vertex_object"


# ----------------------------------------------------------------------------- steps
def run_case(desc, ctx):
    import mouette as M
    from scipy.spatial.transform import Rotation
    rng = random.Random(desc["seed"])
    tmpdir = tempfile.mkdtemp(prefix="c06_")
    T = M.geometry.transform if hasattr(M.geometry, "transform") else M.transform
    try:
        pool, shadows = [], []
        for _ in range(rng.randint(2, 3) if not desc.get("force_kind") else 1):
            ok, (m, prod) = ctx.call("produce", _produce, ctx, rng, tmpdir, desc.get("force_kind"), monitor="producer")
            unit = rng.choice([1.0, 1.0, 1.0, 1.0, 1e-9, 1e7])
            if unit != 1.0 and len(m.vertices):
                # the producer's mesh expressed in very small / very large units
                for i in range(len(m.vertices)):
                    m.vertices[i] = M.Vec(np.asarray(m.vertices[i], float) * unit)
                prod += "@units%g" % unit
            if len(m.vertices) and rng.random() < 0.6:
                # user attributes on the mesh: a sparse vector attribute with some entries set, a dense scalar one
                try:
                    uv_ = m.vertices.create_attribute("user_vec", float, 3)
                    for i in range(0, len(m.vertices), 2):
                        uv_[i] = [float(i), 0.5 * i, -1.0]
                    ud_ = m.vertices.create_attribute("user_dense", int, 1, dense=True)
                    for i in range(len(m.vertices)):
                        ud_[i] = 7 * i
                    prod += "+user_attributes"
                except Exception as e:
                    ctx.note("user_attributes_not_attached:" + type(e).__name__)
            pool.append(m)
            shadows.append(Shadow(m, prod))
            ctx.cls("producer:" + prod)
        history = []
        made_by_copy_or_merge = set()
        nontrivial = False
        _compare_pool(ctx, pool, shadows, None, "initial", None)
        for step in range(desc["steps"]):
            kind = rng.choice(["copy", "merge", "translate", "translate", "rotate", "scale", "scale_xyz", "normalize", "fit", "to_origin", "flatten",
                               "flatten_default", "translate_zero", "edit_component", "edit_iadd", "edit_connectivity", "inverse_translate", "inverse_rotate", "inverse_scale"])
            if desc.get("force_steps"):
                kind = desc["force_steps"][step % len(desc["force_steps"])]
            j = rng.randrange(len(pool)) if not desc.get("force_steps") else 0
            m, sh = pool[j], shadows[j]
            history.append(kind)
            if len(sh.V) == 0:
                continue
            if kind == "copy" and len(pool) < 6:
                attrs = rng.random() < 0.5
                with_conn = rng.random() < 0.4
                if desc.get("force_steps"):
                    attrs = step % 2 == 0
                ok, c = ctx.call("copy", M.mesh.copy, m, attrs, with_conn, monitor="copy")
                ctx.obs("copy", "copy")
                if with_conn and hasattr(m, "connectivity"):
                    ctx.obs("copy", "copy_connectivity")
                    if c.connectivity is m.connectivity or getattr(c.connectivity, "mesh", None) is m:
                        ctx.violation("copy", "copy_connectivity", "copy_shares_connectivity_with_source",
                                      "copy(..., copy_connectivity=True) hands the copy the source's own connectivity object (shared mutable state, bound to the source mesh)",
                                      producer=sh.producer)
                # no coordinate storage shared between the copy and its source
                shared = False
                for a, b in zip(c.vertices, m.vertices):
                    if isinstance(a, np.ndarray) and isinstance(b, np.ndarray) and np.shares_memory(a, b):
                        shared = True
                        break
                for name in ("vertices", "edges", "faces", "cells", "face_corners", "cell_corners", "cell_faces"):
                    if hasattr(m, name) and getattr(m, name) is getattr(c, name):
                        shared = True
                for name in ("edges", "faces", "cells"):  # mutable index rows (lists / arrays) must not be the same objects either
                    if hasattr(m, name):
                        ids = {id(el) for el in getattr(m, name) if isinstance(el, (list, np.ndarray))}
                        if any(id(el) in ids for el in getattr(c, name)):
                            shared = True
                if shared:
                    ctx.violation("copy", "copy", "copy_shares_storage_with_source", "a copy shares containers or coordinate arrays with its source", producer=sh.producer)
                    raise CaseAbort()
                Vc, Ic = _coords(c), _indices(c)
                if type(c) is not type(m) or not np.array_equal(Vc, sh.V) or Ic != sh.I:
                    ctx.violation("copy", "copy", "copy_differs_from_source", "a copy does not equal its source", producer=sh.producer, with_attributes=attrs)
                    raise CaseAbort()
                # corner records (element, owner) and, when attributes are copied, every attribute value
                for name in ("face_corners", "cell_corners", "cell_faces"):
                    if hasattr(m, name):
                        try:
                            a_ = [(int(getattr(m, name).element(i)), int(getattr(m, name).adj(i))) for i in range(len(getattr(m, name)))]
                            b_ = [(int(getattr(c, name).element(i)), int(getattr(c, name).adj(i))) for i in range(len(getattr(c, name)))]
                        except Exception:
                            a_, b_ = 0, 1
                        if a_ != b_:
                            ctx.violation("copy", "copy", "copy_differs_from_source", "a copy does not equal its source (corner records)", producer=sh.producer, container=name)
                            raise CaseAbort()
                if attrs:
                    for name in ("vertices", "edges", "faces", "cells", "face_corners", "cell_corners", "cell_faces"):
                        if not hasattr(m, name):
                            continue
                        cm, cc = getattr(m, name), getattr(c, name)
                        if set(cm.attributes) != set(cc.attributes):
                            ctx.violation("copy", "copy", "copy_differs_from_source", "a copy with attributes does not carry the attributes of its source",
                                          producer=sh.producer, container=name, source=sorted(cm.attributes), copy=sorted(cc.attributes))
                            raise CaseAbort()
                        for an in cm.attributes:
                            am, ac = cm.get_attribute(an), cc.get_attribute(an)
                            if am is ac:
                                ctx.violation("copy", "copy", "copy_shares_storage_with_source", "a copy shares an attribute object with its source", producer=sh.producer, attribute=an)
                                raise CaseAbort()
                            for i in range(len(cm)):
                                if not np.array_equal(np.asarray(am[i]), np.asarray(ac[i])):
                                    ctx.violation("copy", "copy", "copy_differs_from_source", "an attribute value of the copy differs from its source",
                                                  producer=sh.producer, container=name, attribute=an, index=i)
                                    raise CaseAbort()
                            ctx.obs("copy", "attribute_values", len(cm))
                    # no shared mutable state in the attribute values either: an entry of the copy is updated in place, then one of the source
                    if m.vertices.has_attribute("user_vec") and c.vertices.has_attribute("user_vec"):
                        am, ac = m.vertices.get_attribute("user_vec"), c.vertices.get_attribute("user_vec")
                        before_m = [np.array(am[i], float) for i in range(len(m.vertices))]
                        try:
                            x = ac[0]
                            x += 5.0            # in place on the stored vector of the copy
                            ac[0] = x
                        except Exception as e:
                            ctx.note("in_place_attribute_edit_failed:" + type(e).__name__)
                        after_m = [np.array(am[i], float) for i in range(len(m.vertices))]
                        ctx.obs("copy", "attribute_isolation")
                        if any(not np.array_equal(a_, b_) for a_, b_ in zip(before_m, after_m)):
                            ctx.violation("copy", "copy", "copy_shares_storage_with_source", "updating an attribute value of the copy in place changed the source's attribute",
                                          producer=sh.producer, attribute="user_vec")
                            raise CaseAbort()
                        before_c = [np.array(ac[i], float) for i in range(len(c.vertices))]
                        try:
                            y = am[0]
                            y -= 3.0
                            am[0] = y
                        except Exception:
                            pass
                        if any(not np.array_equal(a_, b_) for a_, b_ in zip(before_c, [np.array(ac[i], float) for i in range(len(c.vertices))])):
                            ctx.violation("copy", "copy", "copy_shares_storage_with_source", "updating an attribute value of the source in place changed the copy's attribute",
                                          producer=sh.producer, attribute="user_vec")
                            raise CaseAbort()
                pool.append(c)
                shadows.append(Shadow(c, "copy(%s)" % sh.producer))
                made_by_copy_or_merge.add(len(pool) - 1)
                _compare_pool(ctx, pool, shadows, None, "copy", None)
            elif kind == "merge" and len(pool) < 6:
                idx = [j] + [rng.randrange(len(pool)) for _ in range(rng.randint(1, 2))]
                r_m = rng.random()
                if r_m < 0.3:
                    idx = [j, j]
                elif r_m < 0.5:
                    idx = [j]  # the smallest admissible list: one mesh (the library does this itself for a forest with one tree, one edge to cylindrify ...)
                ctx.cls("merge:%d_meshes%s" % (len(idx), "_same_mesh_twice" if idx == [j, j] else ""))
                ok, g = ctx.call("merge", M.mesh.merge, [pool[i] for i in idx], monitor="merge")
                ctx.obs("merge", "merge")
                want_V = np.vstack([shadows[i].V for i in idx])
                want_I = {}
                off = 0
                for i in idx:
                    for name, lst in shadows[i].I.items():
                        want_I.setdefault(name, []).extend([[v + off for v in el] for el in lst])
                    off += len(shadows[i].V)
                Vg, Ig = _coords(g), _indices(g)
                good = np.array_equal(Vg, want_V)
                # declared elements of every input must be present with shifted indices (edges/faces may be completed further)
                for name, lst in want_I.items():
                    have = Ig.get(name, [])
                    if name == "edges":
                        hs = {tuple(sorted(el)) for el in have}
                        if not all(tuple(sorted(el)) in hs for el in lst):
                            good = False
                    else:  # faces / cells keep their vertex order (orientation); the order of the elements is not prescribed
                        hs = {}
                        for el in have:
                            hs[tuple(el)] = hs.get(tuple(el), 0) + 1
                        for el in lst:
                            if hs.get(tuple(el), 0) <= 0:
                                good = False
                                break
                            hs[tuple(el)] -= 1
                if not good:
                    ctx.violation("merge", "merge", "merge_is_not_the_disjoint_union", "merge result is not the inputs with indices shifted by the running vertex count",
                                  producers=[shadows[i].producer for i in idx], same_twice=(len(set(idx)) < len(idx)))
                    raise CaseAbort()
                # no element object (mutable index row) of the result is an element object of an input
                ids = set()
                for i in idx:
                    for name in ("edges", "faces", "cells"):
                        if hasattr(pool[i], name):
                            ids.update(id(el) for el in getattr(pool[i], name) if isinstance(el, (list, np.ndarray)))
                shared_rows = any(id(el) in ids for name in ("edges", "faces", "cells") if hasattr(g, name) for el in getattr(g, name))
                if shared_rows:
                    ctx.violation("merge", "merge", "merge_shares_index_rows_with_an_input", "the merged mesh holds the very (mutable) index rows of one of its inputs",
                                  producers=[shadows[i].producer for i in idx])
                    raise CaseAbort()
                pool.append(g)
                shadows.append(Shadow(g, "merge(%s)" % ",".join(shadows[i].producer for i in idx)))
                made_by_copy_or_merge.add(len(pool) - 1)
                _compare_pool(ctx, pool, shadows, None, "merge", None)
            elif kind in ("translate", "inverse_translate"):
                t = np.array([rng.uniform(-3, 3) for _ in range(3)])
                if rng.random() < 0.15 and len(sh.V):
                    k0 = rng.randrange(len(sh.V))
                    t = sh.V[k0].copy()
                    targ = m.vertices[k0]  # the translation vector is the mesh's own stored vertex object
                    ctx.cls("translate_by_own_vertex_object")
                else:
                    targ = rng.choice([lambda x: M.Vec(x), lambda x: np.array(x), lambda x: M.Vec(x)])(t.copy())
                ctx.call("translate", T.translate, m, targ, monitor="transform")
                _check_operated(ctx, m, sh, sh.V + t, "translate", 1e-15)
                _compare_pool(ctx, pool, shadows, "translate", "translate", j)
                if kind == "inverse_translate":
                    before = sh.V - t
                    ctx.call("translate", T.translate, m, M.Vec(-t), monitor="transform")
                    _check_operated(ctx, m, sh, sh.V - t, "translate", 1e-15)
                    ctx.check(np.all(np.abs(sh.V - before) <= 1e-12 * sh.prec * max(1.0, np.abs(before).max())), "inverse", "translate", "inverse_does_not_restore",
                              "translate(t) then translate(-t) does not restore the coordinates", producer=sh.producer)
                    _compare_pool(ctx, pool, shadows, "translate", "translate", j)
            elif kind in ("rotate", "inverse_rotate"):
                R = Rotation.from_rotvec(np.array([rng.uniform(-1, 1) for _ in range(3)]) * rng.uniform(0.1, 3))
                oarg, o, otag = _origin(rng, m, sh)
                ctx.cls("origin:" + otag)
                form = rng.choice(["obj", "matrix", "euler"])
                if form == "obj":
                    arg = R
                elif form == "matrix":
                    arg = R.as_matrix()
                else:
                    arg = [float(x) for x in R.as_euler("xyz")]
                want = o + (sh.V - o) @ R.as_matrix().T
                before = sh.V.copy()
                ctx.call("rotate", T.rotate, m, arg, oarg, monitor="transform")
                _check_operated(ctx, m, sh, want, "rotate" + ("_about_own_vertex" if otag == "own_vertex_object" else ""), 1e-11)
                _compare_pool(ctx, pool, shadows, "rotate", "rotate", j)
                if kind == "inverse_rotate":
                    ctx.call("rotate", T.rotate, m, R.inv(), None if oarg is None else M.Vec(o.copy()), monitor="transform")
                    _check_operated(ctx, m, sh, o + (sh.V - o) @ R.inv().as_matrix().T, "rotate", 1e-11)
                    ctx.check(np.all(np.abs(sh.V - before) <= 1e-11 * sh.prec * max(1.0, np.abs(before).max())), "inverse", "rotate", "inverse_does_not_restore",
                              "rotate(R) then rotate(R^-1) does not restore the coordinates", producer=sh.producer)
                    _compare_pool(ctx, pool, shadows, "rotate", "rotate", j)
            elif kind in ("scale", "inverse_scale"):
                s = rng.choice([0.5, 2.0, 3.7, 0.1, -1.5])
                oarg, o, otag = _origin(rng, m, sh)
                ctx.cls("origin:" + otag)
                before = sh.V.copy()
                ctx.call("scale", T.scale, m, s, oarg, monitor="transform")
                _check_operated(ctx, m, sh, o + s * (sh.V - o), "scale" + ("_about_own_vertex" if otag == "own_vertex_object" else ""), 1e-13)
                _compare_pool(ctx, pool, shadows, "scale", "scale", j)
                if kind == "inverse_scale":
                    ctx.call("scale", T.scale, m, 1 / s, None if oarg is None else M.Vec(o.copy()), monitor="transform")
                    _check_operated(ctx, m, sh, o + (1 / s) * (sh.V - o), "scale", 1e-13)
                    ctx.check(np.all(np.abs(sh.V - before) <= 1e-12 * sh.prec * max(1.0, np.abs(before).max())), "inverse", "scale", "inverse_does_not_restore",
                              "scale(s) then scale(1/s) does not restore the coordinates", producer=sh.producer)
                    _compare_pool(ctx, pool, shadows, "scale", "scale", j)
            elif kind == "scale_xyz":
                f = [rng.choice([0.5, 2.0, 1.0, 3.0]) for _ in range(3)]
                oarg, o, otag = _origin(rng, m, sh)
                ctx.cls("origin:" + otag)
                ctx.call("scale_xyz", T.scale_xyz, m, f[0], f[1], f[2], oarg, monitor="transform")
                op = "scale_xyz_default_origin" if oarg is None else ("scale_xyz_about_own_vertex" if otag == "own_vertex_object" else "scale_xyz")
                _check_operated(ctx, m, sh, o + np.array(f) * (sh.V - o), op, 1e-13)
                _compare_pool(ctx, pool, shadows, "scale_xyz", "scale_xyz", j)
            elif kind in ("normalize", "fit"):
                span = sh.V.max(axis=0) - sh.V.min(axis=0)
                if not span.max() > 1e-6 * max(1e-300, float(np.abs(sh.V).max())):  # degenerate box only relative to the mesh's own size (tiny units are fine)
                    continue
                centred = (kind == "normalize")
                # conditioning: a small mesh far from the origin (a nano-scale mesh translated by a few units earlier in the history) loses
                # |coordinate| / extent digits in the subtraction of its centre; the box is then where documented up to that rounding
                cond = max(1.0, float(np.abs(sh.V).max()) / float(span.max()))
                if centred:
                    ctx.call("normalize", T.normalize, m, monitor="transform")
                    want = (sh.V - (sh.V.max(axis=0) + sh.V.min(axis=0)) / 2) * (2 / span.max())
                else:
                    if rng.random() < 0.5:
                        ctx.call("fit_into_unit_cube", T.fit_into_unit_cube, m, monitor="transform")
                    else:
                        ctx.call("normalize", T.normalize, m, False, monitor="transform")
                    want = (sh.V - sh.V.min(axis=0)) / span.max()
                _check_operated(ctx, m, sh, want, kind, 1e-11)
                lo, hi = sh.V.min(axis=0), sh.V.max(axis=0)
                ctx.obs("normalize", kind)
                tolb = 1e-11 * sh.prec + 16 * 2.3e-16 * cond * sh.prec
                if centred:
                    good = np.all(np.abs((lo + hi) / 2) <= tolb) and abs((hi - lo).max() - 2) <= tolb
                else:
                    good = np.all(np.abs(lo) <= tolb) and abs((hi - lo).max() - 1) <= tolb
                if not good:
                    ctx.violation("normalize", kind, "bounding_box_not_where_documented", "after normalising the bounding box is not where documented",
                                  lo=lo.tolist(), hi=hi.tolist(), producer=sh.producer)
                _compare_pool(ctx, pool, shadows, kind, kind, j)
            elif kind == "to_origin":
                ctx.call("translate_to_origin", T.translate_to_origin, m, monitor="transform")
                _check_operated(ctx, m, sh, sh.V - sh.V.mean(axis=0), "translate_to_origin", 1e-12)
                _compare_pool(ctx, pool, shadows, kind, kind, j)
            elif kind == "translate_zero":
                targ = rng.choice([lambda: M.Vec(0., 0., 0.), lambda: np.zeros(3), lambda: M.Vec(0, 0, 0)])()
                ctx.call("translate", T.translate, m, targ, monitor="transform")
                _check_operated(ctx, m, sh, sh.V.copy(), "translate", 0.0)
                _compare_pool(ctx, pool, shadows, "translate", "translate", j)
            elif kind == "flatten_default":
                # the documented default: the axis with the smallest variance.  Half of the time one vertex is first moved far out along that axis
                # (a direct edit), so that it is no longer the axis of smallest extent
                var = sh.V.var(axis=0)
                a = int(np.argmin(var))
                if rng.random() < 0.5 and len(sh.V) >= 12:
                    i = rng.randrange(len(sh.V))
                    x = float(sh.V[:, a].mean() + 1.5 * (sh.V.max(axis=0) - sh.V.min(axis=0)).max())
                    ctx.call("edit_component", lambda: m.vertices[i].__setitem__(a, x), monitor="transform")
                    want = sh.V.copy()
                    want[i, a] = x
                    _check_operated(ctx, m, sh, want, "edit_component", 0.0)
                    ctx.cls("flatten_default:after_outlier_edit")
                    var = sh.V.var(axis=0)
                a = int(np.argmin(var))
                rest = sorted(var)[1]
                if not (var[a] * 1.001 + 1e-12 * float(np.abs(sh.V).max()) ** 2 < rest):
                    ctx.note("flatten_default_skipped_two_axes_of_nearly_equal_variance")
                    continue
                ctx.cls("flatten_default:smallest_variance_is_%s" % ("also_smallest_extent" if a == int(np.argmin(sh.V.max(axis=0) - sh.V.min(axis=0))) else "not_smallest_extent"))
                ctx.call("flatten", T.flatten, m, monitor="transform")
                want = sh.V.copy()
                want[:, a] = 0.0
                _check_operated(ctx, m, sh, want, "flatten", 0.0)
                _compare_pool(ctx, pool, shadows, "flatten", "flatten", j)
            elif kind == "flatten":
                d = rng.randrange(3)
                ctx.call("flatten", T.flatten, m, d, monitor="transform")
                want = sh.V.copy()
                want[:, d] = 0.0
                _check_operated(ctx, m, sh, want, "flatten", 0.0)
                _compare_pool(ctx, pool, shadows, kind, kind, j)
            elif kind == "edit_component":
                i, k = rng.randrange(len(sh.V)), rng.randrange(3)
                x = rng.uniform(-5, 5)
                before_alias = _internal_alias(m)
                if hasattr(m.vertices[i], "z") and rng.random() < 0.5:
                    ok, _ = ctx.call("edit_component", lambda: setattr(m.vertices[i], "xyz"[k], x), monitor="transform")  # Vec.x / .y / .z setters
                else:
                    ok, _ = ctx.call("edit_component", lambda: m.vertices[i].__setitem__(k, x), monitor="transform")
                want = sh.V.copy()
                want[i, k] = x
                _check_operated(ctx, m, sh, want, "edit_component", 0.0)
                _compare_pool(ctx, pool, shadows, "edit", "edit", j)
            elif kind == "edit_connectivity":
                # in-place edit of an index row (cyclic rotation of a face / cell row that is a mutable list or array)
                name = "faces" if hasattr(m, "faces") and len(m.faces) else ("cells" if hasattr(m, "cells") and len(m.cells) else None)
                if name is None:
                    continue
                cont = getattr(m, name)
                k = rng.randrange(len(cont))
                row = cont[k]
                if isinstance(row, list):
                    row.append(row.pop(0))
                elif isinstance(row, np.ndarray):
                    row[:] = np.roll(row, -1)
                else:
                    continue
                ctx.cls("edit_connectivity:" + type(row).__name__)
                sh.I[name][k] = sh.I[name][k][1:] + sh.I[name][k][:1]
                ctx.obs("transform", "edit_connectivity")
                _compare_pool(ctx, pool, shadows, "edit_connectivity", "edit_connectivity", None)
            elif kind == "edit_iadd":
                i = rng.randrange(len(sh.V))
                d = np.array([rng.uniform(-1, 1) for _ in range(3)])

                def iadd():
                    v = m.vertices[i]
                    v += d
                ctx.call("edit_iadd", iadd, monitor="transform")
                want = sh.V.copy()
                want[i] += d
                _check_operated(ctx, m, sh, want, "edit_iadd", 1e-15)
                _compare_pool(ctx, pool, shadows, "edit", "edit", j)
            if made_by_copy_or_merge and kind not in ("copy", "merge") and (j not in made_by_copy_or_merge or len(made_by_copy_or_merge) > 1):
                nontrivial = True
        if nontrivial:
            ctx.nontrivial(stable_hash([[s.producer for s in shadows], history, desc["seed"]]))
        if len(history) <= 6:
            ctx.sample({"pool": [s.producer for s in shadows], "history": history})
    finally:
        shutil.rmtree(tmpdir, ignore_errors=True)
