"""C05 - attributes are total maps with defaults; sparse and dense storage agree.

Shape: history + sequential dict model, run in lock-step on a sparse (`Attribute`) and a dense (`ArrayAttribute`)
attribute of the same declaration.  After every step every index of the container is read back from both
storages and compared with the model (`mv/ref/attr_model.py`, independent of mouette).

Monitors
  answers    every in-range read of both storages == model (last value written, else default); as_array export
  lattice    writes are accepted / rejected as the statement's lattice says (bool->int->float only, exact arity),
             identically by both storages; a rejected write changes nothing
  bounds     the dense storage raises OutOfBoundsError for -1, len, len+1, ... (reads and writes)
  isolation  after `a[i] += x`, `a[i] *= x`, `v = a[i]; v[j] = y`, `v = a[i]; v += x` every other entry (written or
             never written) still reads what the model says
  align      after append / += list|tuple|set / += container the dense attribute has the container's length, the
             new entries read the default, by-standing attributes stay aligned
  registry   has_attribute / get_attribute / delete_attribute

A history ends at the first step after which the library's state can no longer be followed by the model
(`Diverged`), so that one defect is reported under one mechanism and not under its downstream symptoms.
"""
import itertools
import random

import numpy as np

from ..ctx import mouette_site, stable_hash
from ..ref import attr_model as R

ID = "C05"
RULE = ("seeded random operation histories (create / set accepted+rejected values / in-place updates / view mutations / "
        "append / += list,tuple,set / += container / clear / as_array / delete+recreate / out-of-range probes) applied in "
        "lock-step to a sparse and a dense attribute of the same declaration (5 value types x arity 1-4 x implicit or custom "
        "default x DataContainer or CornerDataContainer x separate or shared container), plus bounded-exhaustive enumeration "
        "of all histories up to a fixed length over a reduced alphabet (2 types x arity {1,3} x 3 indices); a history is "
        "non-trivial when the container grows after the attribute was created and a never-written entry is read afterwards; "
        "distinct = distinct (declaration, operation log) hash"
        "; variants: attributes registered from arrays, create over an existing name, array export as the first thing asked of a new attribute")
REQUIRED = {"answers": 100000, "answers/as_array": 2000, "lattice/accept": 3000, "lattice/reject": 2000, "lattice/agree": 100,
            "lattice/after_rejected_set": 2000, "lattice/inplace_write_back": 1000, "bounds": 20000, "bounds/get_at_len": 1000,
            "bounds/set_at_len": 1000, "isolation": 10000, "isolation/inplace_on_unset": 1000, "isolation/view_on_unset": 500,
            "align": 15000, "align/append": 1000, "align/iadd_container": 300, "registry": 1000, "exhaustive/histories": 5000}
CASE_TIMEOUT = {"quick": 30.0, "thorough": 900.0}
ASSUMPTIONS = ["integers stay within +-2^53 and strings within the 32 characters (no NUL) that the dense string dtype is documented to hold",
               "sparse attributes are not required to bound-check: out-of-range indices are only presented to the dense storage",
               "values of types outside mouette's five value types (numpy float16, int16, complex128, str_, ...) are only required "
               "to be treated identically by both storages",
               "in-place arithmetic is only issued on entries holding plain python / 64-bit values of one category, with an operand "
               "of that category (what numpy does with narrower or mixed dtypes is not the attribute's contract)",
               "the entry through which a view mutation (v = a[i]; v[j] = y) was made is itself not judged; every other entry is",
               "the exported array is never written to"]

PYTYPE = {"bool": bool, "int": int, "float": float, "complex": complex, "str": str}
ALIAS = {"bool": np.bool_, "int": np.int32, "float": np.float64}


class Diverged(Exception):
    """The model can no longer follow the library's state: the history ends here."""


# ============================================================================= the system under test
class Sys:
    def __init__(self, ctx, decl, seen):
        self.ctx = ctx
        self.decl = decl
        self.seen = seen          # mechanisms already reported in this case (each at most once per case)
        self.log = []
        self.grew = False
        self.cat = decl["type"]
        self.k = decl["arity"]
        self.kind = decl["container"]
        self.shared = decl["layout"] == "shared"
        self.uid = 0

    # ---- reporting ---------------------------------------------------------------------------------
    def viol(self, monitor, op, mech, what, **w):
        key = (monitor, op, mech)
        if key in self.seen:
            return
        self.seen.add(key)
        w.setdefault("declaration", {k: (R.show(v) if k == "default" else v) for k, v in self.decl.items()})
        w.setdefault("history", self.log[-14:])
        self.ctx.violation(monitor, op, mech, what, **w)

    def check(self, cond, monitor, op, mech, what, **w):
        self.ctx.obs(monitor, op)
        if not cond:
            self.viol(monitor, op, mech, what, **w)
            return False
        return True

    def call(self, monitor, site, fn, *args, expect=()):
        """Call into mouette.  (True, value) | (False, exc) for an expected exception.  An unexpected exception raised
        inside mouette is a violation and ends the history; one raised outside mouette is a harness error."""
        try:
            return True, fn(*args)
        except expect as e:  # noqa
            return False, e
        except Exception as e:
            where = mouette_site(e.__traceback__)
            if where is None:
                raise
            self.viol(monitor, site, "exception:%s@%s" % (type(e).__name__, where),
                      "unexpected %s in %s: %s" % (type(e).__name__, site, str(e)[:160]))
            raise Diverged()

    # ---- construction ------------------------------------------------------------------------------
    def _new_container(self, n, tag):
        from mouette.mesh.mesh_data import DataContainer, CornerDataContainer
        if self.kind == "data":
            c = DataContainer(id=tag)
            for _ in range(n):
                c.append(self._elem())
        else:
            c = CornerDataContainer(id=tag)
            for _ in range(n):
                c.append(*self._elem())
        return c

    def _elem(self):
        self.uid += 1
        if self.kind == "data":
            return (self.uid, self.uid + 1, self.uid + 2) if self.uid % 3 else self.uid
        return (self.uid, self.uid // 3)

    def containers(self):
        return [self.cs] if self.shared else [self.cs, self.cd]

    def build(self, rng):
        from mouette.mesh import mesh_attributes as MA
        self.MA = MA
        self.OOB = MA.Attribute.OutOfBoundsError
        self.REJECT = (MA.Attribute.InvalidSizeError, MA.Attribute.TypeNotMatchingError, ValueError, TypeError)
        n0 = self.decl["n0"]
        self.cs = self._new_container(n0, "sparse_side")
        self.cd = self.cs if self.shared else self._new_container(n0, "dense_side")
        self.by = None
        self.ms = R.AttrModel(self.cat, self.k, self.decl["default"], n0)
        self.md = self.ms.copy()
        self.create(rng)
        if self.shared:
            ok, self.by = self.call("align", "create_bystander", lambda: self.cd.create_attribute("by", int, 2, dense=True))

    def create(self, rng):
        d = self.decl
        typ = ALIAS[self.cat] if (d.get("type_alias") and self.cat in ALIAS) else PYTYPE[self.cat]
        kw = {}
        if d["default"] is not None:
            kw["default_value"] = d["default"]
        n = len(self.cd)
        size_kw = {"size": n} if rng.random() < 0.3 else {}
        if self.k == 1 and rng.random() < 0.5:
            mk_s = lambda: self.cs.create_attribute("sp", typ, **kw)
            mk_d = lambda: self.cd.create_attribute("de", typ, dense=True, **kw, **size_kw)
        else:
            mk_s = lambda: self.cs.create_attribute("sp", typ, self.k, **kw)
            mk_d = lambda: self.cd.create_attribute("de", typ, elem_size=self.k, dense=True, **kw, **size_kw)
        via = d.get("via_array") if (self.cat != "str" and n > 0) else None
        if via:
            # the dense attribute is an existing numpy array handed to the container (register_array_as_attribute); the array holds the
            # default everywhere, so the attribute starts in the same state as a freshly created one.  "over_existing": the name is
            # already taken by another dense attribute with other content, which the documentation says is overridden.
            dt = {"bool": np.bool_, "int": np.int64, "float": np.float64, "complex": np.complex128}[self.cat]
            fill = self.ms.default[0]
            arr = np.full((n,) if (self.k == 1 and via == "flat") else (n, self.k), fill, dtype=dt)
            if via == "over_existing":
                ok, old = self.call("registry", "create_dense", lambda: self.cd.create_attribute("de", typ, elem_size=self.k, dense=True))
                for i in range(n):
                    w = R.gen_scalar(rng, self.cat, numpy_ok=False)
                    if R.comps_in_bounds([w]):
                        self.call("registry", "create_dense", old.__setitem__, i, w if self.k == 1 else [w] * self.k)
            mk_d = lambda: self.cd.register_array_as_attribute("de", arr, **kw)
            self.ctx.cls("dense_created:register_array_" + via)
        ok, self.sp = self.call("registry", "create_sparse", mk_s)
        ok, self.de = self.call("registry", "create_dense", mk_d)
        if via:
            ok, got = self.call("registry", "get_attribute", self.cd.get_attribute, "de", expect=(Exception,))
            if not self.check(self.de is not None and ok and got is self.de, "registry", "register_array", "registered_array_is_not_the_attribute_of_that_name",
                              "register_array_as_attribute(name, array) did not make (and return) the attribute answered under that name"
                              + (" when the name was already taken" if via == "over_existing" else ""), returned=type(self.de).__name__):
                raise Diverged()
        self.check(isinstance(self.sp, self.MA.Attribute) and isinstance(self.de, self.MA.ArrayAttribute), "registry", "create",
                       "wrong_storage_class", "create_attribute(dense=False/True) did not give Attribute/ArrayAttribute",
                       got=[type(self.sp).__name__, type(self.de).__name__])
        self.ms.clear()
        self.md.clear()
        self.log.append("create %s x%d default=%s on %d elements" % (self.cat, self.k, R.show(d["default"]) if d["default"] is not None else "implicit", n))

    def probe_foreign_default(self, rng):
        """A default value of another value type: both storages must take the same decision at creation."""
        other = rng.choice([c for c in R.CATS if c != self.cat])
        d = R.gen_scalar(rng, other, numpy_ok=False)
        if not R.comps_in_bounds([d]):
            return
        res = []
        for c, dense, nm in ((self.cs, False, "tmp_s"), (self.cd, True, "tmp_d")):
            ok, e = self.call("lattice", "create_default",
                              lambda: c.create_attribute(nm, PYTYPE[self.cat], self.k, dense=dense, default_value=d), expect=(Exception,))
            res.append("accept" if ok else "reject")
            self.call("lattice", "create_default", c.delete_attribute, nm)
        self.check(res[0] == res[1], "lattice", "create_default", "storages_disagree_on_default_of_another_type",
                   "create_attribute with a default of another value type is accepted by one storage and rejected by the other",
                   default=repr(d), sparse=res[0], dense=res[1])

    # ---- values ------------------------------------------------------------------------------------
    def mkvalue(self, shape, comps, how="list"):
        """Materialise a source value.  Returns (value, comps as the attribute will see them)."""
        if shape == "scalar":
            return comps[0], [comps[0]]
        if how == "tuple":
            return tuple(comps), list(comps)
        if how in ("vec", "ndarray"):
            arr = np.asarray(comps) if len(comps) else np.zeros(0)
            if arr.ndim != 1:
                return list(comps), list(comps)
            if how == "vec":
                from mouette.geometry import Vec
                arr = Vec(arr)
            return arr, list(arr)
        return list(comps), list(comps)

    def default_value_for_write(self):
        d = self.ms.default
        return d[0] if self.k == 1 else list(d)

    # ---- checks ------------------------------------------------------------------------------------
    def _read(self, attr, i, monitor, op):
        return self.call(monitor, op, attr.__getitem__, i)[1]

    def check_answers(self, monitor, op, skip=None, focus=None, old_n=None):
        """Every index of the container, both storages, against the model.  Observations are counted under
        (monitor, op); a disagreement is named after what the monitor was watching (isolation: which entry relative to
        the updated one; align: old or new entry; lattice: changed by a rejected write), not after the individual step."""
        n = self.ms.n
        nobs = 0
        for name, attr, model in (("sparse", self.sp, self.ms), ("dense", self.de, self.md)):
            for i in range(n):
                if i == skip:
                    continue
                got = self._read(attr, i, monitor, op)
                want = model.get(i)
                nobs += 1
                if R.same(got, want):
                    if self.k == 1 and not model.is_written(i) and np.ndim(got) != 0:
                        # one value per element: an entry that was never written reads as the (scalar) default in both storages
                        self.viol("answers", "get", "%s_unset_entry_of_arity_1_is_not_a_scalar" % name,
                                  "%s storage: a never-written entry of a one-value-per-element attribute reads as a sequence, not as the scalar default" % name,
                                  index=i, got=R.show(got), storage=name)
                        raise Diverged()
                    continue
                g = R.flat(got)
                status = "written" if model.is_written(i) else "unset"
                if g is None or len(g) != len(want):
                    vm, vo, mech = "answers", "get", "%s_%s_entry_wrong_arity" % (name, status)
                elif focus is not None:
                    vm, vo = "isolation", op
                    mech = "%s_%s_%s_entry_wrong_value" % (name, "updated" if i == focus else "other", status)
                elif monitor == "lattice":
                    vm, vo, mech = "lattice", "after_rejected_set", "%s_%s_entry_changed_by_rejected_write" % (name, status)
                elif monitor == "align":
                    vm, vo = "align", "grow"
                    mech = ("%s_new_entry_not_default" % name) if (old_n is not None and i >= old_n) else "%s_old_%s_entry_changed" % (name, status)
                else:
                    vm, vo, mech = monitor, op, "%s_%s_entry_wrong_value" % (name, status)
                self.viol(vm, vo, mech,
                          "%s storage: entry %d (%s) reads %s, the model (last value written, else default) says %s"
                          % (name, i, status, R.show(got), R.show(want)),
                          index=i, got=R.show(got), want=R.show(want), storage=name, container_length=n, after=op)
                self.ctx.obs(monitor, op, nobs)
                raise Diverged()
        self.ctx.obs(monitor, op, nobs)

    def check_as_array(self, op="as_array", with_size=True):
        n = self.ms.n
        shapes = {}
        for name, attr, model in (("sparse", self.sp, self.ms), ("dense", self.de, self.md)):
            if name == "sparse" or with_size:
                ok, arr = self.call("answers", "as_array", attr.as_array, n)
            else:
                ok, arr = self.call("answers", "as_array", attr.as_array)
            good = isinstance(arr, np.ndarray) and arr.size == n * self.k
            if not self.check(good, "answers", "as_array", "%s_wrong_shape" % name,
                                  "%s as_array(len) does not hold len x arity values" % name,
                                  shape=list(getattr(arr, "shape", [])), want=[n, self.k]):
                raise Diverged()
            shapes[name] = tuple(np.shape(arr))
            rows = np.asarray(arr).reshape(n, self.k)
            for i in range(n):
                if not R.same(rows[i], model.get(i)):
                    self.viol("answers", "as_array", "%s_wrong_values" % name,
                              "%s as_array row %d is %s, model says %s" % (name, i, R.show(rows[i]), R.show(model.get(i))),
                              index=i, got=R.show(rows[i]), want=R.show(model.get(i)))
                    raise Diverged()
            self.ctx.obs("answers", "as_array", n)
        # the two storages give the same answer: the exported arrays have the same shape whatever the container size (one element included)
        if len(shapes) == 2 and not self.check(shapes["sparse"] == shapes["dense"], "answers", "as_array", "sparse_and_dense_exports_differ_in_shape",
                                               "as_array of the sparse and of the dense storage of the same attribute have different shapes",
                                               sparse=list(shapes["sparse"]), dense=list(shapes["dense"]), container_length=n, arity=self.k):
            raise Diverged()

    def check_align(self, op):
        n = self.ms.n
        for c in self.containers():
            if not self.check(len(c) == n and c.size == n, "align", op, "container_length_wrong",
                                  "container length differs from the number of appended elements", got=len(c), want=n):
                raise Diverged()
        if self.kind != "data":
            # corner containers hold (element, owner) records: every record appended must still be there, paired as it was given
            # (the harness appends owner = element // 3)
            for c in self.containers():
                for i in range(n):
                    ok, rec = self.call("align", op, lambda: (c.element(i), c.adj(i)), expect=(IndexError,))
                    if not self.check(ok and int(rec[1]) == int(rec[0]) // 3, "align", op, "corner_record_lost_or_mispaired",
                                      "a corner container no longer answers (element, owner) as appended", index=i, got=repr(rec)[:60]):
                        raise Diverged()
        attrs = [("dense", self.de)] + ([("bystander", self.by)] if self.by is not None else [])
        for name, a in attrs:
            ok, ln = self.call("align", op, len, a)
            if not self.check(ln == n, "align", op, "%s_attribute_length_differs_from_container" % name,
                                  "after %s the %s attribute has length %s while its container has %d elements" % (op, name, ln, n),
                                  attribute_length=ln, container_length=n):
                raise Diverged()
        if self.by is not None:
            for i in range(n):
                got = self._read(self.by, i, "align", op)
                if not self.check(R.same(got, [0, 0]), "align", op, "bystander_entry_not_default",
                                      "a never-written entry of a second dense attribute of the same container does not read its default",
                                      index=i, got=R.show(got)):
                    raise Diverged()

    def probe_bounds(self, rng, after):
        """Dense storage: every index outside [0, len) is out of bounds, for reads and for writes."""
        n = self.md.n
        probes = [("minus1", -1), ("len", n), ("len_plus1", n + 1), ("far", n + 2 + rng.randrange(100))]
        if n > 0:
            probes.append(("minus_len", -n))
        v = self.default_value_for_write()
        for label, idx in probes:
            key = np.int64(idx) if rng.random() < 0.2 else idx
            for kind in ("get", "set"):
                op = "%s_at_%s" % (kind, label)
                try:
                    if kind == "get":
                        self.de[key]
                    else:
                        self.de[key] = v
                    raised = None
                except Exception as e:
                    raised = e
                self.ctx.obs("bounds", op)
                if isinstance(raised, self.OOB):
                    continue
                if raised is None:
                    self.viol("bounds", op, "out_of_range_index_accepted",
                              "dense attribute of length %d answered / accepted index %d" % (n, idx), index=idx, length=n, after=after)
                    if kind == "set":
                        raise Diverged()
                else:
                    self.viol("bounds", op, "%s_instead_of_OutOfBoundsError" % type(raised).__name__,
                              "dense attribute of length %d: index %d raised %s (%s) instead of OutOfBoundsError"
                              % (n, idx, type(raised).__name__, str(raised)[:100]), index=idx, length=n, after=after)

    # ---- operations --------------------------------------------------------------------------------
    def op_set(self, i, shape, comps, how="list"):
        value, seen = self.mkvalue(shape, comps, how)
        verdict, reason = R.expected_write(shape, seen, self.cat, self.k)
        srccats = "/".join(sorted({R.category(c) or "other" for c in seen})) or "empty"
        self.log.append("a[%d] = %s%s" % (i, R.show(value) if shape == "seq" else repr(value), "" if shape == "scalar" else " (%s)" % how))
        self.ctx.cls("write:%s->%s:%s" % (srccats if "/" not in srccats else "mixed", self.cat, verdict or "not_judged"))
        res = {}
        for name, attr in (("sparse", self.sp), ("dense", self.de)):
            ok, r = self.call("lattice", "set", attr.__setitem__, i, value, expect=self.REJECT)
            res[name] = "accept" if ok else "reject"
        if verdict is None:
            if not self.check(res["sparse"] == res["dense"], "lattice", "agree", "storages_disagree_on_%s" % reason,
                                  "sparse and dense storage do not treat the same value alike", value=R.show(value), sparse=res["sparse"],
                                  dense=res["dense"], index=i):
                raise Diverged()
        else:
            for name in ("sparse", "dense"):
                if res[name] == verdict:
                    self.ctx.obs("lattice", verdict)
                    continue
                self.ctx.obs("lattice", verdict)
                if verdict == "accept":
                    mech = "%s_rejected_castable_value" % name
                    what = "%s storage rejected a value the lattice bool->int->float admits" % name
                else:
                    mech = "%s_accepted_%s" % (name, reason.split(":")[0])
                    what = "%s storage accepted a value that must be rejected (%s)" % (name, reason)
                self.viol("lattice", "set", mech, what, value=R.show(value), value_kind=how if shape == "seq" else "scalar",
                          index=i, sparse=res["sparse"], dense=res["dense"], source_types=srccats, attribute_type=self.cat, reason=reason)
            if res["sparse"] != verdict or res["dense"] != verdict:
                raise Diverged()
        if res["sparse"] == "accept":
            stored = list(value) if (shape == "scalar" and self.k > 1) else seen
            self.ms.set(i, stored)
            self.md.set(i, stored)
            self.check_answers("answers", "after_set")
        else:
            self.check_answers("lattice", "after_rejected_set")

    def op_set_many(self, idxs, comps, how):
        """The same source object written to several entries."""
        value, seen = self.mkvalue("seq" if self.k > 1 else "scalar", comps, how)
        self.log.append("a[i] = same %s object for i in %s" % (how, idxs))
        for attr in (self.sp, self.de):
            for i in idxs:
                self.call("lattice", "set_same_object", attr.__setitem__, i, value)
        for i in idxs:
            self.ms.set(i, seen)
            self.md.set(i, seen)
        self.check_answers("answers", "after_set")

    def arith_category(self, i):
        """Category of an arithmetic operand usable on entry i in both storages, or None."""
        es, ed = R.entry_category(self.ms.get(i)), R.entry_category(self.md.get(i))
        if es is None or es != ed or not R.same_comps(self.ms.get(i), self.md.get(i)):
            return None
        if es == "bool" and self.cat != "bool":
            return None
        if not R.castable(es, self.cat):
            return None
        return es

    def op_inplace(self, i, op, x):
        """a[i] += x / a[i] *= x / a[i] ^= x : read, in-place operation on what was read, write back."""
        status = "written" if self.ms.is_written(i) else "unset"
        xs = x.tolist() if isinstance(x, np.ndarray) else x
        self.log.append("a[%d] %s %s   # entry was %s" % (i, {"iadd": "+=", "imul": "*=", "ixor": "^="}[op], R.show(xs), status))

        def f(a):
            if op == "iadd":
                a[i] += x
            elif op == "imul":
                a[i] *= x
            else:
                a[i] ^= x
        site = "inplace_on_%s" % status
        res, errs = {}, {}
        for name, attr in (("sparse", self.sp), ("dense", self.de)):
            ok, e = self.call("isolation", site, f, attr, expect=self.REJECT)
            if not ok and mouette_site(e.__traceback__) is None:
                raise e                      # raised by numpy / the harness, not by the attribute: harness error
            res[name] = ok
            errs[name] = None if ok else "%s: %s" % (type(e).__name__, str(e)[:100])
        if not self.check(res["sparse"] == res["dense"], "lattice", "inplace_write_back",
                          "storages_disagree_on_write_back_of_updated_%s_entry" % self.cat,
                          "a[i] %s x on a %s attribute: one storage accepts the updated value (computed from what a[i] returned), "
                          "the other rejects it" % (op, self.cat), index=i, sparse=errs["sparse"] or "accepted",
                          dense=errs["dense"] or "accepted", arity=self.k):
            raise Diverged()
        if res["sparse"]:
            for model in (self.ms, self.md):
                model.set(i, R.apply_op(op, model.get(i), xs))
            self.check_answers("isolation", site, focus=i)
        else:
            # rejected by both: nothing was written, but what a[i] returned may have been updated in place
            self.ctx.note("inplace_write_back_rejected_by_both:%s_x%d" % (self.cat, self.k))
            self.check_answers("isolation", site, skip=i, focus=i)
            self._adopt(i, site, status)

    def _adopt(self, i, site, status):
        """Entry i was reachable through a returned value that was changed in place: read it back, do not judge it."""
        for name, attr, model in (("sparse", self.sp, self.ms), ("dense", self.de, self.md)):
            got = self._read(attr, i, "isolation", site)
            g = R.flat(got)
            if not self.check(g is not None and len(g) == self.k, "answers", "get", "%s_%s_entry_wrong_arity" % (name, status),
                              "entry read after an in-place change of the value it returned does not have the attribute's arity", got=R.show(got)):
                raise Diverged()
            if not R.same(g, model.get(i)):
                model.set(i, g)
                self.ctx.note("view_mutation_visible_in_%s_%s_entry" % (name, status))
            else:
                self.ctx.note("view_mutation_not_visible_in_%s_%s_entry" % (name, status))

    def op_view(self, i, how, j, y):
        """v = a[i]; v[j] = y   or   v = a[i]; v += y   (no write back).  Entry i itself is not judged."""
        status = "written" if self.ms.is_written(i) else "unset"
        if how == "setitem":
            self.log.append("v = a[%d]; v[%d] = %r   # entry was %s" % (i, j, y, status))
        else:
            self.log.append("v = a[%d]; v += %r   # entry was %s" % (i, y, status))

        def f(a):
            v = a[i]
            if not (isinstance(v, np.ndarray) and v.shape == (self.k,)):
                self.ctx.note("view_mutation_skipped_value_is_%s" % type(v).__name__)
                return
            if how == "setitem":
                v[j] = y
            else:
                v += y
        site = "view_on_%s" % status
        for attr in (self.sp, self.de):
            self.call("isolation", site, f, attr)
        self.check_answers("isolation", site, skip=i, focus=i)
        self._adopt(i, site, status)

    def _apply_growth(self, opname, how, m, other_attrs, self_append):
        """Grow every container of the system the same way; returns the number of new elements."""
        grown = None
        for c in ([self.cd] if self.shared else [self.cd, self.cs]):      # dense side first
            n_before = len(c)
            if how == "append":
                e = self._elem()
                args = (e,) if self.kind == "data" else tuple(e)
                fn = lambda c=c, args=args: c.append(*args)
                grown = 1
            elif how in ("list", "tuple", "set"):
                elems = [self._elem() for _ in range(m)]
                coll = {"list": list, "tuple": tuple, "set": set}[how](elems)
                fn = lambda c=c, coll=coll: c.__iadd__(coll)
                grown = m
            else:
                if self_append:
                    other = c
                    grown = n_before
                else:
                    other = self._new_container(m, "other")
                    grown = m
                    if other_attrs:
                        oa = other.create_attribute("sp", PYTYPE[self.cat], self.k)
                        ob = other.create_attribute("zz", float, 1, dense=True)
                        if m:
                            ob[0] = 4.5
                            oa[m - 1] = self.default_value_for_write()
                fn = lambda c=c, other=other: c.__iadd__(other)
            self.ctx.obs("align", opname)          # the attempt itself is an observation (it may fail)
            self.call("align", opname, fn)
        return grown

    def op_grow(self, rng, how, m, other_attrs=False, self_append=False):
        """append / += list|tuple|set / += container."""
        opname = {"append": "append", "list": "iadd_list", "tuple": "iadd_tuple", "set": "iadd_set", "container": "iadd_container"}[how]
        self.log.append({"append": "container.append(e)", "container": "container += %s container of %d%s" % (
            "the same" if self_append else "another", m, " carrying attributes" if other_attrs else "")}.get(how, "container += %s of %d" % (how, m)))
        try:
            grown = self._apply_growth(opname, how, m, other_attrs, self_append)
        except Diverged:
            # the append itself failed: say whether it left container and attribute misaligned
            ok, ln = self.call("align", opname, len, self.de)
            if len(self.cd) != ln:
                self.viol("align", opname, "dense_attribute_length_differs_from_container",
                          "after the failed %s the dense attribute has length %s while its container has %d elements"
                          % (opname, ln, len(self.cd)), attribute_length=ln, container_length=len(self.cd))
            raise
        old_n = self.ms.n
        self.ms.grow(grown)
        self.md.grow(grown)
        self.check_align(opname)
        self.check_answers("align", opname, old_n=old_n)
        if rng.random() < 0.4:
            self.check_as_array(with_size=rng.random() < 0.5)
        if grown:
            self.grew = True

    def op_clear(self):
        self.log.append("attr.clear()")
        self.call("answers", "clear", self.sp.clear)
        self.call("answers", "clear", self.de.clear)
        self.ms.clear()
        self.md.clear()
        self.check_answers("answers", "after_clear")

    def op_registry(self, rng, delete):
        for c, name, which in ((self.cs, "sp", "sparse"), (self.cd, "de", "dense")):
            ok, h = self.call("registry", "has_attribute", c.has_attribute, name)
            self.check(h is True, "registry", "has_attribute", "existing_attribute_not_reported", "has_attribute is not True for a created attribute", got=repr(h))
            ok, h = self.call("registry", "has_attribute", c.has_attribute, "no_such_attribute")
            self.check(h is False, "registry", "has_attribute", "absent_attribute_reported", "has_attribute is not False for an unknown name", got=repr(h))
            ok, a = self.call("registry", "get_attribute", c.get_attribute, name)
            if which == "sparse":
                self.sp = a
            else:
                self.de = a
        self.log.append("a = container.get_attribute(name)")
        self.check_answers("registry", "get_attribute")
        if delete and rng.random() < 0.35:
            # created again under the same name WITHOUT deleting first: documented to override the existing attribute (a new attribute,
            # every entry at its default), whatever config.display_duplicate_attribute_warning says
            self.log.append("create_attribute(name, same declaration) over the existing attribute")
            self.ctx.cls("op:create_over_existing")
            self.create(rng)
            self.check_answers("registry", "create_over_existing")
            self.check_align("create_over_existing")
        elif delete:
            self.log.append("delete_attribute(name); create_attribute(name, same declaration)")
            for c, name in ((self.cs, "sp"), (self.cd, "de")):
                self.call("registry", "delete_attribute", c.delete_attribute, name)
                ok, h = self.call("registry", "has_attribute", c.has_attribute, name)
                self.check(h is False, "registry", "delete_attribute", "deleted_attribute_still_reported", "has_attribute is True after delete_attribute", got=repr(h))
                ok, e = self.call("registry", "get_attribute", c.get_attribute, name, expect=(Exception,))
                self.check(not ok, "registry", "delete_attribute", "deleted_attribute_still_returned", "get_attribute answers after delete_attribute")
            if rng.random() < 0.4:
                how, m = rng.choice([("container", 2), ("container", 0), ("list", 1), ("append", 1)])
                self.log.append("  (meanwhile: %s of %d while the attribute does not exist)" % (how, m))
                g = self._apply_growth({"container": "iadd_container", "list": "iadd_list", "append": "append"}[how], how, m, rng.random() < 0.5, False)
                self.ms.grow(g)
                self.md.grow(g)
            self.create(rng)
            self.check_answers("registry", "recreate")
            self.check_align("recreate")


# ============================================================================= random histories
def _gen_write(rng, cat, k):
    """-> (shape, comps, how) of a source value for a write into (cat, k)."""
    src = cat if rng.random() < 0.55 else rng.choice(R.CATS)
    how = rng.choice(["list", "list", "tuple", "vec", "ndarray"])
    q = rng.random()
    if k == 1:
        if q < 0.84:
            return "scalar", [R.gen_scalar(rng, src)], "scalar"
        if q < 0.92:
            return "seq", [R.gen_scalar(rng, src) for _ in range(rng.choice([0, 1, 2, 3]))], how
        if q < 0.97:
            return "scalar", [R.gen_unsupported(rng)], "scalar"
        return "scalar", [None], "scalar"
    if q < 0.74:
        return "seq", [R.gen_scalar(rng, src) for _ in range(k)], how
    if q < 0.86:
        return "seq", [R.gen_scalar(rng, src) for _ in range(rng.choice([0, 1, k - 1, k + 1, 2 * k]))], how
    if q < 0.91:
        return "scalar", [R.gen_scalar(rng, src)], "scalar"
    if q < 0.94:
        return "seq", [R.gen_unsupported(rng) for _ in range(k)], rng.choice(["list", "tuple"])
    # mixed vector: components of two categories (python containers keep them apart)
    other = rng.choice([c for c in R.CATS if c != src])
    comps = [R.gen_scalar(rng, src, numpy_ok=False)] + [R.gen_scalar(rng, rng.choice([src, other]), numpy_ok=False) for _ in range(k - 1)]
    if all(R.category(c) == src for c in comps):
        comps[-1] = R.gen_scalar(rng, other, numpy_ok=False)
    return "seq", comps, rng.choice(["list", "tuple"])


def _gen_accepted(rng, cat, k):
    srcs = [c for c in R.CATS if R.castable(c, cat)]
    src = cat if rng.random() < 0.7 else rng.choice(srcs)
    numpy_ok = rng.random() < 0.4
    if k == 1:
        return "scalar", [R.gen_scalar(rng, src, numpy_ok)], "scalar"
    how = rng.choice(["list", "tuple", "vec", "ndarray"])
    if src in ("complex", "str"):
        how = rng.choice(["list", "tuple"])      # numpy would turn them into complex128 / str_ (not judged)
    return "seq", [R.gen_scalar(rng, src, numpy_ok) for _ in range(k)], how


def _pick_index(rng, model, prefer_unset):
    """Index for the next operation.  With prefer_unset (in-place / view operations) a never-written entry is only
    chosen when a second never-written entry exists, so that a change of the shared default is visible at once."""
    n = model.n
    if n == 0:
        return None
    if not prefer_unset:
        return rng.randrange(n)
    un = model.unset_indices()
    wr = [i for i in range(n) if model.is_written(i)]
    if len(un) >= 2 and (not wr or rng.random() < 0.7):
        return rng.choice(un)
    if wr:
        return rng.choice(wr)
    return None


def _random_step(S, rng):
    """One random operation on the system; returns the operation name."""
    cat, k = S.cat, S.k
    n = S.ms.n
    r = rng.random()
    if n == 0 and r < 0.62:
        r = 0.62 + rng.random() * 0.2
    if r < 0.20:
        i = _pick_index(rng, S.ms, False)
        S.op_set(i, *_gen_accepted(rng, cat, k))
        return "set_accepted"
    if r < 0.34:
        i = _pick_index(rng, S.ms, False)
        for _ in range(8):
            shape, comps, how = _gen_write(rng, cat, k)
            if R.comps_in_bounds([c for c in comps if c is not None]):
                break
        else:
            shape, comps, how = _gen_accepted(rng, cat, k)
        S.op_set(i, shape, comps, how)
        return "set_any"
    if r < 0.37:
        idxs = sorted({rng.randrange(n) for _ in range(rng.choice([2, 3]))})
        shape, comps, how = _gen_accepted(rng, cat, k)
        S.op_set_many(idxs, comps, how)
        es = R.entry_category(S.ms.get(idxs[0]))
        if k > 1 and es is not None and rng.random() < 0.6:
            # entries written from one object must not stay tied to each other
            S.op_view(rng.choice(idxs), "setitem", rng.randrange(k), R.gen_plain(rng, es))
        return "set_same_object"
    if r < 0.52:
        i = _pick_index(rng, S.ms, True)
        ec = S.arith_category(i) if i is not None else None
        old = S.ms.get(i) if i is not None else None
        if ec is None or (ec == "str" and k > 1):
            S.check_answers("answers", "read_only")
            return "read_only"
        if ec == "bool":
            op = "ixor"
        elif ec in ("str", "complex"):
            op = "iadd"
        else:
            op = rng.choice(["iadd", "iadd", "imul"])
        if ec == "int":
            mag = R.magnitude(old)
            if mag > 2 ** 52:
                S.check_answers("answers", "read_only")
                return "read_only"
            if mag > 2 ** 40:
                op = "iadd"
        if ec == "str":
            x = R.gen_plain(rng, "str")
            if len(old[0]) + len(x) > R.STR_LIMIT:
                x = ""
        elif op == "imul":
            x = rng.choice([-1, 0, 2, 3]) if ec == "int" else rng.choice([-1.0, 0.5, 2.0, 0.0, 1.5])
        else:
            x = R.gen_plain(rng, ec)
        if k > 1 and rng.random() < 0.5:
            x = np.array([x] + [R.gen_plain(rng, ec) if op != "imul" else x for _ in range(k - 1)])
        S.op_inplace(i, op, x)
        return op
    if r < 0.62:
        i = _pick_index(rng, S.ms, True)
        es, ed = (R.entry_category(S.ms.get(i)), R.entry_category(S.md.get(i))) if i is not None else (None, None)
        if k == 1 or es is None or es != ed:
            S.check_answers("answers", "read_only")
            return "read_only"
        if rng.random() < 0.65 or es in ("str", "bool"):
            S.op_view(i, "setitem", rng.randrange(k), R.gen_plain(rng, es))
        else:
            S.op_view(i, "iadd", None, R.gen_plain(rng, es))
        return "view"
    if r < 0.70:
        S.op_grow(rng, "append", 1)
        return "append"
    if r < 0.77:
        S.op_grow(rng, rng.choice(["list", "tuple", "set"]), rng.choice([0, 1, 2, 3, 5]))
        return "iadd_collection"
    if r < 0.82:
        self_append = rng.random() < 0.12 and n <= 6
        S.op_grow(rng, "container", rng.choice([0, 1, 2, 4]), other_attrs=rng.random() < 0.5, self_append=self_append)
        return "iadd_container"
    if r < 0.85:
        S.op_clear()
        return "clear"
    if r < 0.91:
        S.check_as_array(with_size=rng.random() < 0.5)
        return "as_array"
    if r < 0.96:
        S.probe_bounds(rng, "probe")
        return "probe_bounds"
    S.op_registry(rng, delete=rng.random() < 0.5)
    return "registry"


def _custom_default(rng, cat):
    for _ in range(10):
        d = R.gen_scalar(rng, cat, numpy_ok=rng.random() < 0.2)
        if R.comps_in_bounds([d]):
            return d
    return R.type_default(cat)


def _run_random(desc, ctx):
    rng = random.Random(desc["seed"])
    cat, k = desc["type"], desc["arity"]
    decl = {"type": cat, "arity": k, "container": desc["container"], "layout": desc["layout"], "n0": desc["n0"],
            "default": _custom_default(rng, cat) if desc["default"] == "custom" else None, "type_alias": desc.get("alias", False)}
    if desc["seed"] % 5 == 1:
        decl["via_array"] = ["column", "flat", "over_existing"][(desc["seed"] // 5) % 3]
    ctx.cls("type:" + cat)
    ctx.cls("arity:%d" % k)
    ctx.cls("default:" + desc["default"] + ("_scalar_on_vector" if (desc["default"] == "custom" and k > 1) else ""))
    ctx.cls("container:" + desc["container"])
    ctx.cls("layout:" + desc["layout"])
    S = Sys(ctx, decl, set())
    done = 0
    try:
        S.build(rng)
        if desc["seed"] % 3 == 2:
            # history: the very first thing asked of the new attribute is an array export (no entry was read yet)
            ctx.cls("history:array_export_before_any_read")
            S.check_as_array(with_size=True)
        S.check_answers("answers", "after_create")
        S.check_align("create")
        if desc["seed"] % 8 == 0:
            S.probe_foreign_default(rng)
        for _ in range(desc["len"]):
            name = _random_step(S, rng)
            ctx.cls("op:" + name)
            done += 1
            if S.grew and rng.random() < 0.3:
                S.probe_bounds(rng, name)
        S.probe_bounds(rng, "end")
        S.check_as_array(with_size=True)
        ctx.cls("history:completed")
    except Diverged:
        ctx.cls("history:ended_at_divergence")
    if S.grew:
        ctx.nontrivial(stable_hash([cat, k, R.show(decl["default"]), desc["container"], desc["layout"], S.log]))
    if desc["len"] <= 6 and done == desc["len"]:
        ctx.sample({"attribute": "%s x%d, default %s, %s, %s containers" % (cat, k, R.show(decl["default"]) if decl["default"] is not None else "implicit",
                                                                          desc["container"], desc["layout"]), "history": S.log})


# ============================================================================= bounded-exhaustive sub-tier
EX_TYPES = ("float", "int")
EX_ARITIES = (1, 3)
_EX_VALUES = {
    ("float", 1): {"A": 1.5, "B": 7, "Rej": 1 + 2j, "x": 0.25, "y": 9.0},
    ("float", 3): {"A": [1.5, -2.0, 0.25], "B": [7, 8, 9], "Rej": [1.0, 2.0], "x": 0.25, "y": 9.0},
    ("int", 1): {"A": 3, "B": True, "Rej": 2.5, "x": 2, "y": 9},
    ("int", 3): {"A": [3, -4, 5], "B": [True, False, True], "Rej": [2.5, 1.0, 0.0], "x": 2, "y": 9},
}
EX_ALPHABET = ([("set", i) for i in range(3)] + [("iadd", i) for i in range(3)] + [("view", i) for i in range(3)] +
               [("set_widening", 0), ("set_rejected", 1), ("append",), ("extend_list",), ("extend_container",), ("clear",),
                ("as_array",), ("recreate",)])


def _ex_step(S, rng, op, vals):
    name = op[0]
    n = S.ms.n
    k = S.k
    if name in ("set", "iadd", "view"):
        i = op[1]
        if i >= n:
            S.log.append("dense a[%d] on %d elements" % (i, n))
            S.probe_bounds(rng, name)
            return
        if name == "set":
            v = vals["A"]
            S.op_set(i, "scalar" if k == 1 else "seq", [v] if k == 1 else list(v), "list")
        elif name == "iadd":
            ec = S.arith_category(i)        # operand of the category the entry holds (see ASSUMPTIONS)
            if ec is None:
                S.check_answers("answers", "read_only")
            elif ec == "bool":
                S.op_inplace(i, "ixor", True)
            else:
                S.op_inplace(i, "iadd", 2 if ec == "int" else 0.25)
        elif k > 1:
            es, ed = R.entry_category(S.ms.get(i)), R.entry_category(S.md.get(i))
            if es is None or es != ed:
                S.check_answers("answers", "read_only")
            else:
                S.op_view(i, "setitem", 1, {"bool": True, "int": 9, "float": 9.0}[es])
        else:
            S.log.append("v = a[%d]; v += %r" % (i, vals["x"]))

            def f(a):
                v = a[i]
                v += vals["x"]
            for attr in (S.sp, S.de):
                S.call("isolation", "view_iadd_scalar", f, attr)
            S.check_answers("isolation", "view_iadd_scalar")
    elif name == "set_widening":
        v = vals["B"]
        if n > 0:
            S.op_set(0, "scalar" if k == 1 else "seq", [v] if k == 1 else list(v), "tuple")
    elif name == "set_rejected":
        v = vals["Rej"]
        if n > 1:
            S.op_set(1, "scalar" if k == 1 else "seq", [v] if k == 1 else list(v), "list")
    elif name == "append":
        S.op_grow(rng, "append", 1)
    elif name == "extend_list":
        S.op_grow(rng, "list", 2)
    elif name == "extend_container":
        S.op_grow(rng, "container", 1, other_attrs=True)
    elif name == "clear":
        S.op_clear()
    elif name == "as_array":
        S.check_as_array(with_size=True)
    elif name == "recreate":
        S.op_registry(rng, delete=True)


def _run_exhaustive(desc, ctx):
    cat, k = desc["type"], desc["arity"]
    vals = _EX_VALUES[(cat, k)]
    ctx.cls("exhaustive:%s x%d" % (cat, k))
    seen = set()
    rng = random.Random(0)
    count = 0
    first = desc["first"]
    for L in range(0, desc["len"]):
        for rest in itertools.product(range(len(EX_ALPHABET)), repeat=L):
            idxs = (first,) + rest
            decl = {"type": cat, "arity": k, "container": desc["container"], "layout": "separate", "n0": 2, "default": None}
            S = Sys(ctx, decl, seen)
            try:
                S.build(rng)
                S.check_answers("answers", "after_create")
                for j in idxs:
                    _ex_step(S, rng, EX_ALPHABET[j], vals)
                S.probe_bounds(rng, "end")
            except Diverged:
                pass
            count += 1
            if S.grew:
                ctx.nontrivial("ex:%s:%d:%s:%s" % (cat, k, desc["container"], ".".join(map(str, idxs))))
    ctx.obs("exhaustive", "histories", count)


# ============================================================================= anchors (fixed small histories)
def _run_anchor(desc, ctx):
    """Short fixed scripts: one per historically observed failure shape, for every type / arity / container."""
    cat, k = desc["type"], desc["arity"]
    rng = random.Random(desc["seed"])
    decl = {"type": cat, "arity": k, "container": desc["container"], "layout": desc["layout"], "n0": 3, "default": None}
    ctx.cls("anchor:" + desc["script"])
    S = Sys(ctx, decl, set())
    try:
        S.build(rng)
        S.check_answers("answers", "after_create")
        s = desc["script"]
        if s == "bounds":
            S.probe_bounds(rng, "create")
            S.op_grow(rng, "append", 1)
            S.probe_bounds(rng, "append")
        elif s == "inplace_unset":
            ec = S.arith_category(1)
            if ec == "bool":
                S.op_inplace(1, "ixor", True)
            elif ec == "str":
                if k == 1:
                    S.op_inplace(1, "iadd", "q")
                else:
                    S.op_view(1, "setitem", 0, "q")
            else:
                S.op_inplace(1, "iadd", R.gen_plain(rng, ec))
            S.op_grow(rng, "append", 1)
            S.op_clear()
        elif s == "view_unset":
            if k > 1:
                S.op_view(2, "setitem", k - 1, R.gen_plain(rng, cat))
            S.op_grow(rng, "list", 2)
        elif s == "iadd_container":
            S.op_grow(rng, "container", 2, other_attrs=desc["seed"] % 2 == 0)
            S.op_set(4, *_gen_accepted(rng, cat, k))
            S.check_as_array()
        ctx.cls("history:completed")
    except Diverged:
        ctx.cls("history:ended_at_divergence")
    if S.grew:
        ctx.nontrivial(stable_hash(["anchor", cat, k, desc["container"], desc["layout"], S.log]))
    if desc["seed"] in (12, 33):
        ctx.sample({"attribute": "%s x%d, implicit default, %s" % (cat, k, desc["container"]), "history": S.log})


# ============================================================================= entry points
def cases(seed, tier):
    rng = random.Random(1000003 * seed + 505)
    out = []
    i = 0
    for script in ("bounds", "inplace_unset", "view_unset", "iadd_container"):
        for cat in R.CATS:
            for k in (1, 3):
                out.append({"gen": "anchor", "script": script, "type": cat, "arity": k, "container": ["data", "corner"][i % 2],
                            "layout": ["separate", "shared"][(i // 2) % 2], "seed": i})
                i += 1
    n = 3000 if tier == "quick" else 150000
    maxlen = 25 if tier == "quick" else 60
    for j in range(n):
        k = [1, 3, 2, 1, 4, 3, 2, 1][j % 8]
        custom = (j % 3 == 1) if k == 1 else (j % 11 == 5)     # a scalar default on a vector attribute is the rarer declaration
        out.append({"gen": "random", "type": R.CATS[j % 5], "arity": k, "default": "custom" if custom else "implicit",
                    "container": "corner" if j % 4 == 3 else "data", "layout": "shared" if j % 7 in (2, 5) else "separate",
                    "n0": rng.choice([0, 1, 2, 3, 3, 5, 8]), "alias": j % 13 == 4,
                    "len": rng.randrange(1, maxlen + 1) if j % 10 else rng.randrange(1, 7), "seed": rng.randrange(2 ** 31)})
    exlen = 3 if tier == "quick" else 4
    for cat in EX_TYPES:
        for k in EX_ARITIES:
            for first in range(len(EX_ALPHABET)):
                kinds = ["corner" if (first + k) % 2 else "data"] if tier == "quick" else ["data", "corner"]
                for kind in kinds:
                    out.append({"gen": "exhaustive", "type": cat, "arity": k, "first": first, "len": exlen, "container": kind, "seed": 0})
    return out


def run_case(desc, ctx):
    g = desc["gen"]
    if g == "random":
        _run_random(desc, ctx)
    elif g == "exhaustive":
        _run_exhaustive(desc, ctx)
    elif g == "anchor":
        _run_anchor(desc, ctx)
    else:
        raise KeyError(g)
