"""C01 - surface connectivity answers agree with the face list, in every query order.

Shape: reference-model differential monitor (RefSurface from the face list alone) + history monitor over the
orders in which the lazily answered accessors are issued (each accessor in turn first on a fresh object)."""
import random

import numpy as np

from .. import build, surfconn
from ..ref import topo
from ..ref.surface_ref import RefSurface
from ..zoo import surfaces
from ..ctx import stable_hash

ID = "C01"
RULE = ("certified oriented manifold polygon meshes drawn from the surface zoo (tri/quad/mixed/polygon, genus 0-2, 0-6 border loops, "
        "1-2 components, renumbered, face-rotated, flipped); per mesh several fresh objects are driven through the full accessor script "
        "in different orders, each starting with a different accessor; non-trivial = at least 8 faces and at least one interior vertex; "
        "distinct = distinct (vertex count, face list) hash"
        "; variants per case (see input_classes): rows as list/tuple/numpy, isolated vertex, user subclass, complete_edges_from_faces=False, switch-sorting-then-clear history, raw data with corner records (file / RawMeshData(mesh)) whose face list was edited before building")
REQUIRED = {"conn": 5000, "order/batches": 500, "order_equal": 50}
CASE_TIMEOUT = {"quick": 30.0, "thorough": 600.0}
ASSUMPTIONS = ["inputs are oriented manifold polygon surfaces without unused vertices (certified by the reference analyser)",
               "ring answers are compared up to rotation/reflection (rotational order is what the property fixes)",
               "corner ids follow element order of the face list (C02)"]


EDGE_CONTAINER_ANSWERS = {"edge_id", "is_edge_on_border", "vertex_to_vertices", "vertex_to_edges", "is_vertex_on_border", "face_to_edges", "edge_to_vertices",
                          "other_edge_end", "boundary_edges", "interior_edges", "boundary_vertices", "interior_vertices"}


def cases(seed, tier):
    rng = random.Random(seed * 7919 + 1)
    out = []
    n = 400 if tier == "quick" else 8000
    korders = 4 if tier == "quick" else 10
    rows = ["list", "tuple", "npint", "nprow"]
    for k, name in enumerate(sorted(ANCHORS)):
        for srt in (True, False):
            out.append({"gen": "anchor", "name": name, "seed": 1000 + 2 * k + srt, "max_size": 1, "sorted": srt, "orders": korders, "first": 3 * k, "irows": rows[k % 4], "vrows": "list"})
    for i in range(n):
        out.append({"gen": "zoo", "seed": rng.randrange(2 ** 31), "max_size": 6 if tier == "quick" else rng.choice([4, 8, 12]),
                    "sorted": i % 4 != 3, "orders": korders, "first": (i * korders) % 34, "irows": rows[i % 4],
                    "vrows": ["list", "tuple", "nprow"][(i // 3) % 3]})
    return out


ANCHORS = {
    # closed quad mesh with two poles (0, 1) and four equatorial vertices: consecutive quads share two sides, opposite quads touch at the poles only
    "two_pole_quads": (6, [[0, 2, 1, 3], [0, 3, 1, 4], [0, 4, 1, 5], [0, 5, 1, 2]]),
    # disk of a quad and three triangles: quad (0,1,2,3) and triangle (0,4,2) share the vertices 0 and 2, a diagonal of the quad
    "quad_and_diagonal_triangle": (5, [[0, 1, 2, 3], [0, 4, 2], [0, 3, 4], [2, 4, 3]]),
    "mixed_grid": (9, [[0, 1, 4, 3], [1, 2, 4], [2, 5, 4], [3, 4, 7, 6], [4, 5, 8], [4, 8, 7]]),
}


def _edited_route(nV, F, rng):
    """(face list before the edit, face list after it, edited face, how the raw data got its corner records) or None when no face of the
    mesh can lose a corner and leave a certified oriented manifold surface without unused vertices."""
    cand = [k for k, f in enumerate(F) if len(f) >= 4]
    rng.shuffle(cand)
    base_unused = topo.analyse(nV, F)["unused_vertices"]
    for k in cand[:6]:
        j = rng.randrange(len(F[k]))
        small = [list(f) for f in F]
        small[k] = [v for i, v in enumerate(F[k]) if i != j]
        try:
            a = topo.analyse(nV, small)
        except Exception:
            continue
        if not (a["manifold"] and a["oriented"]) or a["degenerate_faces"] or a["repeated_faces"] or a["unused_vertices"] != base_unused:
            continue
        big = [list(f) for f in F]
        how = rng.choice(["file_obj", "file_off", "from_mesh"])  # formats that keep the order of the faces and store polygons
        return (big, small, k, how) if rng.random() < 0.6 else (small, big, k, how)
    return None


def _raw_with_records(V, F_pre, how, vrows, irows):
    import os, tempfile
    import mouette as M
    pre = build.surface(V, F_pre, vrows, irows)
    if how == "from_mesh":
        return M.mesh.RawMeshData(pre)
    with tempfile.TemporaryDirectory(prefix="mvc01_") as d:
        path = os.path.join(d, "pre." + how.split("_")[1])
        M.mesh.save(pre, path)
        return M.mesh.load(path, raw=True)


def _build_edited(V, F_pre, F, k, how, drop_edges, vrows, irows, subclass):
    import mouette as M
    data = _raw_with_records(V, F_pre, how, vrows, irows)
    if drop_edges:
        data.edges.clear()
    data.faces[k] = build.rows([F[k]], irows)[0]
    cls = build._user_surface_class() if subclass else M.mesh.SurfaceMesh
    return cls(data)


def run_case(desc, ctx):
    if desc["gen"] == "anchor":
        nv, F = ANCHORS[desc["name"]]
        F = [list(f) for f in F]
        V = np.array([[float(i % 3), float(i // 3), 0.1 * i * i] for i in range(nv)])
        z = {"V": V, "F": F, "cls": "anchor_" + desc["name"], "topo": topo.analyse(nv, F)}
    else:
        z = surfaces.make(desc["seed"], max_size=desc["max_size"])
    V, F = z["V"], z["F"]
    a = z["topo"]
    rng = random.Random(desc["seed"] ^ 0x5bd1)
    if desc["seed"] % 10 == 3:
        # a vertex that belongs to no face, placed anywhere in the numbering: every answer about the other vertices must be unaffected
        k = rng.randrange(len(V) + 1)
        V = np.vstack([np.asarray(V, float)[:k], [[9.0, 9.0, 9.0]], np.asarray(V, float)[k:]])
        F = [[v + (v >= k) for v in f] for f in F]
        ctx.cls("isolated_vertex:yes")
    # construction route: raw data that already carries corner records (what every file reader and RawMeshData(mesh) produce) and whose
    # face list was then edited through the public container interface so that the number of corners changes (a quad collapsed to a
    # triangle, or the reverse); the finished mesh must describe the edited face list
    route = None
    if desc["seed"] % 6 == 4:
        route = _edited_route(len(V), F, rng)
    if route is not None:
        # the round trip through a file is C04's subject: the route is only taken when the raw data read back is the face list written
        probe = _raw_with_records(V, route[0], route[3], desc["vrows"], desc["irows"])
        if [list(map(int, f)) for f in probe.faces] != [list(f) for f in route[0]] or len(probe.face_corners) != sum(len(f) for f in route[0]):
            ctx.cls("route:skipped_raw_data_read_back_differs")
            route = None
    stale_edges = False
    if route is not None:
        F_pre, F, k_edit, how_loaded = route
        a = topo.analyse(len(V), F)
        # the raw data also carries the edges of the face list before the edit: they are declared edges and legitimately stay in the edge
        # container; either they are removed with the container's own clear() before building, or the answers read from the edge container
        # (which then describe that container) are not judged
        drop_edges = len(probe.edges) > 0 and rng.random() < 0.5
        stale_edges = len(probe.edges) > 0 and not drop_edges  # either direction leaves a side of the face as it was before the edit
        ctx.cls("route:edges_of_the_raw_data:" + ("none" if len(probe.edges) == 0 else "cleared" if drop_edges else "kept"))
        ctx.cls("route:raw_with_corner_records_%s_then_face_%s" % (how_loaded, "shrunk" if len(F[k_edit]) < len(F_pre[k_edit]) else "grown"))
    ref = RefSurface(len(V), F)
    sorted_on = desc["sorted"]
    P = surfconn.probes(ref, rng)
    S = surfconn.script(P)
    nacc = len(S)
    arities = sorted({len(f) for f in F})
    ctx.cls("class:" + z["cls"].split("~")[0].split("+")[0])
    ctx.cls("arity:" + ",".join(map(str, arities)))
    ctx.cls("loops:%d" % len(a["border_loops"]))
    ctx.cls("components:%d" % a["n_components"])
    ctx.cls("chi:%d" % a["chi"])
    ctx.cls("sorting:" + ("on" if sorted_on else "off"))
    ctx.cls("rows:" + desc["irows"])
    interior = ref.nV - len(ref.border_vertices)
    if len(F) >= 8 and interior >= 1:
        ctx.nontrivial(stable_hash([len(V), F]))
    # configuration: the edge container not completed from the faces (config.complete_edges_from_faces = False, only the declared edges -
    # here none - are stored).  Everything that is answered from the edge container (edge ids, vertex rings, border classification) then
    # legitimately describes that container; the corner / half-edge / face answers must still be those of the face list.
    user_class = desc["seed"] % 7 == 2
    if user_class:
        ctx.cls("class:user_subclass_of_SurfaceMesh")
    no_edges = desc["seed"] % 8 == 5
    if no_edges:
        ctx.cls("config:complete_edges_from_faces=False")
    with build.config(sort_neighborhoods=sorted_on, complete_edges_from_faces=not no_edges):
        if route is not None:
            def construct(V, F, vrows, irows, E, subclass):
                return _build_edited(V, F_pre, F, k_edit, how_loaded, drop_edges, vrows, irows, subclass)
        else:
            construct = build.surface
        ok, m0 = ctx.call("construct", construct, V, F, desc["vrows"], desc["irows"], None, user_class)
        canonical = list(range(nacc))
        T0 = surfconn.run_script(ctx, m0, S, canonical)
        edges = build.edges_list(m0)
        fc = [(int(m0.face_corners.element(c)), int(m0.face_corners.adj(c))) for c in range(len(m0.face_corners))]
        if no_edges or stale_edges:
            judged = {k: v for k, v in T0.items() if k not in EDGE_CONTAINER_ANSWERS}
            surfconn.verify(ctx, judged, ref, sorted(ref.edges), P, sorted_on, face_corners=fc)
        else:
            surfconn.verify(ctx, T0, ref, edges, P, sorted_on, face_corners=fc)
        for j in range(desc["orders"]):
            first = (desc["first"] + j) % nacc
            rest = [i for i in range(nacc) if i != first]
            rng.shuffle(rest)
            order = [first] + rest
            ok, m = ctx.call("construct", construct, V, F, desc["vrows"], desc["irows"], None, user_class)
            clear_at = rng.randrange(2, nacc) if j % 3 == 2 else None
            T = surfconn.run_script(ctx, m, S, order, clear_at=clear_at)
            for name, _ in S:
                if name in T0 and name in T:
                    ctx.check(T[name] == T0[name], "order_equal", name, "answer_depends_on_query_order",
                              "%s answers differ when the queries are issued in another order" % name,
                              first_accessor=S[first][0], cleared=clear_at is not None)
                elif (name in T0) != (name in T):
                    ctx.obs("order_equal", name)  # the failing query itself was already reported by run_script
    # history: two live surfaces.  A patch of the surface (part of its faces) is built on the very vertex container of the first object (so that
    # coordinates are not duplicated) and asked about its own border; the first object must go on answering from its own face list
    if desc["seed"] % 5 == 1 and len(F) >= 2 and not no_edges:
        ctx.cls("history:second_surface_on_the_same_vertex_container")
        import mouette as M
        sub = F[:max(1, len(F) // 2)] if desc["seed"] % 2 else F[len(F) // 2:]
        with build.config(sort_neighborhoods=sorted_on):
            try:
                raw1 = M.mesh.RawMeshData()
                raw1.vertices = m0.vertices
                raw1.faces += build.rows(sub, desc["irows"])
                m1 = M.mesh.SurfaceMesh(raw1)
                _ = [m1.is_vertex_on_border(v) for v in range(len(V))]
                _ = (list(m1.boundary_vertices), list(m1.interior_vertices), list(m1.boundary_edges), list(m1.interior_edges))
                _ = [m1.connectivity.vertex_to_vertices(v) for v in range(len(V))]
            except Exception as e:  # the patch may be pinched at a vertex: what it answers itself is not judged here
                ctx.note("patch_on_shared_vertices_raised_" + type(e).__name__)
            order = list(range(nacc))
            rng.shuffle(order)
            T = surfconn.run_script(ctx, m0, S, order)
            for name, _ in S:
                if name in T0 and name in T:
                    ctx.check(T[name] == T0[name], "order_equal", name, "answer_changed_by_another_live_surface",
                              "%s answers differently after a second surface built on the same vertex container was queried" % name)
    # history: the connectivity was computed under the OTHER value of the sorting switch; the switch is then set, the connectivity is cleared
    # (documented way to have it recomputed) and each accessor in turn is the first one asked: the answers must be those of a fresh mesh
    if desc["seed"] % 3 == 0 and not no_edges:
        ctx.cls("history:switch_sorting_then_clear")
        with build.config(sort_neighborhoods=not sorted_on):
            ok, m = ctx.call("construct", build.surface, V, F, desc["vrows"], desc["irows"], None, user_class)
            surfconn.run_script(ctx, m, S, list(range(nacc)), monitor="prequery")
        with build.config(sort_neighborhoods=sorted_on):
            rings = [i for i, (nm, _) in enumerate(S) if nm in ("vertex_to_vertices", "vertex_to_edges", "vertex_to_faces", "vertex_to_corners")]
            first = rng.choice(rings) if rng.random() < 0.6 else rng.randrange(nacc)  # the sorted rings are what the switch changes
            rest = [i for i in range(nacc) if i != first]
            rng.shuffle(rest)
            ctx.call("connectivity.clear", m.connectivity.clear, monitor="order")
            ctx.call("clear_boundary_data", m.clear_boundary_data, monitor="order")
            T = surfconn.run_script(ctx, m, S, [first] + rest)
            for name, _ in S:
                if name in T0 and name in T:
                    ctx.check(T[name] == T0[name], "order_equal", name, "answer_after_clear_differs_from_fresh_mesh",
                              "%s answers differently after (switch sorting, clear) than on a fresh mesh" % name, first_accessor=S[first][0])
    if len(F) <= 6:
        ctx.sample({"vertices": len(V), "faces": F, "class": z["cls"], "sorting": sorted_on,
                    "compared": "all %d accessors x %d query orders against the face-list reference" % (nacc, desc["orders"] + 1)})
