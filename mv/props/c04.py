"""C04 - saving then loading a mesh is lossless within each format's vocabulary.

Four monitors, one per refuting event of DESIGN section 6/C04:

  roundtrip   load(save(m, x)) versus the projection of m onto the vocabulary of x (raw data, class, constructed object)
  written     the bytes mouette wrote, parsed by the independent reference reader of the format, versus the same projection
  foreign     a file produced by the independent reference writer (several dialects) loaded by mouette versus its content
  attributes  geogram_ascii attributes: name, type, arity and every value (mouette->mouette, mouette->reference, reference->mouette)

The reference codecs live in mv/ref/codecs (no mouette import); inputs come from mv/zoo/surfaces.py and mv/zoo/c04_inputs.py."""
import os
import random
import shutil
import struct
import tempfile
from collections import Counter

import numpy as np

from .. import build
from ..ctx import stable_hash, mouette_site
from ..ref import codecs
from ..ref.codecs.common import FormatError, dialect, same_double, slug
from ..ref.codecs import geogram as ref_geogram
from ..zoo import surfaces
from ..zoo import c04_inputs as zin

ID = "C04"
RULE = ("generated meshes (point clouds, polylines with isolated vertices, tri/quad/mixed/polygon surfaces with and without declared "
        "edges and unused vertices, tetrahedral / hexahedral / mixed volumes with and without declared faces) x hostile coordinate "
        "classes x config switches x ignore_elements x attribute plans, each saved to all 7 formats, re-read by mouette and by the "
        "reference reader, and re-written by the reference writer in a random dialect; non-trivial = the mesh has >= 2 element kinds "
        "or >= 1 attribute; distinct = distinct (coordinates, elements, attribute plan, switches) hash")
REQUIRED = {"roundtrip": 12000, "written": 10000, "foreign": 12000, "attributes": 600,
            "roundtrip/obj": 1800, "roundtrip/mesh": 1800, "roundtrip/geogram_ascii": 1800, "roundtrip/off": 1800,
            "roundtrip/tet": 1800, "roundtrip/xyz": 1800, "roundtrip/stl": 600,
            "written/obj": 1500, "written/mesh": 1500, "written/geogram_ascii": 1500, "written/off": 1500, "written/tet": 1500,
            "written/xyz": 1500, "written/stl": 600,
            "foreign/obj": 1800, "foreign/mesh": 1800, "foreign/geogram_ascii": 1800, "foreign/off": 1800, "foreign/tet": 1800,
            "foreign/xyz": 1800, "foreign/stl": 800}
CASE_TIMEOUT = {"quick": 30.0, "thorough": 300.0}
ASSUMPTIONS = ["element kinds: edges, triangles/quads/polygons, tetrahedra and hexahedra (VTK vertex order); no invalid or repeated elements",
               "coordinates are finite doubles; for stl they are limited to the float32 range and compared as float32(coordinate)",
               "obj / medit edges: every declared edge must come back and nothing that is not an edge of the mesh may appear "
               "(edges implied by faces may or may not be written)",
               "medit groups elements by kind: triangles, quads, tetrahedra, hexahedra are compared as four ordered sequences",
               "stl is a triangle soup: the sequence of coordinate triples is compared, a refusal (ValueError) of polygons is accepted",
               "attribute storage mode (sparse/dense) and default value are not compared, values are compared with ==",
               "geogram attribute strings are printable ASCII, possibly with interior blanks, without leading / trailing blank, '#', '[' or ']'; "
               "dense strings have at most 32 characters (documented limit), sparse ones 1..200; dense and vector integers fit in 32 bits, "
               "sparse scalar integers are arbitrary Python ints (what the unchanged library carries through)",
               "the reference writer never uses negative/relative indices; blank and comment lines only where the format description allows them"]

FORMATS = ["obj", "mesh", "geogram_ascii", "off", "tet", "xyz", "stl"]
CLASS_OF_DIM = {0: "PointCloud", 1: "PolyLine", 2: "SurfaceMesh", 3: "VolumeMesh"}
CONTAINERS = {"pointcloud": ["vertices"], "polyline": ["vertices", "edges"],
              "surface": ["vertices", "edges", "faces", "face_corners"],
              "volume": ["vertices", "edges", "faces", "face_corners", "cells", "cell_corners", "cell_faces"]}
GEO_SET = {"vertices": "GEO::Mesh::vertices", "edges": "GEO::Mesh::edges", "faces": "GEO::Mesh::facets",
           "face_corners": "GEO::Mesh::facet_corners", "cells": "GEO::Mesh::cells", "cell_corners": "GEO::Mesh::cell_corners",
           "cell_faces": "GEO::Mesh::cell_facets"}
PYTYPE = {"bool": bool, "int": int, "float": float, "complex": complex, "str": str}
TYPE_NAME = {"bool": "Bool", "int": "Int", "float": "Float", "complex": "Complex", "str": "String"}
REF_TYPE_OF = {"bool": "bool", "int": "int", "float": "double"}
MOUETTE_TYPE_OF_REF = {"bool": "Bool", "int": "Int", "index_t": "Int", "signed_index_t": "Int", "double": "Float", "float": "Float"}


# ============================================================================================== planning
def _anchor(name, V, E=None, F=None, C=None, **kw):
    d = {"gen": "mesh", "kind": "explicit", "name": name, "V": V, "E": E or [], "F": F or [], "C": C or [], "seed": 1,
         "coords": "zoo", "cfg": {"export_edges_in_obj": True, "complete_edges_from_faces": True}, "ignore": [], "attrs": [],
         "vrows": "list", "irows": "list"}
    d.update(kw)
    return d


_SQ = [[0.0, 0.0, 0.0], [1.0, 0.0, 0.0], [1.0, 1.0, 0.0], [0.0, 1.0, 0.25], [2.0, 0.5, 0.0]]
_CUBE = [[0.0, 0.0, 0.0], [1.0, 0.0, 0.0], [1.0, 1.0, 0.0], [0.0, 1.0, 0.0], [0.0, 0.0, 1.0], [1.0, 0.0, 1.0], [1.0, 1.0, 1.0], [0.0, 1.0, 1.0]]
_TETV = [[0.0, 0.0, 0.0], [1.0, 0.0, 0.0], [0.0, 1.0, 0.0], [0.0, 0.0, 1.0], [1.0, 1.0, 1.0]]


def _anchors():
    out = []
    A = _anchor
    out.append(A("one_triangle", _SQ[:3], F=[[0, 1, 2]]))
    out.append(A("two_triangles_hard_edge", _SQ[:4], E=[[2, 0]], F=[[0, 1, 2], [0, 2, 3]]))
    out.append(A("one_quad", _SQ[:4], F=[[0, 1, 2, 3]]))
    out.append(A("quad_plus_triangle", _SQ, F=[[1, 4, 2], [0, 1, 2, 3]]))
    out.append(A("pentagon", _SQ, F=[[0, 1, 4, 2, 3]]))
    out.append(A("pentagon_plus_triangle", _SQ + [[3.0, 3.0, 3.0]], F=[[0, 1, 4, 2, 3], [4, 5, 2]]))
    out.append(A("one_tet", _TETV[:4], C=[[0, 1, 2, 3]]))
    out.append(A("two_tets", _TETV, C=[[0, 1, 2, 3], [1, 2, 3, 4]]))
    out.append(A("one_hex", _CUBE, C=[[0, 1, 2, 3, 4, 5, 6, 7]]))
    out.append(A("hex_plus_tet", _CUBE + [[0.5, 0.5, 2.0]], C=[[4, 5, 6, 8], [0, 1, 2, 3, 4, 5, 6, 7]]))
    out.append(A("path_with_isolated_vertex", _SQ, E=[[0, 1], [2, 1], [2, 3]]))
    out.append(A("three_points", _SQ[:3]))
    # attributes: every type, on a triangle pair (load succeeds for the geogram-native types)
    tri2 = dict(V=_SQ[:4], F=[[0, 1, 2], [0, 2, 3]])
    for typ in zin.ATTR_TYPES:
        for arity, dense in ((1, False), (1, True), (3, False), (2, True)):
            out.append(A("attr_%s%d_%s" % (typ, arity, "dense" if dense else "sparse"), formats=["geogram_ascii"],
                         attrs=[{"on": "vertices", "type": typ, "arity": arity, "dense": dense, "dflt": False, "fill": 0.7}], **tri2))
    for typ, arity in (("str", 1), ("str", 3), ("int", 1)):
        for cont in ("vertices", "faces"):
            out.append(A("attr_%s%d_sparse_wide_values_on_%s" % (typ, arity, cont), formats=["geogram_ascii"],
                         attrs=[{"on": cont, "type": typ, "arity": arity, "dense": False, "dflt": False, "fill": 0.7, "wide": True}], **tri2))
    for typ in ("bool", "int", "float"):
        out.append(A("attr_%s_custom_default" % typ, formats=["geogram_ascii"],
                     attrs=[{"on": "faces", "type": typ, "arity": 1, "dense": False, "dflt": True, "fill": 0.5}], **tri2))
    for cont in ("edges", "faces", "face_corners"):
        out.append(A("attr_on_%s" % cont, formats=["geogram_ascii"],
                     attrs=[{"on": cont, "type": "float", "arity": 2, "dense": cont != "edges", "dflt": False, "fill": 0.8}], **tri2))
    for cont in ("cells", "cell_corners", "cell_faces"):
        out.append(A("one_tet_attr_on_%s" % cont, _TETV[:4], C=[[0, 1, 2, 3]], formats=["geogram_ascii"],
                     attrs=[{"on": cont, "type": "int", "arity": 1, "dense": False, "dflt": False, "fill": 0.8}]))
    out.append(A("normals_attribute", formats=["obj", "xyz", "geogram_ascii"],
                 attrs=[{"on": "vertices", "type": "float", "arity": 3, "dense": True, "dflt": False, "fill": 1.0, "name": "normals"}], **tri2))
    # ignore_elements
    out.append(A("surface_ignore_faces", _SQ[:4], E=[[0, 2]], F=[[0, 1, 2], [0, 2, 3]], ignore=["faces"]))
    out.append(A("volume_ignore_cells", _TETV[:4], C=[[0, 1, 2, 3]], ignore=["cells"]))
    out.append(A("volume_ignore_faces", _TETV[:4], C=[[0, 1, 2, 3]], ignore=["faces"]))
    for how in HARD_EDITS:
        out.append(A("hard_flags_%s_two_triangles" % how, _SQ[:4], E=[[2, 0], [0, 1]], F=[[0, 1, 2], [0, 2, 3]], hard_edit=how,
                     formats=["obj", "mesh", "geogram_ascii"]))
        out.append(A("hard_flags_%s_one_tet" % how, _TETV[:4], E=[[1, 0], [2, 3]], F=[[0, 1, 2]], C=[[0, 1, 2, 3]], hard_edit=how,
                     formats=["obj", "mesh", "geogram_ascii"]))
    # coordinate storage: numpy float32 / float64 / integer rows and scalars, Python ints, from_arrays, a mesh loaded from binary STL.
    # 0.1, 1/3, 1e-3 ... are not float32 numbers: float32(0.1) = 0.10000000149011612 has to come back, not 0.1
    frac = [[0.1, 0.2, 0.3], [1.1, 1.0 / 3.0, 1e-3], [0.7, 2.6, -0.9], [-0.1, 1.7, 123456.789]]
    ints = [[0, 0, 0], [3, -1, 0], [2, 5, 7], [-4, 6, 1]]
    for vs in VSTORES:
        pts = ints if vs in VSTORE_IS_INT else frac
        out.append(A("vstore_%s_two_triangles" % vs, pts, F=[[0, 1, 2], [0, 2, 3]], vstore=vs, coords="int" if vs in VSTORE_IS_INT else "zoo"))
        if vs != "stl_binary":
            out.append(A("vstore_%s_one_tet" % vs, pts, C=[[0, 1, 2, 3]], vstore=vs, coords="int" if vs in VSTORE_IS_INT else "zoo"))
            out.append(A("vstore_%s_path" % vs, pts, E=[[0, 1], [2, 1]], vstore=vs, coords="int" if vs in VSTORE_IS_INT else "zoo"))
    return out


def _crash_cases():
    """Loading a zero-triangle STL written by mouette: own descriptors (a native abort kills the worker)."""
    out = []
    for name, kw in (("pointcloud", dict(V=_SQ[:3])), ("polyline", dict(V=_SQ[:3], E=[[0, 1], [1, 2]])),
                     ("surface_faces_ignored", dict(V=_SQ[:3], F=[[0, 1, 2]], ignore=["faces"]))):
        d = _anchor("stl_zero_" + name, **kw)
        d["gen"] = "stl_zero"
        d["site"] = "stl_load_zero_triangles"
        d["formats"] = ["stl"]
        out.append(d)
    return out


def _attr_plan(rng, kind, p_any=0.5):
    if rng.random() > p_any:
        return []
    conts = CONTAINERS[kind]
    plan = []
    for _ in range(rng.choice([1, 1, 2, 3])):
        typ = rng.choice(["bool", "int", "float", "bool", "int", "float", "float", "int", "complex", "str"])
        cont = rng.choice(conts)
        if cont == "cell_faces" and rng.random() < 0.7:
            cont = rng.choice(["cells", "cell_corners", "vertices"])
        arity = rng.choice([1, 1, 2, 3, 4])
        plan.append({"on": cont, "type": typ, "arity": arity, "dense": rng.random() < 0.5, "dflt": arity == 1 and rng.random() < 0.3,
                     "fill": rng.choice([0.0, 0.3, 0.8, 1.0])})
    # names are functions of (type, arity, storage, default): keep them distinct per container
    seen, out = set(), []
    for a in plan:
        k = (a["on"], a["type"], a["arity"], a["dense"], a["dflt"])
        if k not in seen:
            seen.add(k)
            out.append(a)
    return out


KINDS = ["pointcloud", "polyline", "surface:tri", "surface:poly", "surface:any", "volume:tets", "volume:hexes", "volume:mixed",
         "surface:quad", "volume:tets", "surface:ngon"]


def cases(seed, tier):
    rng = random.Random(seed * 104729 + 4)
    out = _anchors()
    n = 800 if tier == "quick" else 50000
    sizes = [1, 2, 3] if tier == "quick" else [1, 2, 3, 4, 6, 8]
    for i in range(n):
        kind = KINDS[i % len(KINDS)]
        base = kind.split(":")[0]
        coords = zin.COORD_MODES[(i // len(KINDS)) % len(zin.COORD_MODES)]
        d = {"gen": "mesh", "kind": kind, "seed": rng.randrange(2 ** 31), "size": rng.choice(sizes), "coords": coords,
             "cfg": {"export_edges_in_obj": rng.random() < 0.8, "complete_edges_from_faces": rng.random() < 0.8},
             "ignore": [], "vrows": rng.choice(["list", "tuple", "nprow", "vec"]), "irows": rng.choice(["list", "tuple", "npint", "nprow"]),
             "edges": rng.choice(["none", "none", "some", "all", "chord"]), "unused": rng.choice([0, 0, 0, 1, 3]),
             "unused_front": rng.random() < 0.5, "decl_faces": rng.choice([0.0, 0.0, 0.3, 1.0])}
        if rng.random() < 0.2:
            pool = {"pointcloud": [], "polyline": ["edges"], "surface": ["edges", "faces"], "volume": ["edges", "faces", "cells"]}[base]
            if pool:
                d["ignore"] = sorted(rng.sample(pool, rng.randint(1, len(pool))))
        d["attrs"] = _attr_plan(rng, base)
        if rng.random() < 0.15:
            d["attrs"] = d["attrs"] + [{"on": "vertices", "type": "float", "arity": 3, "dense": rng.random() < 0.5, "dflt": False,
                                       "fill": 1.0, "name": "normals"}]
        ru = random.Random(d["seed"] ^ 0x7575)  # own stream: the cases above do not depend on it
        if base == "surface" and ru.random() < 0.2:
            # texture coordinates (the attribute the OBJ writer exports as vt), per corner or per vertex; with or without vertex normals
            d["attrs"] = d["attrs"] + [{"on": ru.choice(["face_corners", "face_corners", "vertices"]), "type": "float", "arity": 2, "dense": ru.random() < 0.5,
                                       "dflt": False, "fill": 1.0, "name": "uv_coords"}]
            if ru.random() < 0.5 and not any(a.get("name") == "normals" for a in d["attrs"]):
                d["attrs"] = d["attrs"] + [{"on": "vertices", "type": "float", "arity": 3, "dense": ru.random() < 0.5, "dflt": False, "fill": 1.0, "name": "normals"}]
        out.append(d)
    # coordinate containers / dtypes (own generator stream, so that the cases above do not depend on it)
    rng2 = random.Random(seed * 7927 + 404)
    n2 = 240 if tier == "quick" else 10000
    f32_modes = ["zoo", "negative", "digits17", "negzero", "float32", "zoo"]
    for i in range(n2):
        kind = KINDS[i % len(KINDS)]
        vs = VSTORES[(i // len(KINDS) + i) % len(VSTORES)]
        if vs == "stl_binary":
            kind = ["surface:tri", "surface:quad", "surface:any"][i % 3]
        coords = "int" if vs in VSTORE_IS_INT else f32_modes[i % len(f32_modes)] if vs in VSTORE_IS_F32 else zin.COORD_MODES[i % len(zin.COORD_MODES)]
        d = {"gen": "mesh", "kind": kind, "seed": rng2.randrange(2 ** 31), "size": rng2.choice(sizes), "coords": coords, "vstore": vs,
             "cfg": {"export_edges_in_obj": rng2.random() < 0.8, "complete_edges_from_faces": rng2.random() < 0.8},
             "ignore": [], "vrows": "list", "irows": rng2.choice(["list", "tuple", "npint", "nprow"]),
             "edges": rng2.choice(["none", "none", "some", "all"]), "unused": rng2.choice([0, 0, 1]),
             "unused_front": rng2.random() < 0.5, "decl_faces": rng2.choice([0.0, 0.0, 0.3]), "attrs": _attr_plan(rng2, kind.split(":")[0], 0.25)}
        out.append(d)
    # hard-edge flags edited after construction (surfaces and volumes with declared edges, completion switched on)
    rng3 = random.Random(seed * 6007 + 61)
    n3 = 120 if tier == "quick" else 5000
    for i in range(n3):
        kind = ["surface:tri", "surface:quad", "surface:any", "volume:tets", "surface:poly", "volume:mixed"][i % 6]
        d = {"gen": "mesh", "kind": kind, "seed": rng3.randrange(2 ** 31), "size": rng3.choice(sizes), "coords": rng3.choice(["zoo", "int", "digits17"]),
             "cfg": {"export_edges_in_obj": rng3.random() < 0.85, "complete_edges_from_faces": True},
             "ignore": [] if rng3.random() < 0.85 else ["faces"], "vrows": "list", "irows": rng3.choice(["list", "tuple"]),
             "edges": rng3.choice(["some", "all", "some"]), "unused": 0, "unused_front": False, "decl_faces": rng3.choice([0.3, 1.0]),
             "attrs": [], "hard_edit": HARD_EDITS[(i // 6 + i) % len(HARD_EDITS)], "formats": ["obj", "mesh", "geogram_ascii"]}
        out.append(d)
    # last, so that a native abort costs no re-run of other cases (each lands at the end of its shard)
    out += _crash_cases()
    # file names: case of the extension (lower / UPPER / mIxEd / Capitalised) and dots in the base name, for every direction
    for k, d in enumerate(out):
        d["ext_case"] = EXT_CASES[k % len(EXT_CASES)]
        d["dotted_name"] = k % 5 == 2
    return out


# ============================================================================================== inputs
def _key(e):
    return tuple(sorted(e))


def materialise(desc):
    """(V rows, declared E, declared F, C, base kind, class label) from a descriptor; pure function of the descriptor."""
    rng = random.Random(desc["seed"] ^ 0xC04)
    kind = desc["kind"]
    size = desc.get("size", 2)
    E, F, C = [], [], []
    if kind == "explicit":
        V, E, F, C = [list(p) for p in desc["V"]], [tuple(e) for e in desc["E"]], [list(f) for f in desc["F"]], [list(c) for c in desc["C"]]
        base = "volume" if C else "surface" if F else "polyline" if E else "pointcloud"
        label = desc["name"]
    elif kind == "pointcloud":
        V, label = zin.pointcloud(rng, size)
        base = "pointcloud"
    elif kind == "polyline":
        V, E, label = zin.polyline(rng, size)
        base = "polyline"
    elif kind.startswith("surface"):
        sub = kind.split(":")[1]
        want = {"tri": dict(tri_only=True), "poly": dict(poly_only=True), "any": {},
                "quad": dict(classes=["grid_quad", "torus_quad", "voxel", "cube", "anchor_quad", "annulus_quad"]),
                "ngon": dict(classes=["dual", "dual", "uv_sphere"])}[sub]
        z = surfaces.make(desc["seed"], max_size=size, **want)
        V, F, label = [list(map(float, p)) for p in z["V"]], [list(f) for f in z["F"]], z["cls"].split("~")[0]
        base = "surface"
        k = desc.get("unused", 0)
        if k:
            extra = [[rng.uniform(-2, 2) for _ in range(3)] for _ in range(k)]
            if desc.get("unused_front"):
                V = extra + V
                F = [[v + k for v in f] for f in F]
            else:
                V = V + extra
            label += "+unused"
        fe = []
        seen = set()
        for f in F:
            for a, b in zip(f, f[1:] + f[:1]):
                if _key((a, b)) not in seen:
                    seen.add(_key((a, b)))
                    fe.append((a, b))
        mode = desc.get("edges", "none")
        if mode == "all":
            E = list(fe)
        elif mode in ("some", "chord"):
            E = [e for e in fe if rng.random() < 0.3] or fe[:1]
        if mode == "chord" and len(V) >= 4:
            for _ in range(20):
                a, b = rng.sample(range(len(V)), 2)
                if _key((a, b)) not in seen:
                    E.append((a, b))
                    seen.add(_key((a, b)))
                    break
        rng.shuffle(E)
        E = [(b, a) if rng.random() < 0.5 else (a, b) for a, b in E]
        if E:
            label += "+edges"
    else:
        sub = kind.split(":")[1]
        V, C, label = zin.volume(rng, sub, size)
        label = label.split("~")[0]
        base = "volume"
        p = desc.get("decl_faces", 0.0)
        if p > 0:
            seen = set()
            for c in C:
                for f in zin.cell_faces(c):
                    if _key(f) not in seen and rng.random() < p:
                        seen.add(_key(f))
                        r = rng.randrange(len(f))
                        F.append(list(f[r:] + f[:r]))
            if F:
                label += "+faces"
            if desc.get("edges", "none") != "none" and F:
                f = F[0]
                E = [(f[1], f[0])]
                label += "+edges"
    V = zin.hostile_coords(V, rng, desc.get("coords", "zoo"))
    vstore = desc.get("vstore")
    if vstore in VSTORE_IS_F32:
        V = [[_f32(c) for c in p] for p in V]  # the stored value is the float32; float(stored) is what has to come back
    elif vstore in VSTORE_IS_INT:
        V = [[int(round(c)) for c in p] for p in V]
    return V, E, F, C, base, label


def _raw(V, E, F, C, vrows, irows, int_coords):
    import mouette as M
    data = M.mesh.RawMeshData()
    if int_coords:
        data.vertices += [tuple(p) if vrows == "tuple" else list(p) for p in V]
    else:
        data.vertices += build.coords(V, vrows)
    if E:
        data.edges += build.rows(E, irows)
    if F:
        data.faces += build.rows(F, irows)
    if C:
        data.cells += build.rows(C, irows)
    return data


VSTORES = ["f32row", "f32scalar", "f64scalar", "i64row", "i32row", "pyint", "from_arrays_f32", "from_arrays_f64", "from_arrays_i64",
           "stl_binary"]
VSTORE_IS_F32 = {"f32row", "f32scalar", "from_arrays_f32", "stl_binary"}
VSTORE_IS_INT = {"i64row", "i32row", "pyint", "from_arrays_i64"}
_NP_DTYPE = {"f32row": np.float32, "f32scalar": np.float32, "f64scalar": np.float64, "i64row": np.int64, "i32row": np.int32,
             "from_arrays_f32": np.float32, "from_arrays_f64": np.float64, "from_arrays_i64": np.int64, "stl_binary": np.float32}


def _stored_rows(V, vstore):
    """Vertex rows in the requested numpy / Python storage (the values of V are exactly representable in it)."""
    if vstore == "pyint":
        return [[int(c) for c in p] for p in V]
    dt = _NP_DTYPE[vstore]
    if vstore in ("f32scalar", "f64scalar"):
        return [[dt(c) for c in p] for p in V]  # lists of numpy scalars
    A = np.array(V, dtype=dt).reshape(-1, 3)
    return [A[i] for i in range(len(A))]  # rows (views) of one numpy array


def _construct(V, E, F, C, base, vrows, irows, int_coords, vstore=None, tmp=None):
    """Returns (mesh, number of declared edges).  vstore selects the container / dtype the coordinates are stored in:
    numpy float32 / float64 / integer rows or scalars, Python ints, mouette.mesh.from_arrays on a typed array, or a mesh
    obtained by loading a binary STL (mouette keeps those coordinates as float32)."""
    import mouette as M
    cls = {"pointcloud": M.mesh.PointCloud, "polyline": M.mesh.PolyLine, "surface": M.mesh.SurfaceMesh, "volume": M.mesh.VolumeMesh}[base]
    if not vstore:
        return cls(_raw(V, E, F, C, vrows, irows, int_coords)), len(E)
    regular = all(len({len(x) for x in X}) <= 1 for X in (F, C))
    if vstore == "stl_binary" and base == "surface" and tmp is not None and all(len(f) in (3, 4) for f in F):
        path = os.path.join(tmp, "source.stl")
        codecs.stl.write(path, {"T": _soup(V, F, cast=False)}, dialect(order=0))
        return M.mesh.load(path), 0
    if vstore.startswith("from_arrays") and regular:
        A = np.array(V, dtype=_NP_DTYPE[vstore]).reshape(-1, 3)
        kw = {}
        if E:
            kw["E"] = np.array(E, dtype=np.int64)
        if F:
            kw["F"] = np.array(F, dtype=np.int64)
        if C:
            kw["C"] = np.array(C, dtype=np.int64)
        return M.mesh.from_arrays(A, **kw), len(E)
    data = M.mesh.RawMeshData()
    data.vertices += _stored_rows(V, vstore if vstore in ("f32scalar", "f64scalar", "pyint", "i64row", "i32row") else
                                  {"stl_binary": "f32row", "from_arrays_f32": "f32row", "from_arrays_f64": "f64scalar",
                                   "from_arrays_i64": "i64row"}.get(vstore, vstore))
    if E:
        data.edges += build.rows(E, irows)
    if F:
        data.faces += build.rows(F, irows)
    if C:
        data.cells += build.rows(C, irows)
    return cls(data), len(E)


def _plain(x):
    """numpy / Vec values -> plain Python data."""
    if isinstance(x, (bool, np.bool_)):
        return bool(x)
    if isinstance(x, (int, np.integer)):
        return int(x)
    if isinstance(x, (float, np.floating)):
        return float(x)
    if isinstance(x, (complex, np.complexfloating)):
        return complex(x)
    if isinstance(x, (str, np.str_)):
        return str(x)
    if isinstance(x, (list, tuple, np.ndarray)):
        return [_plain(v) for v in x]
    return x


class Malformed(Exception):
    pass


def _snap(mesh):
    """Plain-data view of a mesh or RawMeshData: V (tuples of floats), E (sorted pairs), F, C (lists of ints)."""
    try:
        V = [tuple(float(c) for c in p) for p in mesh.vertices]
        E = [tuple(sorted(int(v) for v in e)) for e in mesh.edges] if hasattr(mesh, "edges") else []
        F = [[int(v) for v in f] for f in mesh.faces] if hasattr(mesh, "faces") else []
        C = [[int(v) for v in c] for c in mesh.cells] if hasattr(mesh, "cells") else []
    except (TypeError, ValueError) as e:
        raise Malformed("%s: %s" % (type(e).__name__, str(e)[:100]))
    return {"V": V, "E": E, "F": F, "C": C}


def _make_attrs(mesh, plan, rng):
    """Creates the planned attributes on a mouette mesh; returns [(spec, container name, name, values list)]."""
    made = []
    for a in plan:
        cont = getattr(mesh, a["on"], None)
        if cont is None:
            continue
        n = len(cont)
        if n == 0:
            continue
        spec = zin.attr_spec(rng, a["type"], a["arity"], a["dense"], a.get("dflt", False), n, a.get("fill", 0.5), a.get("wide", False))
        name = a.get("name", spec["name"] + "_" + a["on"])  # unique per container: a name found elsewhere means "wrong container"
        attr = cont.create_attribute(name, PYTYPE[a["type"]], a["arity"], dense=a["dense"], default_value=spec["default"])
        for i, v in spec["values"].items():
            attr[i] = v
        values = [_plain(attr[i]) for i in range(n)]
        made.append({"on": a["on"], "name": name, "type": a["type"], "arity": a["arity"], "dense": a["dense"], "values": values})
    return made


# ============================================================================================== guarded calls
def _call(ctx, monitor, op, fn, *args, expect=(), soft=False, **kw):
    """Call into mouette; an unexpected exception becomes a violation (the case goes on with the next format).
    soft=True: the exception is a consequence of a difference that was already reported; it is only noted."""
    try:
        return True, fn(*args, **kw)
    except expect as e:  # noqa
        return False, e
    except Exception as e:
        import traceback
        site = mouette_site(e.__traceback__) or "harness"
        if site == "harness":
            raise
        if soft:
            ctx.note("exception_after_reported_difference:%s/%s" % (monitor, op))
            return None, e
        ctx.violation(monitor, op, "exception:%s@%s:%s" % (type(e).__name__, site, slug(str(e), 50)),
                      "unexpected %s in %s: %s" % (type(e).__name__, op, str(e)[:200]), traceback=traceback.format_exc()[-1500:])
        return None, e


# ============================================================================================== projections
HARD_EDITS = ["some_false", "all_false", "unflag_some", "unflag_all", "flag_completed"]


def _edit_hard_edges(mesh, desc, rng):
    """Edits the hard-edge flags of a built surface / volume through the public attribute API, as a user would after construction:
    some / all flags stored as False, flags removed (clear() then some set again), completed edges flagged True or stored False.
    Returns the set of edges whose flag is True afterwards (= the edges that are declared hard when the mesh is saved), or None
    when the descriptor asks for no edit or the mesh has no hard_edges attribute."""
    how = desc.get("hard_edit")
    if not how or not hasattr(mesh, "edges") or not mesh.edges.has_attribute("hard_edges"):
        return None
    attr = mesh.edges.get_attribute("hard_edges")
    flagged = sorted(int(e) for e in attr)
    n = len(mesh.edges)
    if how == "some_false":
        for e in flagged:
            if rng.random() < 0.5:
                attr[e] = False
        if flagged:
            attr[flagged[0]] = False
    elif how == "all_false":
        for e in flagged:
            attr[e] = False
    elif how == "unflag_some":
        attr.clear()
        for e in flagged:
            if rng.random() < 0.5:
                attr[e] = True
    elif how == "unflag_all":
        attr.clear()
    elif how == "flag_completed":
        others = [e for e in range(n) if e not in set(flagged)]
        rng.shuffle(others)
        # flagged in increasing edge order: obj / medit write the stored flags in the order they were stored, and the edge
        # order of the file is judged against the edge order of the mesh
        for k, e in enumerate(sorted(others[:4])):
            attr[e] = (k % 2 == 0)
        if flagged:
            attr[flagged[-1]] = False
    return {tuple(sorted(int(v) for v in mesh.edges[e])) for e in range(n) if bool(attr[e])}


def project(snap, fmt, cfg, ignore, n_declared_edges, has_faces_at_build, hard=None):
    """Projection of a mesh (plain snapshot) onto the vocabulary of a format, under the switches in force.
    hard: set of edges flagged hard at save time when the flags were edited after construction (else: the declared edges)."""
    E_all = [] if "edges" in ignore else list(snap["E"])
    F = [] if "faces" in ignore else [list(f) for f in snap["F"]]
    C = [] if "cells" in ignore else [list(c) for c in snap["C"]]
    exp = {"V": list(snap["V"]), "E_allowed": [], "E_required": [], "F": [], "C": [], "perkind": False, "soup": None}
    if fmt in ("obj", "mesh"):
        exp["E_allowed"] = E_all
        if cfg["complete_edges_from_faces"] and has_faces_at_build and (F or C):
            # edges completed from faces are implied by the faces that are saved with them: only the declared ones have to be in the file
            exp["E_required"] = E_all[:n_declared_edges] if hard is None else [e for e in E_all if e in hard]
        else:
            # nothing is saved from which the edges could be completed again (no faces at build time, or faces and cells ignored at save time):
            # the edges are the content of the mesh and must all be written
            exp["E_required"] = list(E_all)
        if fmt == "obj" and not cfg["export_edges_in_obj"]:
            exp["E_required"] = []
    if fmt == "geogram_ascii":
        exp["E_allowed"] = E_all
        exp["E_required"] = list(E_all)
    if fmt in ("obj", "off", "geogram_ascii"):
        exp["F"] = F
    if fmt == "mesh":
        exp["F"] = [f for f in F if len(f) in (3, 4)]
        exp["C"] = [c for c in C if len(c) in (4, 8)]
        exp["perkind"] = True
    if fmt in ("geogram_ascii", "tet"):
        exp["C"] = C
    if fmt == "stl":
        exp["soup_from_quad"] = []
        exp["soup"] = _soup(snap["V"], [f for f in F if len(f) in (3, 4)], flags=exp["soup_from_quad"])
        exp["V"] = None
    return exp


def _f32(x):
    return struct.unpack("<f", struct.pack("<f", float(x)))[0]


def _soup(V, F, cast=True, flags=None):
    """Triangle soup of triangles and quads (a quad is the two triangles (0,1,2), (2,3,0) of mouette's documented split).
    flags (optional list) receives True for triangles that come from a quad: those are compared up to rotation."""
    out = []
    for f in F:
        tris = [f] if len(f) == 3 else [[f[0], f[1], f[2]], [f[2], f[3], f[0]]]
        for t in tris:
            out.append([tuple((_f32(c) if cast else float(c)) for c in V[v]) for v in t])
            if flags is not None:
                flags.append(len(f) == 4)
    return out


# ============================================================================================== comparisons
def _fcls(n):
    return {3: "tri", 4: "quad"}.get(n, "polygon" if n >= 5 else "arity%d" % n)


def _ccls(n):
    return {4: "tet", 8: "hex"}.get(n, "arity%d" % n)


def diff_elements(exp, got, cls):
    """None when equal, else a stable description of the kind of difference."""
    if exp == got:
        return None
    ea, ga = Counter(cls(len(e)) for e in exp), Counter(cls(len(g)) for g in got)
    if ea != ga:
        lost = sorted(k for k in ea if ga.get(k, 0) < ea[k])
        gained = sorted(k for k in ga if ga[k] > ea.get(k, 0))
        parts = []
        if lost:
            parts.append("_".join(lost) + "_lost")
        if gained:
            parts.append("_".join(gained) + "_appeared")
        return "_and_".join(parts)
    for e, g in zip(exp, got):
        if e == g:
            continue
        if len(e) != len(g):
            return "element_order_changed"
        if sorted(e) == sorted(g):
            n = len(e)
            rots = [e[r:] + e[:r] for r in range(n)]
            if g in rots:
                return "vertex_order_rotated"
            if g in [r[::-1] for r in rots]:
                return "vertex_order_reversed"
            return "vertex_order_permuted"
        d = {b - a for a, b in zip(e, g)}
        if len(d) == 1:
            return "indices_shifted_by_%+d" % d.pop()
        if Counter(map(_key, exp)) == Counter(map(_key, got)):
            return "element_order_changed"
        return "wrong_vertex_indices"
    return "count_mismatch"


def diff_vertices(exp, got, exact=True):
    if len(exp) != len(got):
        return "vertex_count_%s" % ("fewer" if len(got) < len(exp) else "more"), {"expected": len(exp), "got": len(got)}
    for i, (p, q) in enumerate(zip(exp, got)):
        if len(q) != 3:
            return "vertex_without_3_coordinates", {"vertex": i, "got": list(q)}
        for a, b in zip(p, q):
            ok = same_double(a, b) if exact else a == b
            if ok:
                continue
            w = {"vertex": i, "expected": float(a).hex(), "got": float(b).hex()}
            if a == b:
                return "sign_of_zero_changed", w
            if b == _f32(a):
                return "coordinate_rounded_to_float32", w
            if a != 0 and abs(b - a) <= 1e-6 * abs(a):
                return "coordinate_digits_lost", w
            if b == -a:
                return "coordinate_sign_flipped", w
            return "coordinate_changed", w
    return None


def _is_subsequence(sub, seq):
    it = iter(seq)
    return all(any(x == y for y in it) for x in sub)


def compare_content(ctx, mon, fmt, got, exp):
    """got: snapshot dict (V, E, F, C); exp: projection.  Returns True when everything agrees."""
    good = True
    # --- vertices
    if exp["V"] is not None:
        dv = diff_vertices(exp["V"], got["V"])
        if dv is None:
            ctx.obs(mon, fmt + "/vertices")
        else:
            good = False
            ctx.obs(mon, fmt + "/vertices")
            ctx.violation(mon, fmt + "/vertices", dv[0], "vertex coordinates differ from the saved mesh (%s)" % dv[0], **dv[1])
    # --- faces (and the OFF special case: faces that reappear as cells)
    expF, gotF = exp["F"], got["F"]
    expC, gotC = exp["C"], got["C"]
    if exp["perkind"]:
        expF, gotF = sorted(expF, key=len), sorted(gotF, key=len)
        expC, gotC = sorted(expC, key=len), sorted(gotC, key=len)
    if exp["soup"] is None:
        df = diff_elements(expF, gotF, _fcls)
        ctx.obs(mon, fmt + "/faces")
        cells_explained = False
        if df is not None:
            good = False
            missing = [f for f in expF if f not in gotF]
            if missing and not expC and gotC and all(c in missing for c in gotC):
                kinds = sorted({_fcls(len(c)) for c in gotC})
                rest = sorted({_fcls(len(f)) for f in missing if f not in gotC})
                df = "_".join(kinds) + "_faces_loaded_as_cells" + ("_and_" + "_".join(rest) + "_lost" if rest else "")
                cells_explained = True
            ctx.violation(mon, fmt + "/faces", df, "faces differ from the projection of the mesh onto the format (%s)" % df,
                          expected=expF[:12], got=gotF[:12], got_cells=gotC[:6] if cells_explained else None)
        # --- cells
        ctx.obs(mon, fmt + "/cells")
        if not cells_explained:
            dc = diff_elements(expC, gotC, _ccls)
            if dc is not None:
                good = False
                if not expC:
                    dc = "cells_invented_" + dc
                ctx.violation(mon, fmt + "/cells", dc, "cells differ from the projection of the mesh onto the format (%s)" % dc,
                              expected=expC[:8], got=gotC[:8])
    else:
        ctx.obs(mon, fmt + "/soup")
        soup = [[tuple(got["V"][v]) if 0 <= v < len(got["V"]) else None for v in f] for f in gotF]
        want = [list(t) for t in exp["soup"]]
        fq = exp.get("soup_from_quad") or [False] * len(want)
        if len(soup) == len(want):
            # a triangle of a split quad may start at any of its three vertices (same oriented triangle)
            soup = [want[i] if fq[i] and soup[i] in (want[i][1:] + want[i][:1], want[i][2:] + want[i][:2]) else soup[i] for i in range(len(want))]
        if soup != want:
            good = False
            if len(soup) != len(want):
                mech = "triangle_count_%s" % ("fewer" if len(soup) < len(want) else "more")
            else:
                k = next(i for i in range(len(want)) if soup[i] != want[i])
                if sorted(map(repr, soup[k])) == sorted(map(repr, want[k])):
                    mech = "triangle_vertex_order_changed"
                elif Counter(repr(sorted(map(repr, t))) for t in soup) == Counter(repr(sorted(map(repr, t))) for t in want):
                    mech = "triangle_order_changed"
                else:
                    mech = "triangle_coordinates_changed"
            ctx.violation(mon, fmt + "/soup", mech, "the triangle soup differs from float32(projection) (%s)" % mech,
                          expected=want[:4], got=soup[:4], n_expected=len(want), n_got=len(soup))
        if gotC:
            good = False
            ctx.violation(mon, fmt + "/cells", "cells_invented", "cells in a format without cells", got=gotC[:6])
    # --- edges
    ctx.obs(mon, fmt + "/edges")
    gotE = [tuple(sorted(e)) for e in got["E"]]
    allowed, required = exp["E_allowed"], exp["E_required"]
    mech = None
    if len(set(gotE)) != len(gotE):
        mech = "edge_written_twice"
    elif not set(gotE) <= set(allowed):
        mech = "edge_that_is_not_in_the_mesh" if allowed else "edges_where_none_are_expressible_or_selected"
    elif not set(required) <= set(gotE):
        mech = "declared_edges_lost" if gotE else "all_declared_edges_lost"
    elif not _is_subsequence(gotE, allowed):
        mech = "edge_order_changed"
    if mech:
        good = False
        ctx.violation(mon, fmt + "/edges", mech, "edges differ from the projection of the mesh onto the format (%s)" % mech,
                      required=required[:12], allowed=allowed[:12], got=gotE[:12])
    return good


def expected_dim(exp, gotE):
    if exp["C"]:
        return 3
    if exp["F"] or exp["soup"]:
        return 2
    if gotE:
        return 1
    return 0


def check_constructed(ctx, mon, fmt, L, R, exp, cfg):
    """The object returned by load(): class implied by the content, and prepare()-normalised content of the raw data."""
    dim = expected_dim(exp, R["E"])
    ctx.check(type(L).__name__ == CLASS_OF_DIM[dim], mon, fmt + "/class", "class_%s_instead_of_%s" % (type(L).__name__, CLASS_OF_DIM[dim]),
              "the loaded object does not have the class its content implies", got=type(L).__name__, want=CLASS_OF_DIM[dim])
    try:
        S = _snap(L)
    except Malformed as e:
        ctx.violation(mon, fmt + "/constructed", "malformed_containers", "containers of the loaded object are malformed: %s" % e)
        return
    ctx.obs(mon, fmt + "/constructed")
    exactV = exp["V"] is not None
    dv = diff_vertices(R["V"], S["V"], exact=exactV)
    mech = None
    if dv is not None:
        mech = "vertices_" + dv[0]
    elif S["C"] != R["C"]:
        mech = "cells_changed_by_construction"
    elif S["F"][:len(R["F"])] != R["F"]:
        mech = "declared_faces_changed_by_construction"
    elif S["E"][:len(R["E"])] != R["E"]:
        mech = "declared_edges_changed_by_construction"
    else:
        extraF = Counter(_key(f) for f in S["F"][len(R["F"]):])
        wantF = Counter()
        have = {_key(f) for f in R["F"]}
        for c in R["C"]:
            if len(c) in (4, 8):
                for f in zin.cell_faces(c):
                    if _key(f) not in have and _key(f) not in wantF:
                        wantF[_key(f)] = 1
        if dim >= 3 and extraF != wantF:
            mech = "completed_faces_are_not_the_faces_of_the_cells"
        elif dim < 3 and extraF:
            mech = "faces_added_by_construction"
        else:
            extraE = Counter(S["E"][len(R["E"]):])
            wantE = Counter()
            haveE = set(R["E"])
            if cfg["complete_edges_from_faces"] and dim >= 2:
                for f in S["F"]:
                    for a, b in zip(f, f[1:] + f[:1]):
                        k = _key((a, b))
                        if a != b and k not in haveE and k not in wantE:
                            wantE[k] = 1
            if extraE != wantE:
                mech = "completed_edges_are_not_the_edges_of_the_faces"
    if mech:
        ctx.violation(mon, fmt + "/constructed", mech, "load() does not return the prepare()-normalised content of the file (%s)" % mech,
                      raw={k: v[:8] for k, v in R.items()}, constructed={k: v[:8] for k, v in S.items()})


# ============================================================================================== attributes
def _values_equal(a, b):
    if isinstance(a, list) or isinstance(b, list):
        return isinstance(a, list) and isinstance(b, list) and len(a) == len(b) and all(_values_equal(x, y) for x, y in zip(a, b))
    if isinstance(a, bool) or isinstance(b, bool):
        return isinstance(a, bool) and isinstance(b, bool) and a == b
    if isinstance(a, str) or isinstance(b, str):
        return isinstance(a, str) and isinstance(b, str) and a == b
    return a == b


def check_attributes_loaded(ctx, L, made, fmt="geogram_ascii", op_prefix=""):
    for a in made:
        op = "%s/%s%s" % (fmt, op_prefix, a["on"])
        ctx.obs("attributes", op)
        t = a["type"]
        cont = getattr(L, a["on"], None)
        if cont is None or not cont.has_attribute(a["name"]):
            others = [c for c in CONTAINERS["volume"] if c != a["on"] and getattr(L, c, None) is not None and getattr(L, c).has_attribute(a["name"])]
            mech = "%s_attribute_missing" % t if not others else "attribute_of_%s_came_back_on_%s" % (a["on"], others[0])
            ctx.violation("attributes", op, mech, "attribute %s did not come back on %s" % (a["name"], a["on"]), name=a["name"], found_on=others)
            continue
        try:
            attr = cont.get_attribute(a["name"])
            tname = attr.type.name
            arity = int(attr.elemsize)
            vals = [_plain(attr[i]) for i in range(len(a["values"]))]
        except Exception as e:  # a malformed attribute object is an answer, not a harness failure
            ctx.violation("attributes", op, "%s_attribute_unreadable" % t, "attribute %s cannot be read back: %s" % (a["name"], str(e)[:100]))
            continue
        want_t = a.get("mouette_type", TYPE_NAME.get(t))
        if tname != want_t:
            ctx.violation("attributes", op, "%s_attribute_type_became_%s" % (t, tname.lower()), "attribute type changed", name=a["name"], got=tname)
            continue
        if arity != a["arity"]:
            ctx.violation("attributes", op, "%s_attribute_arity_changed" % t, "attribute arity changed", name=a["name"], got=arity, want=a["arity"])
            continue
        bad = [i for i in range(len(vals)) if not _values_equal(vals[i], a["values"][i])]
        if bad:
            i = bad[0]
            ctx.violation("attributes", op, "%s_arity%s_value_changed" % (t, "1" if a["arity"] == 1 else "N"),
                          "attribute value changed", name=a["name"], index=i, got=vals[i], want=a["values"][i], n_bad=len(bad))


def check_attributes_written(ctx, ref, made):
    """mouette's file read by the reference reader: attributes of the geogram-native types."""
    for a in made:
        if a["type"] not in REF_TYPE_OF:
            continue
        op = "geogram_ascii/written_%s" % a["on"]
        ctx.obs("attributes", op)
        got = ref["attrs"].get((GEO_SET[a["on"]], a["name"]))
        t = a["type"]
        if got is None:
            other = [k for k in ref["attrs"] if k[1] == a["name"]]
            mech = "%s_attribute_missing_in_file" % t if not other else "attribute_in_set_%s_instead_of_%s" % (
                other[0][0].split("::")[-1], GEO_SET[a["on"]].split("::")[-1])
            ctx.violation("attributes", op, mech, "attribute not found in the written file where the format puts it", name=a["name"],
                          found_in=[k[0] for k in other])
            continue
        if got["type"] != REF_TYPE_OF[t] or got["dim"] != a["arity"]:
            ctx.violation("attributes", op, "%s_attribute_written_with_type_%s" % (t, slug(got["type"])), "type / dimension in the file",
                          got_type=got["type"], got_dim=got["dim"])
            continue
        bad = [i for i in range(len(a["values"])) if i >= len(got["values"]) or not _values_equal(_plain(got["values"][i]), a["values"][i])]
        if bad:
            ctx.violation("attributes", op, "%s_value_changed_in_file" % t, "attribute value in the file differs", index=bad[0],
                          want=a["values"][bad[0]], got=got["values"][bad[0]] if bad[0] < len(got["values"]) else None)


# ============================================================================================== the three directions
def _ref_snapshot(fmt, data):
    if fmt == "stl":
        # triangle soup -> indexed form without sharing
        V, F = [], []
        for t in data["T"]:
            F.append([len(V), len(V) + 1, len(V) + 2])
            V.extend([tuple(map(float, p)) for p in t])
        return {"V": V, "E": [], "F": F, "C": []}
    return {"V": [tuple(p) for p in data["V"]], "E": [tuple(sorted(e)) for e in data["E"]],
            "F": [list(f) for f in data["F"]], "C": [list(c) for c in data["C"]]}


def direction_save(ctx, desc, inp, fmt, tmp, cfg):
    """events 1, 2 and 4 for one format.  A fresh mesh is built for every save (save(..., ignore_elements) empties its input)."""
    import mouette as M
    V, E, F, C, base, label = inp
    int_coords = desc.get("coords") == "int"
    ok, (mesh, n_declared) = ctx.call("construct", _construct, V, E, F, C, base, desc["vrows"], desc["irows"], int_coords,
                                      vstore=desc.get("vstore"), tmp=tmp)
    rng = random.Random(desc["seed"] ^ 0xA77)
    made = _make_attrs(mesh, desc.get("attrs", []), rng) if fmt in ("geogram_ascii", "obj", "xyz") else []
    hard = _edit_hard_edges(mesh, desc, random.Random(desc["seed"] ^ 0x4A2D))
    snap = _snap(mesh)
    ignore = set(desc.get("ignore", []))
    if fmt == "stl" and not zin.fits_float32(snap["V"]):
        ctx.note("stl_skipped_outside_float32_range")
        return
    exp = project(snap, fmt, cfg, ignore, n_declared, bool(snap["F"]), hard=hard)
    path = os.path.join(tmp, _file_name("m", fmt, desc))
    polygons = fmt == "stl" and any(len(f) >= 5 for f in snap["F"]) and "faces" not in ignore
    ok, res = _call(ctx, "roundtrip", fmt + "/save", M.mesh.save, mesh, path, set(ignore) if ignore else None,
                    expect=(ValueError,) if polygons else ())
    if ok is None:
        return
    if ok is False:
        ctx.note("stl_polygon_refused")
        return
    if polygons:
        ctx.note("stl_polygon_written_without_polygons")
    if not os.path.exists(path):
        ctx.violation("roundtrip", fmt + "/save", "no_file_written", "save() returned without writing a file")
        return
    # ---- event 2: the bytes mean the projection to an independent reader
    ref = None
    try:
        ref = codecs.BY_EXT[fmt].read(path)
    except FormatError as e:
        ctx.obs("written", fmt + "/parse")
        ctx.violation("written", fmt + "/parse", "malformed_file:" + e.code,
                      "the reference reader rejects the file mouette wrote: %s" % str(e)[:200], head=_head(path))
    except (IndexError, KeyError, ValueError, struct.error) as e:
        ctx.obs("written", fmt + "/parse")
        ctx.violation("written", fmt + "/parse", "malformed_file:" + type(e).__name__.lower(),
                      "the reference reader cannot parse the file mouette wrote: %s" % str(e)[:200], head=_head(path))
    if ref is not None:
        ctx.obs("written", fmt + "/parse")
        compare_content(ctx, "written", fmt, _ref_snapshot(fmt, ref), exp)
        if fmt == "geogram_ascii" and made:
            check_attributes_written(ctx, ref, _kept(made, ignore))
    # ---- event 1: mouette reads its own file
    if fmt == "stl" and not exp["soup"] and desc.get("gen") != "stl_zero":
        ctx.note("stl_zero_triangles_load_skipped")
        return
    ok, Rraw = _call(ctx, "roundtrip", fmt + "/load_raw", M.mesh.load, path, raw=True)
    R = None
    if ok:
        try:
            R = _snap(Rraw)
        except Malformed as e:
            ctx.obs("roundtrip", fmt + "/load_raw")
            ctx.violation("roundtrip", fmt + "/load_raw", "malformed_containers", "raw data read from the file is malformed: %s" % e)
    good = R is not None and compare_content(ctx, "roundtrip", fmt, R, exp)
    if R is None and ok is None:
        return snap  # load(raw=True) already raised; load() runs the same importer
    ok, L = _call(ctx, "roundtrip", fmt + "/load", M.mesh.load, path, soft=not good)
    if ok and good:
        check_constructed(ctx, "roundtrip", fmt, L, R, exp, cfg)
    if ok and fmt == "geogram_ascii" and made:
        check_attributes_loaded(ctx, L, _kept(made, ignore))
    if ok and good and fmt == "geogram_ascii" and not ignore and hasattr(mesh, "cell_faces") and hasattr(L, "cell_faces") and len(mesh.cell_faces):
        # the adjacency the format carries for volumes (neighbouring cell across each cell facet, "no neighbour" = 4294967295; cell number 0 is a
        # neighbour like any other): what the file says (reference reader) must be what the loaded mesh holds
        try:
            _, attrs_in_file = ref_geogram.parse(path)
            v0 = [int(x) for (sn, an, typ, es, dm, vals) in attrs_in_file if an.endswith("adjacent_cell") for x in vals]
            n1 = [x for x in ("opposite_cell", "adjacent_cell") if L.cell_faces.has_attribute(x)]
            v1 = [int(L.cell_faces.get_attribute(n1[0])[i]) for i in range(len(L.cell_faces))] if n1 else None
        except Exception as e:
            ctx.note("cell_adjacency_not_compared:" + type(e).__name__)
            v0 = v1 = None
        if v0 and v1 is not None and len(v0) == len(v1):
            ctx.obs("attributes", "geogram_ascii/cell_adjacency")
            bad = [i for i in range(len(v0)) if v0[i] != v1[i]]
            if bad:
                ctx.violation("attributes", "geogram_ascii/cell_adjacency", "cell_adjacency_value_changed",
                              "the cell adjacency written in the file is not what the loaded mesh holds", index=bad[0], in_file=v0[bad[0]], loaded=v1[bad[0]],
                              n_bad=len(bad))
    return snap


def _kept(made, ignore):
    return [a for a in made if not ((a["on"] == "edges" and "edges" in ignore) or (a["on"] in ("faces", "face_corners") and "faces" in ignore)
                                    or (a["on"] in ("cells", "cell_corners", "cell_faces") and "cells" in ignore))]


EXT_CASES = ["lower", "upper", "mixed", "lower", "capital", "upper", "mixed"]


def _file_name(prefix, fmt, desc):
    """<prefix>_<fmt>[.v2].<extension in the case asked by the descriptor>; the format is chosen by the extension whatever its case."""
    how = desc.get("ext_case", "lower")
    ext = {"lower": fmt, "upper": fmt.upper(), "capital": fmt.capitalize(),
           "mixed": "".join(c.upper() if i % 2 else c for i, c in enumerate(fmt))}[how]
    return "%s_%s%s.%s" % (prefix, fmt, ".v2" if desc.get("dotted_name") else "", ext)


def _head(path, n=400):
    try:
        with open(path, "rb") as f:
            return f.read(n).decode("latin-1")
    except OSError:
        return ""


def _pick_dialect(rng, fmt):
    d = dialect(eol=rng.choice(["\n", "\n", "\r\n"]), float=rng.choice(["repr", "17g", "exp", "EXP", "intlike", "fixed"]),
                trail_ws=rng.random() < 0.3, order=rng.randrange(3))
    if fmt in ("obj", "off", "mesh"):
        d["comments"] = rng.random() < 0.5
        d["blank"] = rng.random() < 0.5
        d["indent"] = rng.random() < 0.3
        d["extras"] = rng.random() < 0.4
    if fmt == "mesh":
        d["ref"] = rng.choice([1, 0, 5, -3, "vary"])
    if fmt == "off":
        d["order"] = rng.randrange(2)
    if fmt == "tet":
        d["order"] = rng.randrange(2)
    if fmt == "xyz":
        d["indent"] = rng.random() < 0.3
        d["extras"] = rng.random() < 0.3
    if fmt == "stl":
        d["order"] = rng.choice([0, 1, 1])
        d["extras"] = rng.random() < 0.5
        d["indent"] = rng.random() < 0.5
        d["float"] = rng.choice(["repr", "17g", "exp", "exp3", "fixed"])
        if d["order"] == 1:
            # ASCII dialects: several `solid ... endsolid` blocks per file, names, blank lines (facet counts are drawn by the caller)
            d["n_solids"] = rng.choice([1, 2, 2, 3, 5])
            d["empty_solid"] = rng.random() < 0.25
            d["names"] = rng.choice(["named", "unnamed", "mixed"])
            d["endname"] = rng.random() < 0.6
            d["blank"] = rng.random() < 0.3
    if fmt == "geogram_ascii":
        d["comments"] = rng.random() < 0.6
        d["extras"] = rng.choice(["native", "native", "ptr", "min"])
        d["order"] = rng.randrange(2)
        d["data_comments"] = rng.choice([None, None, "blank", "tight"])  # none / header lines / data lines / both
    return d


def _foreign_attrs(rng, plan, sizes):
    """Attribute specs for the reference geogram writer (geogram-native element types only)."""
    attrs, made = {}, []
    for a in plan:
        if a["type"] not in REF_TYPE_OF or a.get("name") in ("normals", "uv_coords"):
            continue
        n = sizes.get(a["on"], 0)
        if n == 0:
            continue
        rtype = REF_TYPE_OF[a["type"]]
        if a["type"] == "float" and rng.random() < 0.3:
            rtype = "float"
        if a["type"] == "int" and rng.random() < 0.3:
            rtype = "index_t"
        vals = []
        for i in range(n):
            v = [zin.attr_value(rng, a["type"]) for _ in range(a["arity"])]
            if rtype == "float":
                v = [_f32(max(-1e30, min(1e30, x))) for x in v]
            if rtype == "index_t":
                v = [abs(x) % 4000000000 for x in v]
            vals.append(v[0] if a["arity"] == 1 else v)
        name = "r_%s%d_%s" % (rtype, a["arity"], a["on"])
        if (GEO_SET[a["on"]], name) in attrs:
            continue
        attrs[(GEO_SET[a["on"]], name)] = {"type": rtype, "dim": a["arity"], "values": vals}
        made.append({"on": a["on"], "name": name, "type": a["type"], "arity": a["arity"], "values": [_plain(v) for v in vals],
                     "mouette_type": MOUETTE_TYPE_OF_REF[rtype]})
    return attrs, made


def direction_foreign(ctx, desc, inp, fmt, tmp, cfg):
    """event 3: a file written by the reference writer in some dialect must load as its content."""
    import mouette as M
    V, E, F, C, base, label = inp
    rng = random.Random((desc["seed"] ^ 0xF0E) + FORMATS.index(fmt))
    Vf = [tuple(float(c) for c in p) for p in V]
    data = {"V": Vf, "E": [], "F": [], "C": []}
    if fmt in ("obj", "mesh", "geogram_ascii"):
        data["E"] = [tuple(e) for e in E]
    if fmt in ("obj", "off", "geogram_ascii"):
        data["F"] = [list(f) for f in F]
    if fmt == "mesh":
        data["F"] = [list(f) for f in F if len(f) in (3, 4)]
    if fmt in ("mesh", "geogram_ascii", "tet"):
        data["C"] = [list(c) for c in C]
    d = _pick_dialect(rng, fmt)
    exp = {"V": data["V"], "E_allowed": [tuple(sorted(e)) for e in data["E"]], "E_required": [tuple(sorted(e)) for e in data["E"]],
           "F": data["F"], "C": data["C"], "perkind": fmt == "mesh", "soup": None}
    made = []
    if fmt == "stl":
        # any triangle soup will do: fan triangulation of the faces, else consecutive vertex triples
        tris = [[f[0], f[k], f[k + 1]] for f in F for k in range(1, len(f) - 1)] or [[i, i + 1, i + 2] for i in range(0, len(Vf) - 2, 2)]
        if not tris or not zin.fits_float32(Vf):
            ctx.note("foreign_stl_skipped_fewer_than_3_vertices_or_range")
            return
        V32 = [tuple(_f32(c) for c in p) for p in Vf]
        data = {"T": _soup(V32, tris, cast=False)}
        exp = {"V": None, "E_allowed": [], "E_required": [], "F": [], "C": [], "perkind": False, "soup": data["T"]}
        if d["order"] == 1:
            d["solids"] = codecs.stl.split_solids(len(data["T"]), d["n_solids"], d["empty_solid"], rng)
            ctx.cls("dialect:stl:solids=%s" % ("1" if len(d["solids"]) == 1 else "several" + ("+empty" if 0 in d["solids"] else "")))
            ctx.cls("dialect:stl:names=%s,endname=%s" % (d["names"], d["endname"]))
    if fmt == "geogram_ascii":
        sizes = {"vertices": len(Vf), "edges": len(data["E"]), "faces": len(data["F"]), "face_corners": sum(len(f) for f in data["F"]),
                 "cells": len(data["C"]), "cell_corners": sum(len(c) for c in data["C"]),
                 "cell_faces": sum(ref_geogram.CELL_NF[len(c)] for c in data["C"])}
        data["attrs"], made = _foreign_attrs(rng, desc.get("attrs", []), sizes)
    for k in ("eol", "float", "extras", "order", "comments", "blank", "data_comments"):
        if k in d and (k != "eol" or d[k] != "\n"):
            ctx.cls("dialect:%s:%s=%s" % (fmt, k, {"\r\n": "crlf"}.get(d[k], d[k])))
    path = os.path.join(tmp, _file_name("f", fmt, desc))
    codecs.BY_EXT[fmt].write(path, data, d)
    # the reference reader must understand the reference writer (codec self-check; a failure here is a harness error)
    back = _ref_snapshot(fmt, codecs.BY_EXT[fmt].read(path))
    if fmt != "stl":
        srt = (lambda x: sorted(x, key=len)) if fmt == "mesh" else (lambda x: x)
        assert diff_vertices(data["V"], back["V"]) is None and srt(back["F"]) == srt(data["F"]) and srt(back["C"]) == srt(data["C"]) \
            and sorted(back["E"]) == sorted(tuple(sorted(e)) for e in data["E"]), "reference codec %s" % fmt
    else:
        assert back["F"] and back == _ref_snapshot(fmt, data), "reference codec stl"
    tag = ""
    if fmt == "stl" and d["order"] == 1:
        tag = "_ascii" + ("_blank_lines" if d.get("blank") else "")
    if fmt == "geogram_ascii":
        tag = "_" + str(d["extras"]) + ("_nonsimplicial_cells" if any(len(c) != 4 for c in data["C"]) else "_tets" if data["C"] else "")
    if fmt == "obj" and d["order"] == 2 and any(E[i][1] == E[i + 1][0] for i in range(len(E) - 1)):
        tag = "_polyline_statements"
    ok, Rraw = _call(ctx, "foreign", fmt + "/load_raw" + tag, M.mesh.load, path, raw=True)
    R = None
    if ok:
        try:
            R = _snap(Rraw)
        except Malformed as e:
            ctx.obs("foreign", fmt + "/load_raw")
            ctx.violation("foreign", fmt + "/load_raw", "malformed_containers", "raw data read from the file is malformed: %s" % e,
                          dialect=d, head=_head(path))
    good = False
    if R is not None:
        before = len(ctx.violations)
        good = compare_content(ctx, "foreign", fmt, R, exp)
        for v in ctx.violations[before:]:
            v["witness"]["dialect"] = {k: (x if isinstance(x, (int, str, bool)) else repr(x)) for k, x in d.items()}
            v["witness"]["head"] = _head(path, 300)
            if tag == "_polyline_statements" and v["op"] == "obj/edges":
                v["mechanism"] = v["mechanism"] + "_with_polyline_statements"
    if R is None and ok is None:
        return
    ok, L = _call(ctx, "foreign", fmt + "/load" + tag, M.mesh.load, path, soft=not good)
    if ok and good:
        check_constructed(ctx, "foreign", fmt, L, R, exp, cfg)
    if ok and made:
        check_attributes_loaded(ctx, L, made, op_prefix="foreign_")


# ============================================================================================== entry
def run_case(desc, ctx):
    tmp = tempfile.mkdtemp(prefix="mv_c04_")
    try:
        _run(desc, ctx, tmp)
    finally:
        shutil.rmtree(tmp, ignore_errors=True)


def _run(desc, ctx, tmp):
    inp = materialise(desc)
    V, E, F, C, base, label = inp
    cfg = dict(desc["cfg"])
    formats = desc.get("formats", FORMATS)
    ctx.cls("kind:" + base)
    ctx.cls("class:" + label)
    ctx.cls("coords:" + desc.get("coords", "zoo"))
    ctx.cls("export_edges_in_obj:%s" % cfg["export_edges_in_obj"])
    ctx.cls("complete_edges_from_faces:%s" % cfg["complete_edges_from_faces"])
    ctx.cls("ignore:" + (",".join(desc.get("ignore", [])) or "none"))
    ctx.cls("rows:%s/%s" % (desc["vrows"], desc["irows"]))
    ctx.cls("vstore:%s" % (desc.get("vstore") or "python_float_rows"))
    ctx.cls("hard_edge_flags:%s" % (desc.get("hard_edit") or "as_built"))
    ctx.cls("file_name:extension_%s%s" % (desc.get("ext_case", "lower"), ",dotted_base" if desc.get("dotted_name") else ""))
    if F:
        ctx.cls("face_arities:" + ",".join(sorted({_fcls(len(f)) for f in F})))
    if C:
        ctx.cls("cell_arities:" + ",".join(sorted({_ccls(len(c)) for c in C})))
    if E and (F or C):
        ctx.cls("declared_edges:yes")
    for a in desc.get("attrs", []):
        ctx.cls("attr:%s:%s:arity%d:%s" % (a["on"], a["type"], a["arity"], "dense" if a["dense"] else "sparse"))
    kinds = (1 if E else 0) + (1 if F else 0) + (1 if C else 0)
    if kinds >= 1 and (kinds >= 2 or desc.get("attrs")):
        if True:
            ctx.nontrivial(stable_hash([[[float(c).hex() for c in p] for p in V], E, F, C, desc.get("attrs"), cfg, desc.get("ignore"), desc.get("vstore")]))
    with build.config(export_edges_in_obj=cfg["export_edges_in_obj"], complete_edges_from_faces=cfg["complete_edges_from_faces"]):
        for fmt in formats:
            direction_save(ctx, desc, inp, fmt, tmp, cfg)
            if desc.get("gen") != "stl_zero":
                direction_foreign(ctx, desc, inp, fmt, tmp, cfg)
    if len(V) <= 6 and len(E) + len(F) + len(C) <= 4:
        ctx.sample({"mesh": label, "vertices": [[_plain(c) for c in p] for p in V], "edges": E, "faces": F, "cells": C,
                    "attributes": desc.get("attrs", []), "switches": cfg, "ignore_elements": desc.get("ignore", []),
                    "compared": "per format in %s: load(save(m)) raw data + class + constructed object, the written bytes through the "
                                "reference reader, and a reference-written file in a random dialect through mouette" % ",".join(formats)})
