"""C17 - Tutte's embedding is a fold-free planar embedding onto the convex target.

Shape: invariant monitor on the computed coordinates (border placement, weighted-average residual with reference-assembled
weights, strict uniform orientation) + metamorphic agreement of the two storage modes."""
import math
import random

import numpy as np

from .. import build
from ..ref import topo
from ..ref.surface_ref import RefSurface
from ..zoo import surfaces
from ..ctx import stable_hash

ID = "C17"
RULE = ("triangulated disks from the zoo (Delaunay disks with non-negative cotangent weights, ragged borders with chords and ears, grids, fans incl. "
        "no interior vertex), border length 3..150 incl. not a multiple of 4; boundary circle / square / custom convex polygon (regular, random convex, with "
        "collinear runs); uniform or cotangent weights; per-vertex or per-corner storage; plus non-disk surfaces that must be rejected; non-trivial = >= 5 "
        "interior vertices and (border length not a multiple of 4 or a chord present); distinct = (mesh, mode, weights, storage) hash"
        "; variants: whole-number coordinates / targets as integer arrays, explicit custom_boundary=None, previous run with other weights on the same object, non-disks rejected under every option combination incl. a caller-supplied target")
REQUIRED = {"border": 150, "harmonic": 120, "orientation": 100, "storage": 60, "reject": 20}
CASE_TIMEOUT = {"quick": 30.0, "thorough": 600.0}
ASSUMPTIONS = ["orientation is judged for uniform weights always and for cotangent weights only when every interior edge weight is >= 1e-9",
               "on targets with straight sides (square, custom polygons with collinear runs) orientation is judged only when no triangle and no interior edge has "
               "all its vertices on one straight side (such configurations legitimately flatten)",
               "custom boundary coordinates are given per boundary vertex in the order of mesh.boundary_vertices (as the constructor documents)"]


def cases(seed, tier):
    rng = random.Random(seed * 75 + 17)
    n = 240 if tier == "quick" else 30000
    out = []
    for i in range(n):
        out.append({"gen": "disk", "seed": rng.randrange(2 ** 31), "mode": ["circle", "square", "custom", "square", "circle", "custom_collinear"][i % 6],
                    "cotan": (i // 6) % 2 == 1, "corners": (i // 12) % 2 == 0, "max_size": 6 if tier == "quick" else 12})
    lens = [4, 3, 5, 3, 6, 3, 7, 8, 61, 122, 197, 244, 343, 345, 355, 359] + [rng.randint(3, 400) for _ in range(24 if tier == "quick" else 1500)]
    for i, L in enumerate(lens):
        out.append({"gen": "disk", "seed": rng.randrange(2 ** 31), "mode": ["circle", "square", "circle", "circle"][i % 4], "cotan": False, "corners": i % 2 == 0,
                    "max_size": 4, "border_len": L})
    for i in range(30 if tier == "quick" else 300):
        out.append({"gen": "nondisk", "seed": rng.randrange(2 ** 31)})
    return out


def _cot_weights(V, F):
    w = {}
    for f in F:
        for k in range(3):
            a, b, c = V[f[k]], V[f[(k + 1) % 3]], V[f[(k + 2) % 3]]
            # angle at a is opposite edge (b,c)
            u, v = b - a, c - a
            cot = np.dot(u, v) / np.linalg.norm(np.cross(u, v))
            e = (min(f[(k + 1) % 3], f[(k + 2) % 3]), max(f[(k + 1) % 3], f[(k + 2) % 3]))
            w[e] = w.get(e, 0.0) + 0.5 * cot
    return w


def _convex_polygon(rng, kind, n):
    """n points in order on a convex polygon (counter-clockwise)."""
    if kind == "custom":
        if rng.random() < 0.5:
            # n distinct angles in increasing order covering less than one turn: random gaps, each at least a fixed share of the mean gap
            gaps = [rng.random() + 0.05 for _ in range(n)]
            tot = sum(gaps)
            a0 = rng.uniform(0, 2 * math.pi)
            ang, acc = [], 0.0
            for g in gaps:
                ang.append(a0 + 2 * math.pi * acc / tot)
                acc += g
            rx, ry = rng.uniform(0.5, 3), rng.uniform(0.5, 3)
            return np.array([[rx * math.cos(a), ry * math.sin(a)] for a in ang]), None
        return np.array([[math.cos(2 * math.pi * i / n + 0.3), math.sin(2 * math.pi * i / n + 0.3)] for i in range(n)]) * 2.5, None
    # collinear runs: points spread along the sides of a convex k-gon
    k = rng.randint(3, 5)
    corners = np.array([[math.cos(2 * math.pi * i / k), math.sin(2 * math.pi * i / k)] for i in range(k)]) * 2
    pts, side = [], []
    for i in range(n):
        s = i * k / n
        j = int(s)
        t = s - j
        pts.append(corners[j % k] * (1 - t) + corners[(j + 1) % k] * t)
        side.append({j % k} if t > 1e-12 else {j % k, (j - 1) % k})
    return np.array(pts), side


def _square_sides(uv):
    s = set()
    if abs(uv[1]) < 1e-12:
        s.add(0)
    if abs(uv[0] - 1) < 1e-12:
        s.add(1)
    if abs(uv[1] - 1) < 1e-12:
        s.add(2)
    if abs(uv[0]) < 1e-12:
        s.add(3)
    return s


def _disk_case(desc, ctx):
    import mouette as M
    rng = random.Random(desc["seed"])
    cotan = desc["cotan"]
    classes = ["delaunay", "delaunay", "grid_tri", "fan"] if cotan else ["delaunay", "delaunay_ragged", "grid_tri", "fan", "delaunay_ragged"]
    if desc.get("border_len"):
        # two-ring disc with a prescribed border length (lengths up to 400 incl. those where a float-step arange over-runs)
        nb_ = desc["border_len"]
        Vl = [[0.0, 0.0, 0.0]]
        Vl += [[0.5 * math.cos(2 * math.pi * i / nb_ + 0.1), 0.5 * math.sin(2 * math.pi * i / nb_ + 0.1), 0.05 * math.sin(3.0 * i)] for i in range(nb_)]
        Vl += [[math.cos(2 * math.pi * i / nb_), math.sin(2 * math.pi * i / nb_) * 1.2, 0.0] for i in range(nb_)]
        Fl = []
        for i in range(nb_):
            j = (i + 1) % nb_
            Fl += [[0, 1 + i, 1 + j], [1 + i, 1 + nb_ + i, 1 + nb_ + j], [1 + i, 1 + nb_ + j, 1 + j]]
        Vl = np.array(Vl, float)
        if rng.random() < 0.5:
            Vl, Fl, _ = surfaces.renumber(Vl, Fl, rng)
        Fl = surfaces.rotate_faces(Fl, rng)
        z = {"V": Vl, "F": [list(map(int, f)) for f in Fl], "cls": "two_ring_disc", "topo": topo.analyse(len(Vl), Fl)}
    else:
        z = surfaces.make(desc["seed"], max_size=desc["max_size"], tri_only=True, disk=True, classes=classes, allow_union=False)
    V, F, a = np.asarray(z["V"], float), z["F"], z["topo"]
    ref = RefSurface(len(V), F)
    loop = a["border_loops"][0]
    nb = len(loop)
    interior = sorted(set(range(len(V))) - ref.border_vertices)
    chords = [e for e in ref.edges if e not in ref.border_edges and e[0] in ref.border_vertices and e[1] in ref.border_vertices]
    mode = desc["mode"]
    ctx.cls("mode:" + mode)
    ctx.cls("weights:" + ("cotan" if cotan else "uniform"))
    ctx.cls("storage:" + ("corners" if desc["corners"] else "vertices"))
    ctx.cls("border_len_mod4:%d" % (nb % 4))
    ctx.cls("chords:" + ("yes" if chords else "no"))
    ctx.cls("interior:" + ("none" if not interior else "some"))
    if len(interior) >= 5 and (nb % 4 != 0 or chords):
        ctx.nontrivial(stable_hash([len(V), F, mode, cotan, desc["corners"]]))
    degenerate_positions = False
    if desc["seed"] % 5 == 2:
        # whole-number vertex coordinates of some size (a scanned / voxel-derived mesh): stored as Python ints or as an integer array
        fac = rng.choice([300.0, 1.0e5, 3.0e6])
        Vr = np.round(V * fac)

        def _areas(W):
            return np.array([np.linalg.norm(np.cross(W[f[1]] - W[f[0]], W[f[2]] - W[f[0]])) for f in F])
        if np.any(_areas(Vr) < 0.9 * _areas(V * fac)):
            fac = 3.0e6  # rounding to whole numbers must not squash a triangle: use the finest grid
            Vr = np.round(V * fac)
        V = Vr
        ctx.cls("coordinates:whole_numbers")
        a2 = topo.analyse(len(V), F)
        import mouette as _M
        if rng.random() < 0.5:
            ok, m = ctx.call("build", build.surface, [[int(x) for x in p] for p in V], F, monitor="border")
        else:
            ok, m = ctx.call("from_arrays", _M.mesh.from_arrays, np.asarray(V).astype(rng.choice(["int64", "int32"]) if np.abs(V).max() < 2e9 else "int64"), F=np.array(F), monitor="border")
    elif not cotan and desc["seed"] % 5 == 4:
        # uniform weights use the combinatorics only ("with uniform weights always"): the same triangulation with degenerate positions - every
        # vertex at one point, or a few collapsed edges - must embed exactly like the well-shaped one
        V = np.array(V, float)
        if rng.random() < 0.5:
            V[:] = V[0]
            degenerate_positions = True
            ctx.cls("coordinates:all_vertices_at_one_point")
        else:
            for (p_, q_) in rng.sample(sorted(ref.edges), min(len(ref.edges), rng.randint(1, 3))):
                V[q_] = V[p_]
            degenerate_positions = True
            ctx.cls("coordinates:some_edges_collapsed")
        ok, m = ctx.call("build", build.surface, V, F, monitor="border")
    else:
        ok, m = ctx.call("build", build.surface, V, F, monitor="border")
    kwargs = {"save_on_corners": desc["corners"]}
    side_of = None
    if mode.startswith("custom"):
        bv = [int(v) for v in m.boundary_vertices]
        poly, sides = _convex_polygon(rng, mode, nb)
        int_form = None
        if mode == "custom" and nb <= 24 and rng.random() < 0.5:
            # whole-number targets (pixel coordinates in [0, 255]), later handed over as uint8 / int64 / float arrays
            poly = np.round(127.0 + 120.0 * np.asarray(poly, float) / np.abs(np.asarray(poly, float)).max())
            int_form = rng.choice(["uint8", "int64", "float64"])
        # harness self-check: the target must be a convex polygon traversed once (strictly convex unless collinear runs are intended)
        Pq = np.asarray(poly, float)
        crs = [float((Pq[(i + 1) % nb] - Pq[i])[0] * (Pq[(i + 2) % nb] - Pq[(i + 1) % nb])[1] - (Pq[(i + 1) % nb] - Pq[i])[1] * (Pq[(i + 2) % nb] - Pq[(i + 1) % nb])[0])
               for i in range(nb)]
        turn = float(np.sum(np.abs(np.diff(np.unwrap(np.arctan2(np.roll(Pq, -1, 0)[:, 1] - Pq[:, 1], np.roll(Pq, -1, 0)[:, 0] - Pq[:, 0]))))))
        if min(crs) < (-1e-12 if sides is not None else 1e-14) or turn > 2 * math.pi + 1e-6:
            ctx.cls("custom:target_not_convex_skipped")
            return
        rank = {v: i for i, v in enumerate(loop)}
        kwargs["custom_boundary"] = np.array([poly[rank[v]] for v in bv])
        if int_form is not None:
            kwargs["custom_boundary"] = kwargs["custom_boundary"].astype(int_form)
            ctx.cls("custom_boundary:whole_numbers_as_" + int_form)
        target = {v: poly[rank[v]] for v in loop}
        if sides is not None:
            side_of = {v: sides[rank[v]] for v in loop}
        bmode = "circle"
    else:
        bmode = mode
        if rng.random() < 0.3:
            kwargs["custom_boundary"] = None  # the documented default given explicitly (what a wrapper forwarding every option does)
            ctx.cls("custom_boundary:explicit_None")
    if rng.random() < 0.5 and not degenerate_positions:  # (cotangent weights are not defined on collapsed triangles)
        # history: the same mesh object was embedded before with the other weighting (and other storage); the second run must not inherit anything
        ctx.cls("history:embedded_before_with_other_weights")
        kw0 = dict(kwargs)
        kw0["save_on_corners"] = (not desc["corners"]) if rng.random() < 0.5 else desc["corners"]  # other storage, or the very same attribute name
        ok, emb0 = ctx.call("TutteEmbedding", lambda: M.parametrization.TutteEmbedding(m, bmode, use_cotan=not cotan, verbose=False, **kw0), monitor="border")
        ok, _ = ctx.call("run_previous[%s]" % mode.split("_")[0], emb0.run, monitor="border")
    else:
        ctx.cls("history:fresh")
    ok, emb = ctx.call("TutteEmbedding", lambda: M.parametrization.TutteEmbedding(m, bmode, use_cotan=cotan, verbose=False, **kwargs), monitor="border")
    if rng.random() < 0.5:
        # history: the result is asked for before anything was computed (the guard `if emb.flat_mesh is None: emb.run()`); what is delivered
        # after run() must be the computed embedding all the same
        ctx.cls("history:flat_mesh_read_before_run")
        ok, early = ctx.call("flat_mesh_before_run", lambda: emb.flat_mesh, monitor="storage", abort=False)
        if ok:
            ctx.check(early is None, "storage", "flat_mesh", "flat_mesh_delivered_before_run", "flat_mesh is not None although nothing was computed yet")
    ok, _ = ctx.call("run[%s]" % mode.split("_")[0], emb.run, monitor="border")
    # read uv per vertex
    uv = np.full((len(V), 2), np.nan)
    try:
        if desc["corners"]:
            seen = {}
            for fi, f in enumerate(F):
                for k, v in enumerate(f):
                    p = np.asarray(emb.uvs[3 * fi + k], float)
                    if v in seen and not np.array_equal(seen[v], p):
                        ctx.violation("storage", "corners", "corners_of_one_vertex_disagree", "two corners of the same vertex carry different coordinates", vertex=v)
                        return
                    seen[v] = p
                    uv[v] = p
        else:
            for v in range(len(V)):
                uv[v] = np.asarray(emb.uvs[v], float)
    except Exception as e:
        ctx.violation("storage", "read", "unreadable_uvs", "uv attribute cannot be read: %s" % type(e).__name__)
        return
    if not np.all(np.isfinite(uv)):
        ctx.violation("border", "uv", "non_finite_coordinates", "computed coordinates are not finite")
        return
    # ---- border placement
    ctx.obs("border", mode)
    pts = uv[loop]
    if mode == "circle":
        if not np.all(np.abs(np.linalg.norm(pts, axis=1) - 1) <= 1e-12):
            ctx.violation("border", "circle", "border_not_on_target", "a border vertex is not on the unit circle")
            return
        param = np.arctan2(pts[:, 1], pts[:, 0]) / (2 * math.pi)
        period = 1.0
    elif mode == "square":
        on = [(len(_square_sides(p)) >= 1 and -1e-12 <= p[0] <= 1 + 1e-12 and -1e-12 <= p[1] <= 1 + 1e-12) for p in pts]
        if not all(on):
            ctx.violation("border", "square", "border_not_on_target", "a border vertex is not on the perimeter of the unit square")
            return
        param = []
        for p in pts:
            s = _square_sides(p)
            if 0 in s and 3 not in s or (0 in s and 3 in s):
                param.append(p[0] if not (0 in s and 3 in s) else 0.0)
            elif 1 in s:
                param.append(1 + p[1])
            elif 2 in s:
                param.append(2 + (1 - p[0]))
            else:
                param.append(3 + (1 - p[1]))
        param = np.array(param) / 4.0
        period = 1.0
        side_of = {v: _square_sides(uv[v]) for v in loop}
    else:
        want = np.array([target[v] for v in loop])
        if not np.all(np.abs(pts - want) <= 1e-12 * (1 + np.abs(want))):
            ctx.violation("border", "custom", "border_not_on_target", "a border vertex is not at its custom boundary position")
            return
        param = None
    # distinct positions
    P = np.round(pts, 13)
    if len({tuple(p) for p in P}) != nb:
        dup = nb - len({tuple(p) for p in P})
        ctx.violation("border", mode.split("_")[0], "border_positions_not_distinct", "two border vertices are placed at the same position", duplicates=dup, border_length=nb)
        return
    if param is not None:
        d = np.diff(np.concatenate([param, param[:1]]))
        d = (d + 0.5) % 1.0 - 0.5
        if not ((np.all(d > 0) or np.all(d < 0)) and abs(abs(d.sum()) - 1) < 1e-9):
            ctx.violation("border", mode, "border_order_not_monotone", "border vertices are not placed in border order around the target", border_length=nb)
            return
    # ---- weighted average of neighbours
    ctx.obs("harmonic", "residual")
    wc = _cot_weights(V, F) if cotan else None
    scale = max(1.0, float(np.abs(uv).max()))
    for v in interior:
        acc = np.zeros(2)
        tot = 0.0
        for w in ref.nbrs[v]:
            wt = wc[(min(v, w), max(v, w))] if cotan else 1.0
            acc += wt * (uv[w] - uv[v])
            tot += abs(wt)
        if not np.all(np.abs(acc) <= 1e-8 * max(tot, 1e-300) * scale):
            ctx.violation("harmonic", "cotan" if cotan else "uniform", "interior_vertex_not_weighted_average", "an interior vertex is not the weighted average of its neighbours",
                          vertex=v, residual=acc.tolist(), weight_sum=tot)
            return
    # ---- orientation
    judge = True
    if cotan:
        judge = all(wc[e] >= 1e-9 for e in ref.edges if e not in ref.border_edges)
        if not judge:
            ctx.note("cotan_weights_negative_not_judged")
    if judge and side_of is not None:
        def same_side(vs):
            common = None
            for x in vs:
                if x not in side_of:
                    return False
                common = set(side_of[x]) if common is None else common & side_of[x]
            return bool(common)
        if any(same_side(f) for f in F) or any(same_side(e) for e in chords):
            judge = False
            ctx.note("flattening_configuration_not_judged")
    if judge:
        ctx.obs("orientation", mode.split("_")[0])
        dets = np.array([(uv[f[1]][0] - uv[f[0]][0]) * (uv[f[2]][1] - uv[f[0]][1]) - (uv[f[1]][1] - uv[f[0]][1]) * (uv[f[2]][0] - uv[f[0]][0]) for f in F])
        ident = [fi for fi, f in enumerate(F) if np.array_equal(uv[f[0]], uv[f[1]]) or np.array_equal(uv[f[1]], uv[f[2]]) or np.array_equal(uv[f[0]], uv[f[2]])]
        pos, neg = int(np.sum(dets > 1e-13)), int(np.sum(dets < -1e-13))
        if ident:
            ctx.violation("orientation", mode.split("_")[0], "zero_area_triangle", "a triangle has two vertices at identical coordinates", triangle=ident[0], border_length=nb)
            return
        if pos and neg:
            ctx.violation("orientation", mode.split("_")[0], "flipped_triangle", "triangles do not all have the same orientation", positive=pos, negative=neg, cotan=cotan)
            return
        if pos + neg != len(F):
            # tiny determinant: only a violation when exactly degenerate on a generic mesh; otherwise (ill-conditioned) not judged
            tiny = int(len(F) - pos - neg)
            if np.any(dets == 0.0):
                ctx.violation("orientation", mode.split("_")[0], "zero_area_triangle", "a triangle has exactly zero area", n=tiny)
                return
            ctx.note("near_degenerate_triangles_not_judged")
    # ---- the other storage mode agrees; flat mesh carries the coordinates
    ctx.obs("storage", "agree")
    ok, m2 = ctx.call("build", build.surface, V, F, monitor="storage")
    kw2 = dict(kwargs)
    kw2["save_on_corners"] = not desc["corners"]
    ok, emb2 = ctx.call("TutteEmbedding", lambda: M.parametrization.TutteEmbedding(m2, bmode, use_cotan=cotan, verbose=False, **kw2), monitor="storage")
    ok, _ = ctx.call("run_other_storage", emb2.run, monitor="storage")
    uv2 = np.full((len(V), 2), np.nan)
    try:
        if not desc["corners"]:
            for fi, f in enumerate(F):
                for k, v in enumerate(f):
                    uv2[v] = np.asarray(emb2.uvs[3 * fi + k], float)
        else:
            for v in range(len(V)):
                uv2[v] = np.asarray(emb2.uvs[v], float)
    except Exception as e:
        ctx.violation("storage", "read", "unreadable_uvs", "uv attribute cannot be read: %s" % type(e).__name__)
        return
    if not np.all(np.abs(uv - uv2) <= 1e-10 * scale):
        ctx.violation("storage", "agree", "storages_disagree", "per-vertex and per-corner outputs differ", max_diff=float(np.abs(uv - uv2).max()))
        return
    ok, fm = ctx.call("flat_mesh", lambda: emb.flat_mesh, monitor="storage")
    try:
        Vf = build.vertices_array(fm)
        good = np.array_equal(Vf[:, :2], uv) and np.all(Vf[:, 2] == 0) and build.faces_list(fm) == F
    except Exception:
        good = False
    ctx.check(good, "storage", "flat_mesh", "flat_mesh_differs", "flat_mesh does not carry the computed coordinates on the same faces")
    if len(F) <= 6:
        ctx.sample({"faces": F, "mode": mode, "cotan": cotan, "uv": np.round(uv, 6).tolist()})


def _nondisk_case(desc, ctx):
    import mouette as M
    for attempt in range(50):
        z = surfaces.make(desc["seed"] + attempt, max_size=4, tri_only=True)
        if z["topo"]["chi"] != 1:
            break
    else:
        return
    ctx.cls("nondisk:chi=%d" % z["topo"]["chi"])
    ok, m = ctx.call("build", build.surface, z["V"], z["F"], monitor="reject")
    # every option combination must reject: target shape (a caller-supplied target included), weights, storage
    rng = random.Random(desc["seed"] ^ 0x17d)
    mode = ["circle", "square", "custom"][desc["seed"] % 3]
    kwargs = {}
    if mode == "custom":
        nbv = len({v for l in z["topo"]["border_loops"] for v in l})
        if nbv >= 3:
            t = np.linspace(0.0, 2 * math.pi, nbv, endpoint=False)
            kwargs["custom_boundary"] = np.stack([np.cos(t), np.sin(t)], axis=1)
        else:
            mode = "circle"
    if rng.random() < 0.5:
        kwargs["save_on_corners"] = rng.random() < 0.5
    cotan = rng.random() < 0.5
    ctx.cls("nondisk:target=%s" % mode)
    ctx.cls("nondisk:loops=%d" % len(z["topo"]["border_loops"]))
    ok, emb = ctx.call("TutteEmbedding", lambda: M.parametrization.TutteEmbedding(m, "circle" if mode == "custom" else mode, cotan, verbose=False, **kwargs), monitor="reject")
    ok, _ = ctx.call("run_nondisk", emb.run, expect=(Exception,), monitor="reject")
    ctx.check(not ok, "reject", "euler", "non_disk_not_rejected", "a surface whose Euler characteristic is not 1 was not rejected", chi=z["topo"]["chi"])
    ctx.nontrivial(stable_hash([len(z["V"]), z["F"], "reject"]))


def run_case(desc, ctx):
    if desc["gen"] == "disk":
        _disk_case(desc, ctx)
    else:
        _nondisk_case(desc, ctx)
