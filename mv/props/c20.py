"""C20 - union-find and priority queue conform to their abstract models.

Shape: history + sequential model, plus icontract invariants attached to the real classes
(structural invariants re-checked after every public call)."""
import itertools
import random

ID = "C20"
RULE = ("random operation histories (seeded) over int/str/tuple/mixed elements plus bounded-exhaustive "
        "enumeration of short histories; a history is non-trivial when it contains >=2 unions that merge "
        "two blocks of which at least one is not a singleton, or >=3 pops of which two tie; distinct = "
        "distinct (element kind, op sequence) hash")
REQUIRED = {"uf_model": 2000, "uf_invariant": 2000, "pq_model": 2000, "pq_invariant": 2000}
CASE_TIMEOUT = {"quick": 30.0, "thorough": 600.0}
ASSUMPTIONS = ["elements are hashable and immutable (ints, strings, tuples)", "priorities are ints/floats incl. +-inf, never NaN",
               "uf[i] = x (documented index assignment) is not part of the alphabet"]

_contract_evals = {"uf": 0, "pq": 0}
_installed = False


class InvariantBroken(Exception):
    pass


def uf_invariant(self):
    _contract_evals["uf"] += 1
    n = len(self._elts)
    if not (len(self._par) == n and len(self._siz) == n and self._next == n and self.n_elts == n):
        return False
    if len(self._indx) != n:
        return False
    for i, e in enumerate(self._elts):
        if self._indx.get(e, None) != i:
            return False
    root = [None] * n
    for i in range(n):
        p, steps = i, 0
        while self._par[p] != p:
            p = self._par[p]
            steps += 1
            if steps > n or not (0 <= p < n):
                return False
        root[i] = p
    sizes = {}
    for r in root:
        sizes[r] = sizes.get(r, 0) + 1
    if len(sizes) != self.n_comps:
        return False
    for r, s in sizes.items():
        if self._siz[r] != s:
            return False
    return True


def pq_invariant(self):
    _contract_evals["pq"] += 1
    d = self.data
    for i in range(1, len(d)):
        if d[i] < d[(i - 1) // 2]:
            return False
    return True


def worker_init():
    global _installed
    if _installed:
        return
    import icontract
    from mouette.utils import unionfind, priority_queue
    icontract.invariant(uf_invariant, error=InvariantBroken)(unionfind.UnionFind)
    icontract.invariant(pq_invariant, error=InvariantBroken)(priority_queue.PriorityQueue)
    _installed = True


# ----------------------------------------------------------------------------- element domains
def _domain(kind, rng, n):
    if kind == "int":
        pool = rng.sample(range(-50, 1000), n)
    elif kind == "str":
        pool = ["s%d" % i for i in rng.sample(range(1000), n)]
    elif kind == "tuple_eq":
        pool = list({(rng.randrange(6), rng.randrange(6)) for _ in range(3 * n)})[:n]
    elif kind == "tuple_mixed":
        pool = list({tuple(rng.randrange(4) for _ in range(rng.randrange(1, 4))) for _ in range(4 * n)})[:n]
    else:  # mixed
        pool = []
        for i in range(n):
            c = i % 3
            pool.append([i * 7 - 3, "m%d" % i, (i, i + 1)][c])
    return pool


def _gen_uf_ops(rng, kind, length):
    n = rng.choice([2, 3, 5, 8, 12, 20])
    pool = _domain(kind, rng, n)
    ops = []
    for _ in range(length):
        r = rng.random()
        if r < 0.18:
            ops.append(["add", rng.randrange(len(pool))])
        elif r < 0.55:
            ops.append(["union", rng.randrange(len(pool)), rng.randrange(len(pool))])
        elif r < 0.65:
            ops.append(["find", rng.randrange(len(pool))])
        elif r < 0.73:
            ops.append(["connected", rng.randrange(len(pool)), rng.randrange(len(pool))])
        elif r < 0.82:
            ops.append(["component", rng.randrange(len(pool))])
        elif r < 0.88:
            ops.append(["components"])
        elif r < 0.94:
            ops.append(["component_mapping"])
        else:
            ops.append(["roots"])
    return pool, ops


def cases(seed, tier):
    rng = random.Random(1000003 * seed + 17)
    out = []
    # anchors: the element kinds behind the historical component()/component_mapping() failure
    for kind in ("tuple_eq", "tuple_mixed", "mixed", "str", "int"):
        out.append({"gen": "uf_anchor", "kind": kind, "seed": 1})
    n_uf = 900 if tier == "quick" else 20000
    n_pq = 900 if tier == "quick" else 20000
    maxlen = 40 if tier == "quick" else 120
    kinds = ["int", "str", "tuple_eq", "tuple_mixed", "mixed"]
    for i in range(n_uf):
        out.append({"gen": "uf_random", "kind": kinds[i % 5], "len": rng.randrange(1, maxlen + 1),
                    "seed": rng.randrange(2 ** 31), "init": rng.random() < 0.3})
    for i in range(n_uf // 6):
        out.append({"gen": "uf_quiet", "kind": kinds[i % 5], "n": [8, 16, 13, 32, 5][i % 5], "shape": ["tournament", "random"][i % 2],
                    "first": ["components", "component_mapping", "roots", "component"][(i // 2) % 4], "seed": rng.randrange(2 ** 31)})
    for i in range(n_pq):
        out.append({"gen": "pq_random", "len": rng.randrange(1, maxlen + 1), "seed": rng.randrange(2 ** 31),
                    "prio": ["int", "float", "ties", "inf", "mixed", "bigint"][i % 6]})
    # bounded exhaustive: union-find histories over 3 elements; queue histories over 4 priorities
    uf_len = 3 if tier == "quick" else 4
    alphabet = _uf_alphabet()
    for first in range(len(alphabet)):
        out.append({"gen": "uf_exhaustive", "first": first, "len": uf_len, "seed": 0})
    pq_len = 5 if tier == "quick" else 7
    for first in range(len(_PQ_ALPHABET)):
        for second in range(len(_PQ_ALPHABET)):
            out.append({"gen": "pq_exhaustive", "prefix": [first, second], "len": pq_len, "seed": 0})
    return out


def _uf_alphabet():
    a = [["add", i] for i in range(3)]
    a += [["union", i, j] for i in range(3) for j in range(3)]
    a += [["find", i] for i in range(3)]
    a += [["component", i] for i in range(3)]
    return a


_PQ_ALPHABET = [["push", 0], ["push", 0.0], ["push", 1], ["push", float("-inf")], ["pop"], ["front"]]


# ----------------------------------------------------------------------------- union-find monitor
class UFModel:
    def __init__(self):
        self.block = {}  # elt -> frozenset

    def add(self, x):
        if x not in self.block:
            self.block[x] = frozenset([x])

    def union(self, x, y):
        self.add(x)
        self.add(y)
        bx, by = self.block[x], self.block[y]
        if bx is by or bx == by:
            return False
        nb = bx | by
        for e in nb:
            self.block[e] = nb
        return len(bx) > 1 or len(by) > 1

    def partition(self):
        return set(self.block.values())


def _norm_set(s):
    """Elements may come back as numpy scalars; compare by value."""
    out = set()
    for e in s:
        if hasattr(e, "item") and not isinstance(e, tuple):
            try:
                e = e.item()
            except Exception:
                pass
        out.add(e)
    return frozenset(out)


def _uf_full_check(ctx, uf, model, rng, opname):
    elts = list(model.block)
    part = model.partition()
    ctx.check(uf.n_elts == len(elts) and len(uf) == len(elts), "uf_model", "n_elts", "count_mismatch",
              "n_elts/len disagree with the number of added elements", got=uf.n_elts, want=len(elts), after=opname)
    ctx.check(uf.n_comps == len(part), "uf_model", "n_comps", "count_mismatch",
              "n_comps disagrees with the model partition", got=uf.n_comps, want=len(part), after=opname)
    for e in elts:
        if not (e in uf):
            ctx.violation("uf_model", "contains", "missing_element", "added element not contained", elt=e)
    # elements by insertion index, and the two indices just outside
    for i in ([0, len(elts) - 1, rng.randrange(len(elts))] if elts else []):
        ok, got = ctx.call("getitem", uf.__getitem__, i, monitor="uf_model")
        ctx.check(got == elts[i] or (got is elts[i]), "uf_model", "getitem", "not_the_ith_added_element", "uf[i] is not the i-th element that was added", i=i, got=repr(got)[:40])
    for i in (len(elts), -1):
        ok, got = ctx.call("getitem", uf.__getitem__, i, expect=(IndexError,), monitor="uf_model")
        ctx.check(not ok, "uf_model", "getitem", "index_outside_accepted", "uf[i] answered for an index outside [0, number of elements)", i=i, n=len(elts), got=repr(got)[:40])
    pairs = list(itertools.combinations(elts, 2)) if len(elts) <= 10 else \
        [(rng.choice(elts), rng.choice(elts)) for _ in range(30)]
    for x, y in pairs:
        ok, got = ctx.call("connected", uf.connected, x, y, monitor="uf_model")
        want = model.block[x] == model.block[y]
        ctx.check(bool(got) == want, "uf_model", "connected", "wrong_answer",
                  "connected(x,y) disagrees with the chain-of-unions model", x=x, y=y, got=got, want=want, after=opname)


def _uf_views_check(ctx, uf, model, opname):
    part = model.partition()
    ok, roots = ctx.call("roots", uf.roots, monitor="uf_model")
    ctx.check(len(roots) == len(part), "uf_model", "roots", "count_mismatch",
              "number of roots differs from number of blocks", got=len(roots), want=len(part), after=opname)
    ok, comps = ctx.call("components", uf.components, monitor="uf_model")
    got = [_norm_set(c) for c in comps]
    ctx.check(len(got) == len(part) and set(got) == part and sum(len(c) for c in comps) == len(model.block),
              "uf_model", "components", "wrong_partition",
              "components() does not list the model's partition (each element exactly once)", got=[sorted(map(repr, c)) for c in got][:10],
              want=[sorted(map(repr, c)) for c in part][:10], after=opname)
    ok, cm = ctx.call("component_mapping", uf.component_mapping, monitor="uf_model")
    good = len(cm) == len(model.block)
    if good:
        keys = {}
        for k, v in cm.items():
            keys[_norm_set([k]).__iter__().__next__()] = _norm_set(v)
        good = set(keys) == set(model.block) and all(keys[e] == model.block[e] for e in model.block)
    ctx.check(good, "uf_model", "component_mapping", "wrong_partition",
              "component_mapping() does not describe the model's partition", size=len(cm), want=len(model.block), after=opname)
    for e in list(model.block)[:6]:
        ok, c = ctx.call("component", uf.component, e, monitor="uf_model")
        ctx.check(_norm_set(c) == model.block[e], "uf_model", "component", "wrong_block",
                  "component(x) is not x's block", x=e, got=sorted(map(repr, _norm_set(c))), want=sorted(map(repr, model.block[e])), after=opname)


def _run_uf_quiet(ctx, pool, ops, first_view):
    """A history in which NOTHING is queried while the unions are performed (queries compress paths and would hide a view that relies on an
    uncompressed table); the first query afterwards is `first_view`."""
    from mouette.utils.unionfind import UnionFind
    model = UFModel()
    ok, uf = ctx.call("init", UnionFind, monitor="uf_model")
    for op in ops:
        args = [pool[i] for i in op[1:]]
        if op[0] == "add":
            ctx.call("add", uf.add, *args, monitor="uf_model")
            model.add(*args)
        elif op[0] == "union":
            ctx.call("union", uf.union, *args, monitor="uf_model")
            model.union(*args)
    part = model.partition()
    ctx.obs("uf_model", "quiet_then_" + first_view)
    if first_view == "components":
        ok, comps = ctx.call("components", uf.components, monitor="uf_model")
        got = [_norm_set(c) for c in comps]
        ctx.check(len(got) == len(part) and set(got) == part, "uf_model", "components", "wrong_partition_when_first_query_after_unions",
                  "components(), asked first after a series of unions, does not list the partition", n_blocks=len(got), want=len(part))
    elif first_view == "component_mapping":
        ok, cm = ctx.call("component_mapping", uf.component_mapping, monitor="uf_model")
        good = len(cm) == len(model.block) and all(_norm_set(cm[e]) == model.block[e] for e in model.block if e in cm)
        ctx.check(good, "uf_model", "component_mapping", "wrong_partition_when_first_query_after_unions", "component_mapping(), asked first after a series of unions, is wrong")
    elif first_view == "roots":
        ok, r = ctx.call("roots", uf.roots, monitor="uf_model")
        ctx.check(len(r) == len(part), "uf_model", "roots", "count_mismatch_when_first_query_after_unions", "roots(), asked first after a series of unions, has the wrong size")
    else:
        e = next(iter(model.block))
        ok, c = ctx.call("component", uf.component, e, monitor="uf_model")
        ctx.check(_norm_set(c) == model.block[e], "uf_model", "component", "wrong_block_when_first_query_after_unions", "component(x), asked first after a series of unions, is wrong")
    _uf_views_check(ctx, uf, model, "after_quiet")
    ctx.check(uf.n_comps == len(part), "uf_model", "n_comps", "count_mismatch", "n_comps disagrees with the model partition", got=uf.n_comps, want=len(part))


def _run_uf(ctx, pool, ops, rng, init=False, full_every=1, views_every=4):
    from mouette.utils.unionfind import UnionFind
    model = UFModel()
    if init:
        k = max(1, len(pool) // 2)
        ok, uf = ctx.call("init", UnionFind, list(pool[:k]) + [pool[0]], monitor="uf_model")
        for e in pool[:k]:
            model.add(e)
    else:
        ok, uf = ctx.call("init", UnionFind, monitor="uf_model")
    merges_nonsingle = 0
    ev0 = _contract_evals["uf"]
    for step, op in enumerate(ops):
        name = op[0]
        args = [pool[i] for i in op[1:]]
        if name == "add":
            ctx.call("add", uf.add, *args, monitor="uf_model")
            model.add(*args)
        elif name == "union":
            ctx.call("union", uf.union, *args, monitor="uf_model")
            if model.union(*args):
                merges_nonsingle += 1
        elif name == "find":
            present = args[0] in model.block
            ok, r = ctx.call("find", uf.find, args[0], expect=(ValueError,), monitor="uf_model")
            ctx.check(ok == present, "uf_model", "find", "presence_mismatch",
                      "find() of an absent element must raise ValueError, of a present one must not", x=args[0], raised=not ok)
            if ok and present:
                # root must be an index whose element is in x's block
                good = isinstance(r, (int,)) or hasattr(r, "__index__")
                if good:
                    try:
                        good = uf[int(r)] in model.block[args[0]]
                    except Exception:
                        good = False
                ctx.check(good, "uf_model", "find", "root_outside_block", "find(x) is not the index of a member of x's block", x=args[0], got=r)
        elif name == "connected":
            if args[0] in model.block and args[1] in model.block:
                ok, r = ctx.call("connected", uf.connected, *args, monitor="uf_model")
                ctx.check(bool(r) == (model.block[args[0]] == model.block[args[1]]), "uf_model", "connected", "wrong_answer",
                          "connected(x,y) disagrees with the model", x=args[0], y=args[1], got=r)
            elif args[0] != args[1]:
                # an element that was never added has been joined to nothing: the query may be refused (ValueError), it must not answer True
                ok, r = ctx.call("connected", uf.connected, *args, expect=(ValueError, KeyError), monitor="uf_model")
                ctx.check(not (ok and bool(r)), "uf_model", "connected", "absent_element_reported_connected",
                          "connected(x,y) answers True although one of the two elements was never added", x=args[0], y=args[1])
        elif name == "component":
            if args[0] in model.block:
                ok, c = ctx.call("component", uf.component, args[0], monitor="uf_model")
                ctx.check(_norm_set(c) == model.block[args[0]], "uf_model", "component", "wrong_block",
                          "component(x) is not x's block", x=args[0], got=sorted(map(repr, _norm_set(c))),
                          want=sorted(map(repr, model.block[args[0]])))
            else:
                ok, c = ctx.call("component", uf.component, args[0], expect=(ValueError,), monitor="uf_model")
                ctx.check(not ok, "uf_model", "component", "absent_not_rejected", "component() of an absent element must raise ValueError", x=args[0])
        elif name == "components" or name == "component_mapping" or name == "roots":
            _uf_views_check(ctx, uf, model, name)
        if step % full_every == 0 or step == len(ops) - 1:
            _uf_full_check(ctx, uf, model, rng, name)
        if step % views_every == views_every - 1 or step == len(ops) - 1:
            before = model.partition()
            _uf_views_check(ctx, uf, model, name)
            # queries never change the partition
            _uf_full_check(ctx, uf, model, rng, "views_after_" + name)
            assert before == model.partition()
    ctx.obs("uf_invariant", "evaluations", _contract_evals["uf"] - ev0)
    return merges_nonsingle


# ----------------------------------------------------------------------------- priority queue monitor
def _gen_pq_ops(rng, kind, length):
    ops = []
    for _ in range(length):
        r = rng.random()
        if r < 0.55:
            if kind == "int":
                p = rng.randrange(-100, 100)
            elif kind == "float":
                p = rng.uniform(-10, 10)
            elif kind == "bigint":
                # exact integers beyond 2**53 that differ by less than the spacing of doubles there (time stamps in ns, 64-bit keys)
                p = (1 << 60) + rng.randrange(-40, 40) if rng.random() < 0.8 else -(1 << 62) + rng.randrange(0, 9)
            elif kind == "ties":
                p = rng.choice([0, 1, 1.0, 2, -1, 0.0])
            elif kind == "inf":
                p = rng.choice([float("inf"), float("-inf"), 0, 1.5, -2, 3])
            else:
                p = rng.choice([rng.randrange(-5, 5), rng.uniform(-5, 5), float("inf"), float("-inf"), 0, 0.0, True])
            ops.append(["push", p])
        elif r < 0.85:
            ops.append(["pop" if rng.random() < 0.5 else "get"])
        elif r < 0.93:
            ops.append(["front"])
        else:
            ops.append(["empty"])
    return ops


def _run_pq(ctx, ops, abandon=False):
    from mouette.utils.priority_queue import PriorityQueue
    ok, q = ctx.call("init", PriorityQueue, monitor="pq_model")
    # a newly created queue holds nothing, whatever happened to queues created (and possibly abandoned with items) before it
    ok, e0 = ctx.call("empty", q.empty, monitor="pq_model")
    ctx.check(bool(e0), "pq_model", "fresh_queue", "new_queue_is_not_empty", "a newly created queue does not report empty (state shared with another queue?)")
    ok, _ = ctx.call("pop", q.pop, expect=(IndexError,), monitor="pq_model")
    ctx.check(not ok, "pq_model", "fresh_queue", "new_queue_hands_out_an_item", "a newly created queue handed out an item that was never pushed into it")
    pending = {}  # uid -> priority
    uid_of = {}
    mixed_elems = len(ops) % 2 == 1
    if mixed_elems:
        ctx.cls("pq:elements_of_mixed_kinds")
    # the same element queued several times with different (or equal) priorities, as a shortest-path search does: every pushed entry is an item
    repeated = len(ops) % 3 == 1
    if repeated:
        ctx.cls("pq:same_element_pushed_several_times")
    elem_of = {}

    def who(it):
        """uid of a pending entry carrying this element and this priority (any of them), else of one carrying this element, else None."""
        r = repr(it.x)
        c = [u_ for u_ in pending if elem_of[u_] == r and (pending[u_] == it.priority)]
        if not c:
            c = [u_ for u_ in pending if elem_of[u_] == r]
        return c[0] if c else None
    handed = set()
    uid = 0
    pops, tie_pops = 0, 0
    ev0 = _contract_evals["pq"]
    for op in ops:
        name = op[0]
        if name == "push":
            # queued elements of unrelated kinds (only the priorities are ever compared: tied items need not be mutually orderable)
            eid_ = uid % 3 if repeated else uid
            elem = [("item", eid_), "item%d" % eid_, eid_, ("item", str(eid_)), frozenset([eid_]), (eid_, None)][eid_ % 6] if mixed_elems else ("item", eid_)
            uid_of[repr(elem)] = uid
            elem_of[uid] = repr(elem)
            ctx.call("push", q.push, elem, op[1], monitor="pq_model")
            pending[uid] = op[1]
            uid += 1
        elif name in ("pop", "get"):
            ok, it = ctx.call(name, getattr(q, name), expect=(IndexError,), monitor="pq_model")
            if not pending:
                ctx.check(not ok, "pq_model", name, "pop_on_empty_not_rejected", "pop on an empty queue must raise IndexError")
            else:
                if not ctx.check(ok, "pq_model", name, "pop_failed", "pop on a non-empty queue raised IndexError", pending=len(pending)):
                    continue
                u = who(it)
                mn = min(pending.values())
                ctx.check(u in pending, "pq_model", name, "not_pending",
                          "popped item is not pending (never pushed or handed out twice)", item=it.x, already=(u in handed))
                ctx.check(it.priority == mn and (u not in pending or pending[u] == it.priority), "pq_model", name, "not_minimum",
                          "popped priority is not the minimum pending priority", got=it.priority, want=mn)
                if u in pending:
                    if list(pending.values()).count(pending[u]) > 1:
                        tie_pops += 1
                    del pending[u]
                    handed.add(u)
                pops += 1
        elif name == "front":
            if pending:
                ok, it = ctx.call("front", lambda: q.front, monitor="pq_model")
                u = who(it)
                ctx.check(u in pending and it.priority == min(pending.values()), "pq_model", "front", "not_minimum",
                          "front is not a pending item of minimum priority", got=it.priority, want=min(pending.values()))
        ok, e = ctx.call("empty", q.empty, monitor="pq_model")
        ctx.check(bool(e) == (len(pending) == 0), "pq_model", "empty", "wrong_emptiness", "empty() disagrees with the model",
                  got=e, pending=len(pending))
    # drain: every uid comes out exactly once (some histories abandon the queue with items still pending: queues are independent objects)
    if abandon and pending:
        ctx.cls("pq:abandoned_with_pending_items")
        ctx.obs("pq_invariant", "evaluations", _contract_evals["pq"] - ev0)
        return pops, tie_pops
    while pending:
        ok, it = ctx.call("pop", q.pop, expect=(IndexError,), monitor="pq_model")
        if not ctx.check(ok, "pq_model", "drain", "lost_item", "queue ran empty while items are still pending", pending=len(pending)):
            break
        u = who(it)
        mn = min(pending.values())
        if not ctx.check(u in pending and it.priority == mn, "pq_model", "drain", "not_minimum_or_duplicate",
                         "drained item is not a pending minimum", got=it.priority, want=mn, item=it.x):
            break
        del pending[u]
    ok, e = ctx.call("empty", q.empty, monitor="pq_model")
    ctx.check(bool(e), "pq_model", "empty", "wrong_emptiness", "queue not empty after every item was handed out", got=e)
    ok, _ = ctx.call("pop", q.pop, expect=(IndexError,), monitor="pq_model")
    ctx.check(not ok, "pq_model", "pop", "pop_on_empty_not_rejected", "pop on an empty queue must raise IndexError")
    ctx.obs("pq_invariant", "evaluations", _contract_evals["pq"] - ev0)
    return pops, tie_pops


# ----------------------------------------------------------------------------- entry
def run_case(desc, ctx):
    worker_init()
    g = desc["gen"]
    rng = random.Random(desc.get("seed", 0))
    ctx.cls(g + ":" + str(desc.get("kind", desc.get("prio", ""))))
    try:
        if g == "uf_anchor":
            pool = _domain(desc["kind"], rng, 6)
            ops = [["add", 0], ["add", 1], ["union", 0, 1], ["add", 2], ["component", 0], ["component_mapping"],
                   ["union", 2, 3], ["union", 1, 3], ["components"], ["component", 4], ["union", 4, 4], ["union", 5, 0],
                   ["component", 5], ["component_mapping"], ["roots"]]
            m = _run_uf(ctx, pool, ops, rng)
            ctx.nontrivial({"k": desc["kind"], "ops": ops})
            ctx.sample({"union_find_history": ops, "elements": pool})
        elif g == "uf_quiet":
            n = desc["n"]
            pool = _domain(desc["kind"], rng, n)
            ops = [["add", i] for i in rng.sample(range(n), n)] if rng.random() < 0.5 else []
            if desc["shape"] == "tournament":
                # merge pairs, then pairs of pairs, ...: deep parent chains with children inserted before their ancestors
                groups = [[i] for i in range(n)]
                while len(groups) > 1:
                    nxt = []
                    for a, b in zip(groups[0::2], groups[1::2]):
                        ops.append(["union", b[-1], a[0]] if rng.random() < 0.7 else ["union", a[0], b[-1]])
                        nxt.append(a + b)
                    if len(groups) % 2:
                        nxt.append(groups[-1])
                    groups = nxt
            else:
                for _ in range(2 * n):
                    ops.append(["union", rng.randrange(n), rng.randrange(n)])
            _run_uf_quiet(ctx, pool, ops, desc["first"])
            ctx.nontrivial({"quiet": desc["shape"], "pool": pool, "ops": ops, "first": desc["first"]})
        elif g == "uf_random":
            pool, ops = _gen_uf_ops(rng, desc["kind"], desc["len"])
            m = _run_uf(ctx, pool, ops, rng, init=desc.get("init", False))
            if m >= 2:
                ctx.nontrivial({"k": desc["kind"], "pool": pool, "ops": ops})
            if desc["len"] <= 12:
                ctx.sample({"union_find_history": ops, "elements": pool})
        elif g == "uf_exhaustive":
            alpha = _uf_alphabet()
            pool = [0, (1, 2), "x"] if desc["first"] % 2 else [5, 7, 9]
            n = 0
            for L in range(0, desc["len"]):
                for rest in itertools.product(range(len(alpha)), repeat=L):
                    ops = [alpha[desc["first"]]] + [alpha[i] for i in rest]
                    m = _run_uf(ctx, pool, ops, rng, views_every=2)
                    n += 1
                    if m >= 1:
                        ctx.nontrivial({"pool": pool, "ops": ops})
            ctx.obs("uf_exhaustive", "histories", n)
        elif g == "pq_random":
            ops = _gen_pq_ops(rng, desc["prio"], desc["len"])
            # two queues alive at once: a second, short history runs on its own queue while the first is abandoned undrained
            if rng.random() < 0.3:
                _run_pq(ctx, _gen_pq_ops(rng, desc["prio"], 6) + [["push", 1], ["push", 0]], abandon=True)
            pops, ties = _run_pq(ctx, ops)
            if pops >= 3 and ties >= 1:
                ctx.nontrivial({"ops": ops})
            if desc["len"] <= 12:
                ctx.sample({"priority_queue_history": ops})
        elif g == "pq_exhaustive":
            n = 0
            pre = [_PQ_ALPHABET[i] for i in desc["prefix"]]
            for L in range(0, desc["len"] - 1):
                for rest in itertools.product(range(len(_PQ_ALPHABET)), repeat=L):
                    ops = pre + [_PQ_ALPHABET[i] for i in rest]
                    pops, ties = _run_pq(ctx, ops)
                    n += 1
                    if pops >= 3 and ties >= 1:
                        ctx.nontrivial({"ops": ops})
            ctx.obs("pq_exhaustive", "histories", n)
    except InvariantBroken as e:
        ctx.violation("invariant", g.split("_")[0], "structural_invariant_broken",
                      "icontract invariant failed on the real object: %s" % str(e)[:300])


def timeout_verdict(desc, rec):
    """The per-case watchdog counts CPU time of the worker (virtual time, not wall-clock): these cases are small graphs / short histories that take
    milliseconds, so a case that has burnt the whole CPU budget (hundreds of times the slowest case ever observed) contains a call that does not
    terminate - which refutes the property for that input.  A *hang* (no CPU burnt) stays inconclusive."""
    if rec.get("status") != "timeout":
        return None
    return {"monitor": "termination", "op": str(desc.get("gen", "case")), "mechanism": "termination:%s:call_still_running_after_the_cpu_budget" % desc.get("gen", "case"),
            "what": "a call into the library was still running when the case had used its whole CPU-time budget (%.0f s; such cases take milliseconds)" % CASE_TIMEOUT["quick"],
            "witness": {"case": desc}}
