"""C09 - shortest paths are valid edge paths of minimum length.

Shape: reference-model differential monitor (plain O(n^2) Dijkstra on the raw edge list with the same weights)."""
import random

import numpy as np

from .. import build
from ..ref import topo
from ..ref.volume_ref import RefVolume
from ..zoo import surfaces, volumes, graphs
from ..ctx import stable_hash

ID = "C09"
RULE = ("polylines (paths, cycles, trees, stars, grids with exact ties, random graphs, disjoint unions), zoo surfaces and tetrahedral volumes; "
        "starts and targets drawn from one connected component; targets as int / list / set / tuple incl. target == start, single-element sets and "
        "start inside the set; weights 'one', 'length', custom dict and custom Attribute (random, integer-valued with ties, with zero-weight edges); "
        "non-trivial = a returned path of >= 3 edges on a mesh where the hop-shortest and the weight-shortest distance orders differ, or a set query "
        "with >= 2 targets; distinct = (mesh, start, targets, weight mode) hash"
        "; variants: units 1e-9..1e5, measured-then-deformed history, narrow numpy integer weights, sparse attribute weights with a default and few or no written entries, directly assembled polylines")
REQUIRED = {"path": 1500, "set": 300, "border": 40}
CASE_TIMEOUT = {"quick": 30.0, "thorough": 600.0}
ASSUMPTIONS = ["targets are reachable from the start (the statement quantifies over connected pairs)", "weights are non-negative and finite",
               "ties: only the total weight of a returned path is compared, not the vertex sequence"]


def cases(seed, tier):
    rng = random.Random(seed * 2654435761 % (2 ** 31) + 9)
    n = 420 if tier == "quick" else 90000
    out = []
    for i in range(n):
        out.append({"gen": ["polyline", "surface", "surface", "volume"][i % 4], "seed": rng.randrange(2 ** 31),
                    "weights": ["one", "length", "dict", "attr", "dict_int", "dict_zero", "dict_narrow_int"][i % 7], "queries": 4 if tier == "quick" else 8})
    return out


def _mesh(desc, rng):
    g = desc["gen"]
    if g == "polyline":
        V, E, cls = graphs.make(rng.randrange(2 ** 31))
        if rng.random() < 0.3:
            # a polyline assembled element by element on an empty PolyLine object (what the library's own build_tree_as_polyline does), the edges
            # appended as (child, parent) pairs in either order
            import mouette as M
            pl = M.mesh.PolyLine()
            for p in V:
                pl.vertices.append(M.Vec(float(p[0]), float(p[1]), float(p[2])))
            for (a, b) in sorted(E):
                pl.edges.append((b, a) if rng.random() < 0.5 else (a, b))
            return pl, V, set(E), "polyline_assembled_directly:" + cls, None
        return build.polyline(V, E, irows=rng.choice(["list", "tuple"])), V, set(E), "polyline:" + cls, None
    if g == "surface":
        z = surfaces.make(rng.randrange(2 ** 31), max_size=6)
        return build.surface(z["V"], z["F"]), z["V"], topo.edges_of(z["F"]), "surface", z
    z = volumes.make(rng.randrange(2 ** 31), max_size=2)
    return build.volume(z["V"], z["C"]), z["V"], RefVolume(len(z["V"]), z["C"]).edges, "volume", None


def _check_path(ctx, mon, op, path, start, target, E, wf, dref, scale):
    """path: list of vertices. Returns its weight or None."""
    try:
        p = [int(v) for v in path]
    except Exception:
        ctx.violation(mon, op, "malformed_path", "returned path is not a list of vertex ids", got=repr(path)[:200])
        return None
    ctx.obs(mon, op)
    if not p or p[0] != start:
        ctx.violation(mon, op, "does_not_begin_at_start", "path does not begin at the start vertex", path=p[:20], start=start)
        return None
    if p[-1] != target:
        ctx.violation(mon, op, "does_not_end_at_target", "path does not end at the requested target", path=p[:20], target=target)
        return None
    w = 0.0
    for a, b in zip(p[:-1], p[1:]):
        if (min(a, b), max(a, b)) not in E:
            ctx.violation(mon, op, "not_along_edges", "consecutive path vertices are not joined by a mesh edge", a=a, b=b, path=p[:20])
            return None
        w += wf(a, b)
    tol = 1e-9 * max(scale, abs(dref))  # relative to the weights at hand (meshes come in tiny and huge units)
    if abs(w - dref) > tol:
        ctx.violation(mon, op, "not_minimum_weight", "path weight is not the minimum over all edge paths", weight=w, minimum=dref, path=p[:30])
        return None
    return w


def run_case(desc, ctx):
    import mouette as M
    rng = random.Random(desc["seed"])
    ok, (m, V, E, cls, z) = ctx.call("build", _mesh, desc, rng, monitor="path")
    n = len(V)
    mode = desc["weights"]
    V = np.array(V, dtype=float)
    unit = rng.choice([1.0, 1.0, 1.0, 1e-9, 1e-6, 1e5])
    if unit != 1.0:
        # the same mesh in very small / large units (a fresh object built from the rescaled coordinates)
        ctx.cls("units:%g" % unit)
        V = V * unit
        for i in range(n):
            m.vertices[i] = M.Vec(V[i].copy())
    wunit = rng.choice([1.0, 1.0, 1e-12, 1e8])
    # history: the mesh was measured earlier (persistent edge lengths, default attribute name) and then deformed non-uniformly in place;
    # Euclidean weights must be those of the geometry at the time of the query
    if rng.random() < 0.35:
        ctx.cls("history:measured_then_deformed")
        ctx.call("attributes.edge_length", M.attributes.edge_length, m, monitor="path")
        sc = np.array([rng.choice([0.2, 1.0, 3.0, 7.0]) for _ in range(3)])
        sh = rng.uniform(-0.5, 0.5)
        V = V * sc
        V[:, 0] += sh * V[:, 1]
        for i in range(n):
            m.vertices[i] = M.Vec(V[i].copy())
    else:
        ctx.cls("history:fresh")
    if mode == "length" and rng.random() < 0.3 and len(E) >= 2:
        # some edges have coincident end points (a repeated polyline point, an unmerged seam): legitimate edges of length exactly 0
        ctx.cls("geometry:edges_of_length_zero")
        for (a, b) in rng.sample(sorted(E), min(len(E), rng.randint(1, 3))):
            V[b] = V[a]
            m.vertices[b] = M.Vec(V[b].copy())
    ctx.cls("mesh:" + cls)
    ctx.cls("weights:" + mode)
    # weight function on unordered pairs, independent of the library
    salt = rng.randrange(2 ** 31)

    def wf_custom(a, b):
        r = random.Random((min(a, b) * 1000003 + max(a, b)) ^ salt)
        if mode == "dict_narrow_int":
            return float(r.randint(40, 120))
        if mode == "dict_int":
            return float(r.randint(1, 3)) * wunit
        if mode == "dict_zero":
            return 0.0 if r.random() < 0.3 else r.uniform(0.1, 2.0) * wunit
        return r.uniform(0.01, 5.0) * wunit
    if mode == "one":
        wf = lambda a, b: 1.0  # noqa
        warg = "one"
    elif mode == "length":
        wf = lambda a, b: float(np.linalg.norm(np.asarray(V[a], float) - np.asarray(V[b], float)))  # noqa
        warg = "length"
    else:
        wf = wf_custom
        edges = build.edges_list(m)
        if mode == "attr" and rng.random() < 0.4:
            # "cost c everywhere, raised on some edges": a sparse attribute with a default value, in which only the raised entries are written
            # (possibly none at all: the attribute then holds no explicit entry and every edge costs the default)
            cdef = rng.choice([1.0, 0.5, 2.0]) * wunit
            p_raised = rng.choice([0.0, 0.0, 0.1, 0.3])
            raised = {(min(a, b), max(a, b)) for (a, b) in edges if rng.random() < p_raised}
            ctx.cls("weights:sparse_attribute_with_default,%s" % ("no_entry_written" if not raised else "some_entries_written"))
            wf = lambda a, b: cdef * (4.0 if (min(a, b), max(a, b)) in raised else 1.0)  # noqa
            warg = m.edges.create_attribute("custom_w", float, default_value=cdef)
            for i, (a, b) in enumerate(edges):
                if (min(a, b), max(a, b)) in raised:
                    warg[i] = wf(a, b)
        elif mode == "attr":
            warg = m.edges.create_attribute("custom_w", float, dense=rng.random() < 0.5)
            for i, (a, b) in enumerate(edges):
                warg[i] = wf(a, b)
        elif mode == "dict_narrow_int":
            # non-negative weights held in a narrow numpy integer type (e.g. a dict built from a uint8 cost image): sums along a path exceed the type's range
            nt = rng.choice([np.uint8, np.int8, np.uint8, np.int16])
            ctx.cls("weights:dict_of_" + nt.__name__)
            warg = {i: nt(int(wf(a, b))) for i, (a, b) in enumerate(edges)}
        else:
            warg = {i: wf(a, b) for i, (a, b) in enumerate(edges)}
    adj = {}
    hop = {}
    for (a, b) in E:
        adj.setdefault(a, []).append((b, wf(a, b)))
        adj.setdefault(b, []).append((a, wf(a, b)))
        hop.setdefault(a, []).append(b)
        hop.setdefault(b, []).append(a)
    comp = graphs.components(n, E)
    scale = sum(wf(a, b) for (a, b) in E) / max(1, len(E))
    for q in range(desc["queries"]):
        start = 0 if rng.random() < 0.15 else rng.randrange(n)
        same = [v for v in range(n) if comp[v] == comp[start]]
        dref = graphs.dijkstra(n, adj, start)
        hops = graphs.bfs(n, hop, start)
        kind = ["int", "list", "set", "tuple", "self", "many", "repeated", "frozenset", "index_array", "neighbours"][(q + desc["seed"]) % 10]
        if kind == "int":
            tg = [rng.choice(same)]
            arg = tg[0]
        elif kind == "self":
            tg = [start]
            arg = [start]
        elif kind == "neighbours" and hop.get(start):
            # every target is joined to the start by an edge (with caller-supplied weights the direct edge need not be the cheapest way)
            nb_ = sorted(hop[start])
            tg = rng.sample(nb_, min(len(nb_), rng.randint(1, 3)))
            arg = tg[0] if (len(tg) == 1 and rng.random() < 0.5) else list(tg)
        elif kind == "many":
            tg = rng.sample(same, min(len(same), 6))
            arg = list(tg)
        elif kind == "repeated":
            # a list / tuple of targets naming a vertex more than once
            tg = rng.sample(same, min(len(same), 3))
            arg = list(tg) + [tg[0]] + ([tg[-1]] if rng.random() < 0.5 else [])
            if rng.random() < 0.5:
                arg = tuple(arg)
        else:
            tg = rng.sample(same, min(len(same), rng.randint(1, 3)))
            # any collection of vertex indices: also a frozenset, or the index array that np.where / np.flatnonzero hand back
            arg = {"list": list, "set": set, "tuple": tuple, "frozenset": frozenset, "index_array": lambda t: np.array(t, dtype=np.int64),
                   "neighbours": list}[kind](tg)
        ctx.cls("targets:" + kind)
        export = rng.random() < 0.25
        ok, res = ctx.call("shortest_path[%s]" % ("one" if mode == "one" else "length" if mode == "length" else "custom"),
                           M.processing.shortest_path, m, start, arg, warg, export, monitor="path", abort=False)
        if ok and export:
            ctx.cls("export_path_mesh")
            try:
                res, _pm = res
            except Exception:
                ctx.violation("path", "shortest_path", "malformed_result", "with export_path_mesh the result is not (paths, polyline)", got=repr(res)[:200])
                ok = False
        if ok:
            if not isinstance(res, dict) or set(int(k) for k in res) != set(tg):
                ctx.violation("path", "shortest_path", "wrong_target_keys", "result does not have one path per requested target", got=repr(res)[:200], targets=tg)
            else:
                for t in tg:
                    w = _check_path(ctx, "path", "shortest_path", res[t], start, t, E, wf, dref[t], scale)
                    if w is not None and len(res[t]) >= 4:
                        # non-trivial when weight order and hop order disagree somewhere on this mesh
                        if mode != "one" and any(dref[a] < dref[b] and hops.get(a, 0) > hops.get(b, 0) for a in same[:30] for b in same[:30]):
                            ctx.nontrivial(stable_hash([cls, n, sorted(E)[:50], start, t, mode]))
                        elif mode == "one":
                            ctx.nontrivial(stable_hash([cls, n, sorted(E)[:50], start, t, mode]))
        # ---- vertex-set query
        kset = ["single", "with_start", "several", "all_far"][(q + desc["seed"] // 7) % 4]
        if kset == "single":
            S = [rng.choice(same)]
        elif kset == "with_start":
            S = list({start} | set(rng.sample(same, min(len(same), 2))))
        elif kset == "several":
            S = rng.sample(same, min(len(same), rng.randint(2, 5)))
        else:
            far = sorted(same, key=lambda v: -dref[v])[:max(1, len(same) // 4)]
            S = rng.sample(far, min(len(far), 3))
        ctx.cls("set:" + kset)
        sarg = {0: list, 1: set, 2: tuple}[q % 3](S)
        export = rng.random() < 0.25
        ok, res = ctx.call("shortest_path_to_vertex_set[%s]" % kset, M.processing.shortest_path_to_vertex_set, m, start, sarg, warg, export, monitor="set", abort=False)
        if ok and isinstance(sarg, list) and q % 2 == 0:
            # the caller keeps its list of targets and asks again (a loop over several start vertices with one fixed target list): same answer
            ctx.cls("set:same_list_object_used_for_a_second_query")
            ok2, res2 = ctx.call("shortest_path_to_vertex_set[%s]" % kset, M.processing.shortest_path_to_vertex_set, m, start, sarg, warg, False, monitor="set", abort=False)
            ctx.check(ok2 and sarg == S, "set", "vertex_set", "target_list_of_the_caller_changed_or_second_query_fails",
                      "a second query with the caller's own list of targets fails, or the list was modified by the first one", targets_now=list(sarg), targets=S)
        if ok:
            try:
                if export:
                    ind, path, _pm = res
                else:
                    ind, path = res
                ind = int(ind)
            except Exception:
                ctx.violation("set", "vertex_set", "malformed_result", "result is not (index, path)", got=repr(res)[:200])
                continue
            ctx.obs("set", "vertex_set")
            dmin = min(dref[s] for s in S)
            if ind not in S:
                ctx.violation("set", "vertex_set", "index_not_in_set", "returned index is not a member of the target set", index=ind, targets=S, kind=kset)
            elif abs(dref[ind] - dmin) > 1e-9 * max(scale, abs(dmin)):
                ctx.violation("set", "vertex_set", "not_nearest_member", "returned member is not a nearest member of the set", index=ind, d=dref[ind], dmin=dmin)
            else:
                _check_path(ctx, "set", "vertex_set_path", path, start, ind, E, wf, dmin, scale)
                if len(S) >= 2:
                    ctx.nontrivial(stable_hash([cls, n, sorted(E)[:50], start, sorted(S), mode, "set"]))
    # ---- to the border (surfaces with border)
    if z is not None and not z["topo"]["closed"]:
        border = sorted({v for e in z["topo"]["border_edges"] for v in e})
        for _ in range(2):
            start = rng.randrange(n)
            dref = graphs.dijkstra(n, adj, start)
            reach = [b for b in border if dref[b] < float("inf")]
            if not reach:
                continue
            ok, path = ctx.call("shortest_path_to_border", M.processing.shortest_path_to_border, m, start, warg, monitor="border", abort=False)
            if ok:
                try:
                    end = int(path[-1])
                except Exception:
                    ctx.violation("border", "to_border", "malformed_result", "result is not a vertex path", got=repr(path)[:200])
                    continue
                dmin = min(dref[b] for b in border)
                if end not in border:
                    ctx.obs("border", "to_border")
                    ctx.violation("border", "to_border", "does_not_end_on_border", "path to the border does not end at a border vertex", end=end)
                else:
                    _check_path(ctx, "border", "to_border", path, start, end, E, wf, dmin, scale)
    if n <= 8:
        ctx.sample({"mesh": cls, "vertices": n, "edges": sorted(E), "weights": mode, "checked": "paths vs reference Dijkstra"})


def timeout_verdict(desc, rec):
    """The per-case watchdog counts CPU time of the worker (virtual time, not wall-clock): these cases are small graphs / short histories that take
    milliseconds, so a case that has burnt the whole CPU budget (hundreds of times the slowest case ever observed) contains a call that does not
    terminate - which refutes the property for that input.  A *hang* (no CPU burnt) stays inconclusive."""
    if rec.get("status") != "timeout":
        return None
    return {"monitor": "termination", "op": str(desc.get("gen", "case")), "mechanism": "termination:%s:call_still_running_after_the_cpu_budget" % desc.get("gen", "case"),
            "what": "a call into the library was still running when the case had used its whole CPU-time budget (%.0f s; such cases take milliseconds)" % CASE_TIMEOUT["quick"],
            "witness": {"case": desc}}
