"""C16 - cutting along singularities yields a disk with faces in bijection.

Shape: reference-model monitor: the reference analyser judges the cut mesh; the face bijection, vertex map and 'only reported edges were
opened' are checked against the input face list."""
import math
import random

import numpy as np

from .. import build
from ..ref import topo
from ..ref.surface_ref import RefSurface
from ..zoo import surfaces
from ..ctx import stable_hash
from .c15 import _hinge

ID = "C16"
RULE = ("connected oriented triangulations from the zoo (genus 0-2, 0-4 border loops, generic and tie-heavy regular geometry, hinge strips with interior "
        "feature edges); singularity sets: empty, single, two adjacent, two far, many, on the border, all vertices of a face; with and without a "
        "FeatureEdgeDetector; non-trivial = genus >= 1 or >= 2 singularities; distinct = (mesh, singularities, features) hash")
REQUIRED = {"faces": 150, "disk": 150, "refmap": 150, "opened": 150, "cutgraph": 100}
CASE_TIMEOUT = {"quick": 30.0, "thorough": 600.0}
ASSUMPTIONS = ["input is a connected oriented manifold triangulation (certified)",
               "a closed sphere with fewer than two singular vertices is expected to come back uncut"]


def cases(seed, tier):
    rng = random.Random(seed * 16807 + 16)
    n = 260 if tier == "quick" else 30000
    out = [{"gen": "anchor_sphere_adjacent_pair", "seed": 1}, {"gen": "anchor_sphere_adjacent_pair", "seed": 2},
           {"gen": "hinge", "seed": 973431509, "singu": "border", "features": True, "max_size": 5},
           {"gen": "hinge", "seed": 11, "singu": "one", "features": True, "max_size": 5},
           {"gen": "hinge", "seed": 12, "singu": "face", "features": True, "max_size": 5},
           # grid collapsed to a point, two adjacent singular vertices (K-C16-3)
           {"gen": "folded", "seed": 1283759013, "singu": "adjacent", "features": False, "shape": "collapsed_to_a_point", "max_size": 5}]
    for i in range(n):
        out.append({"gen": "hinge" if i % 6 == 5 else "zoo", "seed": rng.randrange(2 ** 31), "singu": ["empty", "one", "adjacent", "far", "many", "border", "face", "many"][i % 8],
                    "features": (i % 6 == 5) or (i % 7 == 3), "max_size": 5 if tier == "quick" else 9})
    # overlapping embeddings: a valid connected triangulation whose geometry is folded flat, so that adjacent triangles coincide (equal barycentres,
    # exact ties in every geometric heuristic of the cutter)
    # closed surface with sharp creases forming closed loops (cube): the feature-constrained cutter, twice on the same mesh object
    for i in range(max(6, n // 10)):
        out.append({"gen": "cube_features", "seed": rng.randrange(2 ** 31), "singu": ["far", "many", "adjacent", "face", "many"][i % 5], "features": True, "max_size": 5})
    for i in range(n // 6):
        out.append({"gen": "folded", "seed": rng.randrange(2 ** 31), "singu": ["empty", "one", "far", "many", "border", "adjacent"][i % 6], "features": False,
                    "shape": ["sheet_diagonal", "flattened_sphere", "collapsed_to_a_point", "flattened_torus", "pinched_ribbon"][i % 5], "max_size": 5})
    return out


def _pick_singularities(rng, kind, ref, nV, F):
    border = sorted(ref.border_vertices)
    if kind == "empty":
        return []
    if kind == "one":
        return [rng.randrange(nV)]
    if kind == "adjacent":
        e = rng.choice(sorted(ref.edges))
        return list(e)
    if kind == "far":
        a = rng.randrange(nV)
        # farthest by hops
        dist = {a: 0}
        q = [a]
        for u in q:
            for w in ref.nbrs[u]:
                if w not in dist:
                    dist[w] = dist[u] + 1
                    q.append(w)
        return [a, q[-1]] if q[-1] != a else [a]
    if kind == "many":
        return rng.sample(range(nV), min(nV, rng.randint(3, 8)))
    if kind == "border":
        if border:
            return rng.sample(border, min(len(border), rng.randint(1, 3))) + ([rng.randrange(nV)] if rng.random() < 0.5 else [])
        return [rng.randrange(nV)]
    f = rng.choice(F)
    return list(f)


def _folded(rng, shape):
    """Connected oriented triangulations embedded with exact overlaps (integer / dyadic coordinates, so coincidences are bit-exact)."""
    if shape == "sheet_diagonal":
        n = rng.randint(3, 7)
        V, F, _ = surfaces.grid(n, n, "tri", rng)
        V = np.array([[float(i), float(j), 0.0] for i in range(n + 1) for j in range(n + 1)])
        # fold along the main diagonal y = x (made of cell diagonals): the half y > x is reflected onto the half y < x
        W = V.copy()
        up = V[:, 1] > V[:, 0]
        W[up, 0], W[up, 1] = V[up, 1], V[up, 0]
        return W, F, "folded_sheet"
    if shape == "collapsed_to_a_point":
        # every vertex at the same position: all edge lengths are exactly 0 (the statement is about the combinatorics of the surface)
        n = rng.randint(3, 6)
        V, F, _ = surfaces.grid(n, n, "tri", rng)
        return np.zeros((len(V), 3)) + np.array([0.5, -1.0, 2.0]), F, "collapsed_to_a_point"
    if shape == "pinched_ribbon":
        # a 1 x k ribbon whose two long sides meet at one rung (two coincident vertices joined by an edge of length 0)
        k = rng.randint(4, 9)
        V, F, _ = surfaces.grid(k, 1, "tri", rng)
        V = np.array([[float(i), float(j), 0.0] for i in range(k + 1) for j in range(2)]) if len(V) == 2 * (k + 1) else np.asarray(V, float)
        pts = {}
        for idx, p_ in enumerate(V):
            pts.setdefault(round(float(p_[0]), 9), []).append(idx)
        rung = sorted(pts)[rng.randrange(1, len(pts) - 1)]
        if len(pts[rung]) == 2:
            a_, b_ = pts[rung]
            V[b_] = V[a_]
        return V, F, "pinched_ribbon"
    if shape == "flattened_sphere":
        V, F, _ = surfaces.sphere(rng.choice([1, 2]), "octa")
        V = np.round(np.asarray(V, float) * 64) / 64  # dyadic coordinates: mirror images agree bit for bit
        V[:, 2] = 0.0
        # drop configurations with a degenerate (zero-area) triangle after flattening
        for f in F:
            if np.linalg.norm(np.cross(V[f[1]] - V[f[0]], V[f[2]] - V[f[0]])) < 1e-9:
                V2, F2, _ = surfaces.grid(4, 4, "tri", rng)
                return _folded(rng, "sheet_diagonal")
        return V, F, "flattened_sphere"
    V, F, _ = surfaces.grid(rng.randint(4, 6), rng.randint(4, 6), "tri", rng, periodic_u=True, periodic_v=True)
    V = np.round(np.asarray(V, float) * 64) / 64
    V[:, 2] = 0.0
    for f in F:
        if np.linalg.norm(np.cross(V[f[1]] - V[f[0]], V[f[2]] - V[f[0]])) < 1e-9:
            return _folded(rng, "sheet_diagonal")
    return V, F, "flattened_torus"


def run_case(desc, ctx):
    import mouette as M
    rng = random.Random(desc["seed"])
    declared = None
    if desc["gen"] == "anchor_sphere_adjacent_pair":
        V, F, _ = surfaces.sphere(1, "ico" if desc["seed"] == 1 else "octa")
        V = np.asarray(V, float)
        a = topo.analyse(len(V), F)
        ref = RefSurface(len(V), F)
        singus = list(sorted(ref.edges)[3])
        use_features = False
        cls = "closed_sphere"
        kind = "adjacent"
    elif desc["gen"] == "hinge":
        phi = math.radians(rng.choice([75, 90, 120]))
        V, F, crease = _hinge(rng, phi, rng.randint(2, 6))
        a = topo.analyse(len(V), F)
        ref = RefSurface(len(V), F)
        kind = desc["singu"]
        singus = _pick_singularities(rng, kind, ref, len(V), F)
        use_features = True
        cls = "hinge"
    elif desc["gen"] == "cube_features":
        V, Fq, _ = surfaces.cube_surface()
        F = []
        for q in Fq:
            F += [[q[0], q[1], q[2]], [q[0], q[2], q[3]]]
        V = np.asarray(V, float)
        for _ in range(rng.choice([1, 2])):
            V, F = surfaces.refine_midpoint(V, F, project=False)
        V = np.asarray(V, float) * np.array([1.0, 1.3, 0.8])
        F = [list(f) for f in F]
        a = topo.analyse(len(V), F)
        ref = RefSurface(len(V), F)
        kind = desc["singu"]
        singus = _pick_singularities(rng, kind, ref, len(V), F)
        if len(set(singus)) < 2:
            singus = list(singus) + [(singus[0] + 7) % len(V)]
        use_features = True
        cls = "cube"
    elif desc["gen"] == "folded":
        V, F, cls = _folded(rng, desc["shape"])
        a = topo.analyse(len(V), F)
        ref = RefSurface(len(V), F)
        kind = desc["singu"]
        singus = _pick_singularities(rng, kind, ref, len(V), F)
        if cls == "pinched_ribbon" and rng.random() < 0.6:
            # the two coincident ends of the pinched rung are singular (a zero-length path joins two singular border vertices)
            Vp = np.asarray(V, float)
            twins = [(a_, b_) for (a_, b_) in sorted(ref.edges) if np.array_equal(Vp[a_], Vp[b_])]
            if twins:
                singus = list(twins[0]) + ([rng.randrange(len(V))] if rng.random() < 0.4 else [])
                kind = "pinched_rung"
        use_features = False
    else:
        z = surfaces.make(desc["seed"], max_size=desc["max_size"], tri_only=True, connected=True, allow_union=False, generic=rng.random() < 0.5)
        V, F, a = z["V"], z["F"], z["topo"]
        ref = RefSurface(len(V), F)
        kind = desc["singu"]
        singus = _pick_singularities(rng, kind, ref, len(V), F)
        use_features = desc["features"]
        cls = "zoo"
    if singus and desc["gen"] != "anchor_sphere_adjacent_pair" and rng.random() < 0.2:
        singus = list(singus) + [0]  # vertex 0 is a legitimate singular vertex
    singus = list(dict.fromkeys(int(s) for s in singus))
    genus = (2 - a["chi"] - len(a["border_loops"])) // 2
    ctx.cls("input:%s genus=%d loops=%d" % ("closed" if a["closed"] else "bordered", genus, len(a["border_loops"])))
    ctx.cls("singularities:" + kind)
    ctx.cls("features:%s" % use_features)
    if genus >= 1 or len(singus) >= 2:
        ctx.nontrivial(stable_hash([len(V), F, singus, use_features]))
    ok, m = ctx.call("build", build.surface, V, F, monitor="faces")
    feat = None
    if use_features:
        ok, feat = ctx.call("FeatureEdgeDetector", lambda: M.processing.FeatureEdgeDetector(verbose=False), monitor="faces")
        ctx.call("detect", feat.detect, m, monitor="faces")
    form = rng.choice(["list", "list", "set", "tuple", "ndarray", "generator", "iterator"])
    ctx.cls("singularities_given_as:" + form)
    sing_arg = {"list": lambda: list(singus), "set": lambda: set(singus), "tuple": lambda: tuple(singus), "ndarray": lambda: np.array(singus, dtype=np.int64),
                "generator": lambda: (x for x in list(singus)), "iterator": lambda: iter(list(singus))}[form]()
    # the reporting switch must not change what is computed: a third of the cases run with verbose=True (its output is discarded)
    verbose = desc["seed"] % 3 == 1
    if verbose:
        ctx.cls("option:verbose=True")
    ok, cutter = ctx.call("SingularityCutter", lambda: M.processing.SingularityCutter(m, sing_arg, features=feat, verbose=verbose), monitor="faces")
    if verbose:
        import contextlib, io
        with contextlib.redirect_stdout(io.StringIO()):
            ok, _ = ctx.call("run", cutter.run, monitor="faces")
    else:
        ok, _ = ctx.call("run", cutter.run, monitor="faces")
    ok, out = ctx.call("output_mesh", lambda: cutter.output_mesh, monitor="faces")
    edges = build.edges_list(m)
    try:
        Fo = build.faces_list(out)
        Vo = build.vertices_array(out)
        cut_edges = {int(e) for e in cutter.cut_edges}
        refv = {int(k): int(v) for k, v in cutter.ref_vertex.items()}
    except Exception as e:
        ctx.violation("faces", "output", "malformed_output", "output mesh / cut_edges / ref_vertex cannot be read: %s" % type(e).__name__)
        return
    Va = np.asarray(V, float)
    # 1. faces in bijection with the same corner positions
    ctx.obs("faces", "bijection")
    if len(Fo) != len(F) or any(len(fo) != 3 for fo in Fo):
        ctx.violation("faces", "bijection", "face_count_changed", "cut mesh does not have exactly the input faces", got=len(Fo), want=len(F))
        return
    for i, (fo, fi) in enumerate(zip(Fo, F)):
        if any(not (0 <= fo[k] < len(Vo)) or not np.array_equal(Vo[fo[k]], Va[fi[k]]) for k in range(3)):
            ctx.violation("faces", "bijection", "corner_position_changed", "a face of the cut mesh does not have the corner positions of the input face with the same index", face=i)
            return
    # 2. vertex map
    ctx.obs("refmap", "consistency")
    if set(refv) != set(range(len(Vo))):
        ctx.violation("refmap", "domain", "map_not_defined_on_all_cut_vertices", "ref_vertex is not defined on exactly the vertices of the cut mesh", n=len(refv), want=len(Vo))
        return
    if set(refv.values()) != set(range(len(V))):
        ctx.violation("refmap", "onto", "map_not_onto", "the map from cut vertices to original vertices is not onto")
        return
    for i, (fo, fi) in enumerate(zip(Fo, F)):
        if [refv[v] for v in fo] != list(fi):
            ctx.violation("refmap", "faces", "map_inconsistent_with_faces", "ref_vertex does not send the corners of a cut face to the corners of the input face", face=i)
            return
    # 5. only reported edges were opened
    ctx.obs("opened", "edges")
    for e, (u, v) in enumerate(edges):
        f1, f2 = ref.direct_face(u, v), ref.direct_face(v, u)
        if f1 is None or f2 is None or e in cut_edges:
            continue
        a1, b1 = Fo[f1][F[f1].index(u)], Fo[f1][F[f1].index(v)]
        a2, b2 = Fo[f2][F[f2].index(u)], Fo[f2][F[f2].index(v)]
        if a1 != a2 or b1 != b2:
            ctx.violation("opened", "edges", "unreported_edge_opened", "an interior edge that is not reported in cut_edges was opened in the cut mesh", edge=[u, v])
            return
    # 6. cut edges contain the border; cut graph connected; cut_adj describes it
    ctx.obs("cutgraph", "structure")
    bids = {e for e, ed in enumerate(edges) if ed in ref.border_edges}
    if not bids <= cut_edges:
        ctx.violation("cutgraph", "border", "border_not_in_cut_edges", "cut_edges does not contain the original border edges", missing=len(bids - cut_edges))
        return
    if any(not (0 <= e < len(edges)) for e in cut_edges):
        ctx.violation("cutgraph", "ids", "invalid_edge_id", "cut_edges contains something that is not an edge id")
        return
    adj = {}
    for e in cut_edges:
        u, v = edges[e]
        adj.setdefault(u, set()).add(v)
        adj.setdefault(v, set()).add(u)
    if adj:
        s = next(iter(adj))
        seen = {s}
        st = [s]
        while st:
            x = st.pop()
            for y in adj[x]:
                if y not in seen:
                    seen.add(y)
                    st.append(y)
        if len(seen) != len(adj):
            ctx.violation("cutgraph", "connected", "cut_graph_not_connected", "the reported cut edges do not form a connected graph", components_seen=len(seen), vertices=len(adj))
            return
    try:
        cadj = {int(k): {int(x) for x in v} for k, v in cutter.cut_adj.items() if len(v) > 0}
    except Exception:
        cadj = None
    ctx.check(cadj == adj, "cutgraph", "cut_adj", "cut_adj_differs_from_cut_edges", "cut_adj is not the adjacency of the reported cut edges")
    Vz = np.asarray(V, float)
    all_edges_zero = all(np.array_equal(Vz[a_], Vz[b_]) for (a_, b_) in ref.edges)
    # 3. disk topology (or unchanged sphere)
    ctx.obs("disk", "topology")
    ao = topo.analyse(len(Vo), Fo)
    sphere_uncut = a["closed"] and a["chi"] == 2 and len(singus) < 2
    if sphere_uncut:
        if not (ao["closed"] and ao["chi"] == 2 and ao["manifold"] and len(Vo) == len(V)):
            ctx.violation("disk", "sphere", "sphere_with_less_than_two_singularities_was_cut", "a closed sphere with fewer than two singular vertices was not left uncut",
                          chi=ao["chi"], n_vertices=len(Vo))
        return
    if not (ao["manifold"] and ao["oriented"] and ao["n_components"] == 1 and len(ao["border_loops"]) == 1 and ao["chi"] == 1 and ao["unused_vertices"] == 0):
        n_interior_cut = len(cut_edges - bids)
        if a["closed"] and a["chi"] == 2 and n_interior_cut == 1:
            mech = "closed_sphere_single_cut_edge_cannot_open"
        elif use_features and singus and ao["n_components"] > 1 and a["n_components"] == 1:
            mech = "feature_spanning_tree_disconnects_faces"
        elif all_edges_zero and not use_features and ao["n_components"] > 1:
            # K-C16-3: edges of length exactly 0 make every path length tie; the spanning tree over the singular vertices may then take a
            # zero-length path between two border vertices, which closes a loop with the border and separates faces
            mech = "all_edge_lengths_zero_tie_and_the_cut_separates_faces"
        elif not ao["manifold"]:
            mech = "cut_mesh_not_manifold"
        else:
            mech = "not_a_disk"
        ctx.violation("disk", "topology", mech, "cut mesh is not a topological disk (one component, one border loop, Euler characteristic 1)",
                      chi=ao["chi"], loops=len(ao["border_loops"]), components=ao["n_components"], manifold=ao["manifold"],
                      input_chi=a["chi"], input_loops=len(a["border_loops"]), singularities=singus, interior_cut_edges=n_interior_cut, features=use_features)
        return
    # 4. singular vertices on the border of the cut mesh
    ob = {v for l in ao["border_loops"] for v in l}
    for s in singus:
        if not any(refv[v] == s for v in ob):
            ctx.violation("disk", "singularities", "singularity_not_on_border", "a singular vertex has no copy on the border of the cut mesh", vertex=s, kind=kind)
            return
    # 5. the exported cut graph (polyline) is the reported cut edges, placed at the original positions, with the singular vertices selected
    ok, cg = ctx.call("cut_graph", lambda: cutter.cut_graph, monitor="cutgraph", abort=False)
    if ok and cg is not None:
        ctx.obs("cutgraph", "export")
        try:
            gV = build.vertices_array(cg)
            gE = build.edges_list(cg)
            sel = cg.vertices.get_attribute("selection")
            selected = {tuple(np.asarray(gV[i], float)) for i in range(len(gV)) if bool(sel[i])}
            seg = sorted(tuple(sorted((tuple(gV[a]), tuple(gV[b])))) for a, b in gE)
        except Exception as e:
            seg = None
            ctx.violation("cutgraph", "export", "malformed_cut_graph", "cut_graph cannot be read: %s" % type(e).__name__)
        if seg is not None:
            Vf = np.asarray(V, float)
            want = sorted(tuple(sorted((tuple(Vf[edges[e][0]]), tuple(Vf[edges[e][1]])))) for e in cut_edges)
            ctx.check(seg == want, "cutgraph", "export", "exported_graph_is_not_the_cut_edges", "cut_graph does not consist of exactly the reported cut edges at their positions",
                      n=len(seg), want=len(want))
            ctx.check(selected == {tuple(Vf[s_]) for s_ in singus}, "cutgraph", "export", "selection_is_not_the_singular_vertices",
                      "the 'selection' attribute of cut_graph does not mark exactly the singular vertices", n=len(selected), want=len(singus))
    # 6. history: the reported cut is handed to a face spanning tree as its set of edges not to cross (what the library's own parametrisation
    #    code does with it); afterwards the cutter must still report the same cut, and the tree must have reached every face without crossing it
    import mouette as M
    ok, tr = ctx.call("FaceSpanningTree_over_cut_edges", lambda: M.processing.trees.FaceSpanningTree(m, 0, cutter.cut_edges)(), monitor="cutgraph", abort=False)
    if ok:
        ctx.obs("cutgraph", "face_tree_over_cut")
        try:
            after = {int(e) for e in cutter.cut_edges}
            reached = sum(1 for f in range(len(F)) if f == 0 or tr.parent[f] is not None)
        except Exception:
            after, reached = None, -1
        if after != cut_edges:
            ctx.violation("cutgraph", "face_tree_over_cut", "reported_cut_edges_changed_by_a_face_tree_that_was_given_them",
                          "after a face spanning tree was built with the reported cut edges as the edges not to cross, the cutter reports another set of cut edges",
                          before=len(cut_edges), after=None if after is None else len(after))
        elif reached != len(F):
            ctx.violation("cutgraph", "face_tree_over_cut", "faces_not_connected_without_crossing_the_cut",
                          "a face spanning tree that does not cross the reported cut edges does not reach every face, although the cut mesh is one disk",
                          reached=reached, faces=len(F))
    if len(F) <= 8:
        ctx.sample({"faces": F, "singularities": singus, "cut_edges": sorted(edges[e] for e in cut_edges), "cut_mesh_faces": Fo})
    # history: a second cut of the SAME mesh object (same feature detector) with another singularity set must again give a disk
    if desc["gen"] == "cube_features" and not desc.get("_second"):
        s2 = _pick_singularities(rng, "many", ref, len(V), F)
        if len(set(s2)) >= 2 and set(s2) != set(singus):
            ok, cutter2 = ctx.call("SingularityCutter_second_on_same_mesh", lambda: M.processing.SingularityCutter(m, list(dict.fromkeys(s2)), features=feat, verbose=False), monitor="faces")
            ok, _ = ctx.call("run_second_on_same_mesh", cutter2.run, monitor="faces")
            ok, out2 = ctx.call("output_mesh_second", lambda: cutter2.output_mesh, monitor="faces")
            ctx.obs("disk", "second_cut_same_mesh")
            try:
                Fo2 = build.faces_list(out2)
                ao2 = topo.analyse(len(out2.vertices), Fo2)
                good = len(Fo2) == len(F) and ao2["manifold"] and ao2["n_components"] == 1 and len(ao2["border_loops"]) == 1 and ao2["chi"] == 1
            except Exception:
                good, ao2 = False, {}
            if not good:
                ctx.violation("disk", "topology", "second_cut_of_same_mesh_is_not_a_disk", "a second feature-constrained cut of the same mesh object (other singularities) is not a disk",
                              chi=ao2.get("chi"), components=ao2.get("n_components"), loops=len(ao2.get("border_loops", [])))
