"""C19 - samplers stay on their domain; Bezier evaluation matches the Bernstein form.

Shape: post-condition monitors on the returned arrays / point clouds / meshes.
  count    exactly n points (k^d in grid mode, k = round(n^(1/d)) or the k with k^d nearest to n)
  domain   box (both modes, grid spans the box), sphere, ball, polyline, surface (+ normals of the containing face)
  share    N draws on meshes with <= 40 elements of very unequal size: per-element count inside an exact binomial
           acceptance region (Bonferroni over every bin judged in the run)
  bernstein / interp / hull / reject   BezierCurve.evaluate, BezierPatch.evaluate against exact rational Bernstein sums
  export   as_polyline(n) / custom positions, as_surface(n1, n2) for n1 != n2 and n1 == n2
"""
import itertools
import math
import random
from fractions import Fraction

import numpy as np

from .. import build
from ..ctx import stable_hash
from ..ref import c19_ref as R
from ..zoo import c19_inputs as Z
from ..zoo import surfaces

ID = "C19"
RULE = ("seeded calls of every sampler and of BezierCurve/BezierPatch: boxes of dimension 1-5 (unit, arbitrary, huge offset, thin, "
        "tiny, large, integer corners) in uniform and grid mode; spheres/balls with radius 1e-3..1e3 and centres from the origin to 1e6; "
        "polylines (chain, loop, star, several components, single edge) and triangulated zoo surfaces in general position with array / "
        "point-cloud / normals return variants; 20 000-draw share experiments on meshes with <= 40 elements of very unequal size; control "
        "nets of degree 0-6 (x 0-6) in dimension 1-4 with hostile magnitudes, evaluated at boundary / denormal / random parameters, "
        "exported with n and (n1, n2) in 2..9. Non-trivial = radius != 1, non-unit box, mesh with >= 2 elements, degree >= 2, "
        "n1 != n2; distinct = distinct case descriptor hash")
REQUIRED = {"count": 400, "domain/box_uniform": 3000, "domain/box_grid": 10000, "domain/box_grid_span": 60, "domain/sphere": 3000,
            "domain/ball": 3000, "domain/polyline": 100000, "domain/surface": 100000, "domain/normals": 5000,
            "share/polyline": 40, "share/surface": 80, "bernstein/curve": 1500, "bernstein/patch": 1500,
            "interp/curve": 400, "interp/patch": 400, "hull/curve": 1500, "hull/patch": 1500,
            "reject/curve": 1500, "reject/patch": 3000, "export/as_polyline": 2000, "export/as_surface": 1500,
            "export/as_surface_n1_ne_n2": 40}
CASE_TIMEOUT = {"quick": 30.0, "thorough": 300.0}

ALPHA_RUN = 1e-6          # admitted probability of a false 'share' alarm per run
MAX_BINS = 40             # elements per share experiment
N_SHARE = 20000
ASSUMPTIONS = [
    "share monitor: every per-element count is judged by an exact two-sided binomial tail test at level alpha_bin = 1e-6 / (40 x number of "
    "share experiments of the run) (Bonferroni over all bins; about 6.5 sigma, never narrower than needed for small expected counts where the "
    "6-sigma normal band is unsound), so that the probability of a false alarm is < 1e-6 per run; the monitor decides nothing about the "
    "distribution inside an element",
    "boxes are non-empty (min < max on every axis), sample counts are >= 1, radii are finite and > 0, polylines have >= 1 edge of positive length",
    "containment tolerances: box 8 ulp of the corner magnitude; sphere/ball 1e-12 r + 16 eps (|c| + r); polyline and surface 1e-12 x max |coordinate| "
    "(surface containment is decided in exact rational arithmetic on the float inputs: distance to the face plane and signed in-plane distance to "
    "each edge line); normals 1e-12 + 64 eps (longest edge)^2 / (2 area)",
    "grid mode: the statement's 'nearest perfect power' is read as k^d with k = round(n^(1/d)) (the documented rule) or the k whose k^d is nearest to n; "
    "a grid with >= 2 points per axis must attain all box corners",
    "Bezier patches: either assignment of (u, v) to the (inner, outer) index of the control net is accepted, but it must be the same for every "
    "evaluation and for as_surface; hull membership is certified by an explicit convex combination (residual <= 1e-9 x max |P|) and only "
    "reported as violated when the LP optimum exceeds 1e-7 x max |P|",
    "exports: n >= 1 for as_polyline, n1, n2 >= 2 for as_surface; custom positions are passed together with n_pts = len(custom positions); control points of exports are 2-D or 3-D "
    "(curve) / 3-D (patch); any exception counts as rejection of an out-of-range parameter",
    "point-cloud return variants are judged by the same post-conditions as the array variants (coordinates beyond the box dimension are padding)",
]

EPS = R.EPS


# ----------------------------------------------------------------------------- case plan
def _share_count(tier):
    return (14, 14) if tier == "quick" else (1500, 1500)


def cases(seed, tier):
    rng = random.Random(seed * 104729 + 19)
    quick = tier == "quick"
    out = []

    def S():
        return rng.randrange(2 ** 31)
    n_pl, n_sf = _share_count(tier)
    alpha_bin = ALPHA_RUN / (MAX_BINS * (n_pl + n_sf))
    # --- boxes
    n_box = 260 if quick else 27000
    for i in range(n_box):
        dim = 1 + i % 5
        mode = "grid" if i % 2 else "uniform"
        cls = Z.BOX_CLASSES[(i // 2) % len(Z.BOX_CLASSES)]
        if mode == "grid":
            n = rng.choice([1, 2, 3, 4, 7, 8, 10, 16, 27, 32, 50, 64, 100, 243, 500, 1000, 1024, 2000])
        else:
            n = rng.choice([1, 2, 5, 17, 60, 200])
        out.append({"gen": "box", "seed": S(), "cls": cls, "dim": dim, "n": n, "mode": mode,
                    "cloud": dim <= 3 and (i // 10) % 3 == 1})
    # --- sphere / ball
    n_sb = 160 if quick else 18000
    radii = [1.0, 1, 2, 0.5, 1e-3, 1e3]
    for i in range(n_sb):
        kind = "ball" if i % 2 else "sphere"
        r = radii[(i // 2) % len(radii)] if (i // 2) % 3 == 0 else 10.0 ** rng.uniform(-3, 3)
        out.append({"gen": kind, "seed": S(), "r": r, "ccls": ["origin", "unit", "far", "vfar"][(i // 2) % 4],
                    "ctype": ["vec", "nd"][(i // 8) % 2], "n": rng.choice([1, 3, 20, 100, 300]), "cloud": (i // 4) % 3 == 2})
    # --- polyline / surface domain
    n_pd = 70 if quick else 7500
    for i in range(n_pd):
        out.append({"gen": "polyline", "seed": S(), "cls": Z.POLYLINE_CLASSES[i % len(Z.POLYLINE_CLASSES)],
                    "ne": rng.choice([1, 2, 3, 5, 12, 40, 120]), "n": rng.choice([1, 10, 80, 200]), "cloud": (i // 6) % 3 == 1,
                    "vrows": ["list", "tuple", "nprow", "vec"][i % 4], "irows": ["list", "tuple", "npint"][(i // 4) % 3],
                    "scale": rng.choice([1.0, 1.0, 1e-3, 1e3]), "shift": rng.choice([0.0, 0.0, 10.0, 1e4])})
    n_sd = 90 if quick else 9000
    for i in range(n_sd):
        out.append({"gen": "surface", "seed": S(), "n": rng.choice([1, 10, 60, 150]), "variant": i % 4,
                    "vrows": ["list", "tuple", "nprow", "vec"][(i // 4) % 4], "irows": ["list", "tuple", "npint"][i % 3],
                    "generic": i % 5 != 4, "max_size": rng.choice([2, 4, 6])})
    for i in range(6 if quick else 180):
        out.append({"gen": "surface", "seed": S(), "n": rng.choice([1, 7, 40]), "variant": i % 4, "vrows": "list", "irows": "list",
                    "generic": True, "max_size": 1, "single": True})
    # --- share experiments
    for i in range(n_pl):
        out.append({"gen": "share_polyline", "seed": S(), "cls": ["chain", "loop", "star", "components", "zigzag_unequal"][i % 5],
                    "ne": rng.choice([2, 3, 7, 15, 40]), "N": N_SHARE, "alpha_bin": alpha_bin})
    for i in range(n_sf):
        out.append({"gen": "share_surface", "seed": S(), "cls": Z.UNEQUAL_CLASSES[i % len(Z.UNEQUAL_CLASSES)],
                    "N": N_SHARE, "alpha_bin": alpha_bin, "normals": i % 3 == 0})
    # --- Bezier curves
    n_cv = 130 if quick else 15000
    for i in range(n_cv):
        deg = [1, 2, 3, 4, 5, 6, 0][i % 7]
        dim = [3, 2, 1, 4][(i // 7) % 4]
        ns = sorted({2, rng.randint(3, 9), rng.choice([10, 17, 33])})
        out.append({"gen": "curve", "seed": S(), "cls": Z.NET_CLASSES[(i // 3) % len(Z.NET_CLASSES)], "deg": deg, "dim": dim,
                    "ptype": ["list", "nd", "vec", "tuple"][(i // 2) % 4], "ns": ns, "long_custom": i % 16 == 5})
    # --- Bezier patches
    n_pa = 130 if quick else 15000
    for i in range(n_pa):
        m = [1, 2, 3, 4, 5, 6, 0][i % 7]
        n = [2, 1, 3, 6, 5, 4, 0, 2][(i // 7) % 8]
        dim = [3, 3, 2, 1, 4][(i // 3) % 5]
        n1, n2 = rng.randint(2, 9), rng.randint(2, 9)
        if i % 3 == 0:
            n2 = n1
        out.append({"gen": "patch", "seed": S(), "cls": Z.NET_CLASSES[(i // 5) % len(Z.NET_CLASSES)], "m": m, "n": n, "dim": dim,
                    "ptype": ["list", "nd", "vec"][(i // 2) % 3], "pairs": [[n1, n2]]})
    # --- as_surface sweep: every (n1, n2) in 2..7 (quick) / 2..10 (thorough) on a small net
    hi = 7 if quick else 10
    for rep in range(1 if quick else 18):
        for n1 in range(2, hi + 1):
            out.append({"gen": "patch", "seed": S(), "cls": "generic", "m": 1 + (n1 + rep) % 3, "n": 1 + (n1 + 2 * rep + 1) % 3, "dim": 3,
                        "ptype": "list", "pairs": [[n1, n2] for n2 in range(2, hi + 1)], "light": True})
    # a readable sample: the first non-trivial case of six families
    want = {"box:grid": lambda d: d["cls"] in ("intcorners", "arbitrary", "negative") and d["dim"] <= 2 and 2 <= d["n"] <= 32 and not d["cloud"],
            "ball": lambda d: d["r"] < 1 and d["n"] == 20 and not d["cloud"] and d["ccls"] in ("origin", "unit"),
            "share_surface": lambda d: True,
            "patch": lambda d: d.get("light") is None and d["dim"] == 3 and d["pairs"][0][0] != d["pairs"][0][1] and max(d["pairs"][0]) <= 5 and d["cls"] in ("generic", "integer", "repeated", "collinear"),
            "curve": lambda d: d["deg"] == 2 and d["dim"] == 2 and d["cls"] in ("generic", "integer"),
            "share_polyline": lambda d: d["ne"] <= 7}
    for fam, pred in want.items():
        for d in out:
            f = d["gen"] + (":" + d["mode"] if d["gen"] == "box" else "")
            if f == fam and pred(d):
                d["sample"] = True
                break
    # interleave so that every shard sees every family
    rng.shuffle(out)
    out.sort(key=lambda d: 0 if d.get("sample") else 1)
    return out


# ----------------------------------------------------------------------------- helpers
def _judge(ctx, ok, monitor, op, mech, what, n=1, **w):
    if n > 1:
        ctx.obs(monitor, op, n - 1)
    return ctx.check(bool(ok), monitor, op, mech, what, **w)


def _points(ctx, obj, site, cloud, width):
    """Returned points as float array (n, width') or None (malformed answer -> violation)."""
    try:
        if cloud:
            if not hasattr(obj, "vertices"):
                raise TypeError("no vertices container on %r" % type(obj).__name__)
            rows = [np.asarray(p, dtype=float).ravel() for p in obj.vertices]
            A = np.array(rows, dtype=float).reshape(len(rows), -1) if rows else np.zeros((0, width))
        else:
            A = np.asarray(obj, dtype=float)
        if A.ndim != 2:
            raise ValueError("array of shape %s" % (A.shape,))
        return A
    except Exception as e:  # malformed answer
        ctx.violation("count", site, "malformed_result", "the sampler did not return an (n, d) point set: %s" % str(e)[:120],
                      type=type(obj).__name__)
        return None


def _rclass(r):
    return "radius_lt_1" if r < 1 else ("radius_gt_1" if r > 1 else "radius_eq_1")


def _key(desc):
    return stable_hash({k: v for k, v in desc.items() if k != "sample"})


# ----------------------------------------------------------------------------- boxes
def run_box(desc, ctx):
    from mouette import sampling
    from mouette.geometry import AABB
    rng = random.Random(desc["seed"])
    d, n, mode, cloud = desc["dim"], desc["n"], desc["mode"], desc["cloud"]
    lo, hi = Z.box(rng, desc["cls"], d)
    unit = Z.is_unit_box(lo, hi)
    ctx.cls("box:%s" % desc["cls"])
    ctx.cls("box:dim%d:%s%s" % (d, mode, ":cloud" if cloud else ""))
    if not unit:
        ctx.nontrivial(_key(desc))
    ok, bx = ctx.call("AABB", AABB, list(lo), list(hi), monitor="domain")
    site = "sample_AABB:" + mode
    ok, res = ctx.call(site, sampling.sample_AABB, bx, n, mode=mode, return_point_cloud=cloud, monitor="domain")
    A = _points(ctx, res, site, cloud, d)
    if A is None:
        return
    if A.shape[1] < d:
        ctx.violation("count", site, "malformed_result", "points have fewer coordinates than the box", shape=list(A.shape), dim=d)
        return
    P = A[:, :d]
    lo_a, hi_a = np.array(lo, float), np.array(hi, float)
    # count
    if mode == "uniform":
        allowed = {n}
    else:
        allowed = {k ** d for k in R.grid_resolutions(n, d)}
    _judge(ctx, len(P) in allowed, "count", site, "wrong_number_of_points",
           "sample_AABB(%s) returned %d points for n_pts=%d in dimension %d (allowed %s)" % (mode, len(P), n, d, sorted(allowed)),
           n_pts=n, dim=d, got=len(P), allowed=sorted(allowed))
    if len(P) == 0:
        return
    # containment
    tol = 8 * np.spacing(np.maximum(np.abs(lo_a), np.abs(hi_a)))
    bad = ~np.isfinite(P) | (P < lo_a - tol) | (P > hi_a + tol)
    rows = np.where(bad.any(axis=1))[0]
    op = "box_" + mode
    _judge(ctx, len(rows) == 0, "domain", op, "point_outside_box:mode=%s" % mode,
           "sample_AABB(mode=%s) returned %d of %d points outside the box" % (mode, len(rows), len(P)), n=len(P),
           box_min=lo, box_max=hi, point=P[rows[0]].tolist() if len(rows) else None, unit_box=unit)
    if mode == "grid":
        res_axis = round(len(P) ** (1.0 / d))
        if res_axis >= 2 and res_axis ** d == len(P):
            pmin, pmax = P.min(axis=0), P.max(axis=0)
            ext_ok = bool(np.all(np.abs(pmin - lo_a) <= tol) and np.all(np.abs(pmax - hi_a) <= tol))
            corners_ok = ext_ok
            if ext_ok:
                for bits in itertools.product((0, 1), repeat=d):
                    c = np.where(np.array(bits) == 1, hi_a, lo_a)
                    if not np.any(np.all(np.abs(P - c) <= tol, axis=1)):
                        corners_ok = False
                        break
            _judge(ctx, corners_ok, "domain", "box_grid_span", "grid_extremes_are_not_the_box_corners",
                   "grid sampling does not span the requested box: extreme points %s .. %s" % (pmin.tolist(), pmax.tolist()),
                   box_min=lo, box_max=hi, grid_min=pmin.tolist(), grid_max=pmax.tolist(), unit_box=unit)
    if desc.get("sample"):
        ctx.sample({"call": "sample_AABB(AABB(%s, %s), %d, mode=%r)" % (lo, hi, n, mode), "returned_points": len(P),
                    "min": P.min(axis=0).tolist(), "max": P.max(axis=0).tolist()})


# ----------------------------------------------------------------------------- sphere / ball
def _centre(rng, ccls):
    if ccls == "origin":
        return [0.0, 0.0, 0.0]
    s = {"unit": 1.0, "far": 1e3, "vfar": 1e6}[ccls]
    return [rng.uniform(-1, 1) * s for _ in range(3)]


def run_round(desc, ctx):
    from mouette import sampling
    from mouette.geometry import Vec
    rng = random.Random(desc["seed"])
    kind, r, n, cloud = desc["gen"], desc["r"], desc["n"], desc["cloud"]
    c = _centre(rng, desc["ccls"])
    ctx.cls("%s:%s%s" % (kind, _rclass(r), ":cloud" if cloud else ""))
    ctx.cls("%s:centre_%s" % (kind, desc["ccls"]))
    if r != 1:
        ctx.nontrivial(_key(desc))
    centre = Vec(c[0], c[1], c[2]) if desc["ctype"] == "vec" else np.array(c, float)
    fn = sampling.sample_sphere if kind == "sphere" else sampling.sample_ball
    site = "sample_" + kind
    ok, res = ctx.call(site, fn, centre, r, n, return_point_cloud=cloud, monitor="domain")
    A = _points(ctx, res, site, cloud, 3)
    if A is None:
        return
    _judge(ctx, A.shape == (n, 3), "count", site, "wrong_number_of_points",
           "%s returned shape %s for n_pts=%d" % (site, list(A.shape), n), n_pts=n, shape=list(A.shape))
    if A.shape[1] != 3 or len(A) == 0:
        return
    ca = np.array(c, float)
    dist = np.linalg.norm(A - ca, axis=1)
    rf = float(r)
    tol = 1e-12 * rf + 16 * EPS * (float(np.max(np.abs(ca))) + rf) * math.sqrt(3)
    if kind == "sphere":
        bad = ~np.isfinite(dist) | (np.abs(dist - rf) > tol)
        i = int(np.argmax(np.where(np.isfinite(dist), np.abs(dist - rf), np.inf)))
        _judge(ctx, not bad.any(), "domain", "sphere", "point_off_sphere:" + _rclass(rf),
               "sample_sphere: %d of %d points are not at distance radius=%g from the centre (worst |p-c|=%r)"
               % (int(bad.sum()), n, rf, float(dist[i])), n=len(A), centre=c, radius=rf, worst_distance=float(dist[i]), tol=tol)
    else:
        bad = ~np.isfinite(dist) | (dist > rf + tol)
        i = int(np.argmax(np.where(np.isfinite(dist), dist, np.inf)))
        _judge(ctx, not bad.any(), "domain", "ball", "point_outside_ball:" + _rclass(rf),
               "sample_ball: %d of %d points lie outside the ball of radius %g (largest |p-c| = %r)"
               % (int(bad.sum()), n, rf, float(dist[i])), n=len(A), centre=c, radius=rf, largest_distance=float(dist[i]), tol=tol)
        if n >= 100 and float(np.max(dist)) < 0.5 * rf:
            ctx.note("ball:all_%d_points_within_half_the_radius:%s" % (100, _rclass(rf)))
        if desc.get("sample"):
            ctx.sample({"call": "sample_ball(centre=%s, radius=%g, n_pts=%d)" % (c, rf, n),
                        "largest |p-c|": float(np.max(dist)), "outside": int(bad.sum())})


# ----------------------------------------------------------------------------- polyline domain
def run_polyline(desc, ctx):
    from mouette import sampling
    rng = random.Random(desc["seed"])
    V, E, cls = Z.polyline(rng, desc["cls"], desc["ne"], scale=desc["scale"], shift=desc["shift"])
    n, cloud = desc["n"], desc["cloud"]
    ctx.cls("polyline:%s%s" % (cls, ":cloud" if cloud else ""))
    ctx.cls("polyline:edges_%s" % ("1" if len(E) == 1 else ("2-10" if len(E) <= 10 else ">10")))
    if len(E) >= 2:
        ctx.nontrivial(_key(desc))
    ok, pl = ctx.call("construct_polyline", build.polyline, V, E, desc["vrows"], desc["irows"], monitor="domain")
    ok, res = ctx.call("sample_polyline" + (":single_edge" if len(E) == 1 else ""), sampling.sample_polyline, pl, n,
                       return_point_cloud=cloud, monitor="domain")
    A = _points(ctx, res, "sample_polyline", cloud, 3)
    if A is None:
        return
    _judge(ctx, A.shape == (n, 3), "count", "sample_polyline", "wrong_number_of_points",
           "sample_polyline returned shape %s for n_pts=%d" % (list(A.shape), n), n_pts=n, shape=list(A.shape))
    if A.shape[1] != 3 or len(A) == 0:
        return
    E_a = np.array(E, int)
    scale = max(float(np.max(np.abs(V))), 1e-300)
    with np.errstate(all="ignore"):
        D = R.seg_dist_matrix(A, V[E_a[:, 0]], V[E_a[:, 1]])
    dmin = np.where(np.isfinite(A).all(axis=1), D.min(axis=1), np.inf)
    bad = dmin > 1e-12 * scale
    i = int(np.argmax(dmin))
    _judge(ctx, not bad.any(), "domain", "polyline", "point_off_every_edge",
           "sample_polyline: %d of %d points are not on any edge (largest distance %.3g, scale %.3g)" % (int(bad.sum()), n, float(dmin[i]), scale),
           n=len(A), point=A[i].tolist(), distance=float(dmin[i]), scale=scale, edges=len(E))
    if desc.get("sample"):
        ctx.sample({"call": "sample_polyline(<%s with %d edges>, %d)" % (cls, len(E), n), "largest distance to the polyline": float(dmin[i]),
                    "scale": scale})


# ----------------------------------------------------------------------------- surface domain
def _containing_faces(P, V, F, scale):
    """For each point: list of faces that contain it to 1e-12*scale (exact arithmetic), plus diagnostics."""
    F_a = np.array(F, int)
    A, B, C = V[F_a[:, 0]], V[F_a[:, 1]], V[F_a[:, 2]]
    out, diag = [], []
    for s in range(0, len(P), 256):
        chunk = P[s:s + 256]
        with np.errstate(all="ignore"):
            D = R.tri_dist_matrix(chunk, A, B, C)
        for i in range(len(chunk)):
            p = chunk[i]
            if not np.all(np.isfinite(p)):
                out.append([])
                diag.append({"point": p.tolist(), "reason": "non-finite"})
                continue
            cand = np.where(D[i] <= 1e-6 * scale)[0]
            cand = cand[np.argsort(D[i][cand])][:12]
            inside, best = [], None
            for f in cand:
                ok, dpl, worst = R.inside_triangle_exact(p, A[f], B[f], C[f], 1e-12 * scale)
                if ok:
                    inside.append(int(f))
                if best is None or max(dpl, -worst) < best[0]:
                    best = (max(dpl, -worst), int(f), dpl, worst)
            out.append(inside)
            diag.append({"point": p.tolist(), "float_distance_to_surface": float(D[i].min()),
                         "best_face": best[1] if best else None, "plane_distance": best[2] if best else None,
                         "in_plane_edge_distance": best[3] if best else None})
    return out, diag


def _check_normals(ctx, Nrm, inside, unit, cond, n):
    ok_all, witness, judged = True, None, 0
    for i in range(min(len(Nrm), len(inside))):
        if not inside[i]:
            continue
        judged += 1
        good = False
        for f in inside[i]:
            tolf = 1e-12 + 64 * EPS * float(cond[f])
            if np.all(np.isfinite(Nrm[i])) and float(np.max(np.abs(Nrm[i] - unit[f]))) <= tolf:
                good = True
                break
        if not good and ok_all:
            ok_all = False
            f = inside[i][0]
            opposite = bool(np.max(np.abs(Nrm[i] + unit[f])) <= 1e-9)
            witness = {"point_index": i, "returned": np.asarray(Nrm[i]).tolist(), "face": f, "face_normal": unit[f].tolist(), "opposite": opposite}
    if judged:
        _judge(ctx, ok_all, "domain", "normals", "normal_is_not_the_containing_faces_normal",
               "sample_surface(return_normals=True): a returned normal differs from the normal of the face containing the point",
               n=judged, **(witness or {}))


def run_surface(desc, ctx):
    from mouette import sampling
    if desc.get("single"):
        rs = random.Random(desc["seed"])
        V = np.array([[rs.uniform(-3, 3) for _ in range(3)] for _ in range(3)], float)
        z = {"V": V, "F": [[0, 1, 2]], "cls": "single_triangle"}
    else:
        z = surfaces.make(desc["seed"], tri_only=True, max_size=desc["max_size"], generic=desc["generic"])
    V, F = np.asarray(z["V"], float), z["F"]
    n = desc["n"]
    cloud, normals = bool(desc["variant"] & 1), bool(desc["variant"] & 2)
    unit, area, cond = R.tri_normals(V, F)
    ctx.cls("surface:%s" % z["cls"].split("~")[0].split("+")[0])
    ctx.cls("surface:variant:%s%s" % ("cloud" if cloud else "array", "+normals" if normals else ""))
    if not np.all(np.isfinite(cond)) or float(np.max(cond)) > 1e7:
        ctx.note("surface:skipped_near_degenerate_face")
        return
    if len(F) >= 2:
        ctx.nontrivial(_key(desc))
    rh = random.Random(desc["seed"] ^ 0x77aa)
    if rh.random() < 0.4 and not desc.get("single"):
        # history: the mesh object was measured earlier in another shape (persistent face normals / areas, default names), then deformed in
        # place to the geometry V: samples and normals must be those of the geometry at the time of the call
        import mouette as M
        ctx.cls("surface:history:measured_then_deformed")
        A0 = np.array([[1.0, rh.uniform(-0.8, 0.8), 0.0], [0.0, 1.0, rh.uniform(-0.8, 0.8)], [rh.uniform(-0.8, 0.8), 0.0, 1.0]]) * np.array([1.0, 2.5, 0.4])
        ok, sm = ctx.call("construct_surface", build.surface, V @ A0.T + 1.0, F, desc["vrows"], desc["irows"], monitor="domain")
        ctx.call("attributes.face_normals", M.attributes.face_normals, sm, monitor="domain")
        ctx.call("attributes.face_area", M.attributes.face_area, sm, monitor="domain")
        for i in range(len(V)):
            sm.vertices[i] = M.Vec(V[i].copy())
    else:
        ok, sm = ctx.call("construct_surface", build.surface, V, F, desc["vrows"], desc["irows"], monitor="domain")
    ctx.cls("surface:faces_%s" % ("1" if len(F) == 1 else ("2-20" if len(F) <= 20 else ">20")))
    ok, res = ctx.call("sample_surface" + (":single_face" if len(F) == 1 else ""), sampling.sample_surface, sm, n,
                       return_point_cloud=cloud, return_normals=normals, monitor="domain")
    Nrm = None
    if normals and not cloud:
        if not (isinstance(res, tuple) and len(res) == 2):
            ctx.violation("count", "sample_surface", "malformed_result", "return_normals=True did not return (points, normals)", type=type(res).__name__)
            return
        res, Nrm = res
    A = _points(ctx, res, "sample_surface", cloud, 3)
    if A is None:
        return
    _judge(ctx, A.shape == (n, 3), "count", "sample_surface", "wrong_number_of_points",
           "sample_surface returned shape %s for n_pts=%d" % (list(A.shape), n), n_pts=n, shape=list(A.shape))
    if A.shape[1] != 3 or len(A) == 0:
        return
    if normals:
        try:
            if cloud:
                if not res.vertices.has_attribute("normals"):
                    raise KeyError("point cloud has no 'normals' attribute")
                att = res.vertices.get_attribute("normals")
                Nrm = np.array([np.asarray(att[i], float) for i in range(len(A))], float)
            else:
                Nrm = np.asarray(Nrm, float)
            if Nrm.shape != (len(A), 3):
                raise ValueError("normals of shape %s for %d points" % (Nrm.shape, len(A)))
        except Exception as e:
            _judge(ctx, False, "count", "sample_surface:normals", "wrong_number_of_normals",
                   "normals do not come as one 3-vector per sampled point: %s" % str(e)[:120], n_pts=n)
            Nrm = None
        else:
            ctx.obs("count", "sample_surface:normals")
    scale = max(float(np.max(np.abs(V))), 1e-300)
    inside, diag = _containing_faces(A, V, F, scale)
    bad = [i for i in range(len(A)) if not inside[i]]
    _judge(ctx, not bad, "domain", "surface", "point_outside_every_face",
           "sample_surface: %d of %d points are not inside any face (tolerance 1e-12 x %.3g)" % (len(bad), n, scale), n=len(A),
           **(diag[bad[0]] if bad else {}))
    if Nrm is not None:
        _check_normals(ctx, Nrm, inside, unit, cond, n)


# ----------------------------------------------------------------------------- share experiments
def _share_verdict(ctx, op, counts, probs, N, n_amb, alpha_bin, what, sizes):
    from scipy.stats import binom
    worst = None
    for e in range(len(probs)):
        p = min(max(float(probs[e]), 0.0), 1.0)
        k = int(counts[e])
        lo_tail = float(binom.cdf(min(N, k + n_amb), N, p))
        hi_tail = float(binom.sf(max(0, k - n_amb) - 1, N, p))
        ok = min(lo_tail, hi_tail) >= alpha_bin / 2.0
        sd = math.sqrt(max(N * p * (1 - p), 1e-300))
        zscore = (k - N * p) / sd
        if worst is None or abs(zscore) > abs(worst):
            worst = zscore
        _judge(ctx, ok, "share", op, "element_share_outside_binomial_acceptance_region",
               "%s: element %d received %d of %d samples, expected %.1f (share %.3g of the total %s; exact tail %.2g < %.2g)"
               % (what, e, k, N, N * p, p, sizes, min(lo_tail, hi_tail), alpha_bin / 2.0),
               element=e, count=k, expected=N * p, fraction=p, z=zscore, tail=min(lo_tail, hi_tail), alpha_bin=alpha_bin, elements=len(probs))
    return worst


def run_share_polyline(desc, ctx):
    from mouette import sampling
    rng = random.Random(desc["seed"])
    V, E, cls = Z.polyline(rng, desc["cls"], min(desc["ne"], MAX_BINS))
    E = E[:MAX_BINS]
    N = desc["N"]
    ctx.cls("share_polyline:%s" % cls)
    E_a = np.array(E, int)
    L = np.linalg.norm(V[E_a[:, 0]] - V[E_a[:, 1]], axis=1)
    if len(E) >= 2:
        ctx.nontrivial(_key(desc))
    ctx.cls("share:size_ratio_%s" % ("<10" if L.max() / L.min() < 10 else ("<1000" if L.max() / L.min() < 1000 else ">=1000")))
    V = np.asarray(V, float)
    if random.Random(desc["seed"] ^ 0x1234).random() < 0.5:
        # history: edge lengths measured (persistently) on another shape of the same object, which is then deformed in place to V
        import mouette as M
        ctx.cls("share:history:measured_then_deformed")
        ok, pl = ctx.call("construct_polyline", build.polyline, V * np.array([5.0, 0.2, 1.0]) + 0.5, E, "list", "list", monitor="share")
        ctx.call("attributes.edge_length", M.attributes.edge_length, pl, monitor="share")
        for i in range(len(V)):
            pl.vertices[i] = M.Vec(V[i].copy())
    else:
        ok, pl = ctx.call("construct_polyline", build.polyline, V, E, "list", "list", monitor="share")
    ok, res = ctx.call("sample_polyline", sampling.sample_polyline, pl, N, monitor="share")
    A = _points(ctx, res, "sample_polyline", False, 3)
    if A is None or A.shape != (N, 3):
        ctx.violation("count", "sample_polyline", "wrong_number_of_points", "share experiment: wrong shape", shape=None if A is None else list(A.shape))
        return
    scale = max(float(np.max(np.abs(V))), 1e-300)
    counts = np.zeros(len(E), int)
    n_amb = n_off = 0
    for s in range(0, N, 4000):
        with np.errstate(all="ignore"):
            D = R.seg_dist_matrix(A[s:s + 4000], V[E_a[:, 0]], V[E_a[:, 1]])
        D = np.where(np.isfinite(D), D, np.inf)
        near = D <= 1e-9 * scale
        cnt = near.sum(axis=1)
        n_off += int((cnt == 0).sum())
        n_amb += int((cnt >= 2).sum())
        idx = np.argmin(D, axis=1)
        counts += np.bincount(idx[cnt >= 1], minlength=len(E))
    _judge(ctx, n_off == 0, "domain", "polyline", "point_off_every_edge",
           "sample_polyline: %d of %d points are not on any edge (tolerance 1e-9 x scale)" % (n_off, N), n=N, scale=scale)
    if n_off:
        return
    z = _share_verdict(ctx, "polyline", counts, L / L.sum(), N, n_amb, desc["alpha_bin"], "sample_polyline", "length")
    if n_amb:
        ctx.note("share:ambiguous_points_widen_the_band")
    if desc.get("sample"):
        ctx.sample({"call": "sample_polyline(<%s, %d edges>, %d)" % (cls, len(E), N), "length_fractions": (L / L.sum()).round(6).tolist()[:8],
                    "counts": counts.tolist()[:8], "largest |z|": abs(z) if z is not None else None})


def run_share_surface(desc, ctx):
    from mouette import sampling
    rng = random.Random(desc["seed"])
    V, F, cls = Z.unequal_triangulation(rng, desc["cls"], MAX_BINS)
    N = desc["N"]
    ctx.cls("share_surface:%s" % cls)
    unit, area, cond = R.tri_normals(V, F)
    if len(F) >= 2:
        ctx.nontrivial(_key(desc))
    ctx.cls("share:size_ratio_%s" % ("<10" if area.max() / area.min() < 10 else ("<1000" if area.max() / area.min() < 1000 else ">=1000")))
    V = np.asarray(V, float)
    unit_len = [1.0, 1.0, 1.2e-5, 1.0, 3e-7, 1e4][desc["seed"] % 6]
    if unit_len != 1.0:
        # the same surface in very small / large units: the shares follow the area ratios, which have no unit
        V = V * unit_len
        ctx.cls("share_surface:units:%g" % unit_len)
        # reference normals and their conditioning are those of the coordinates the library receives (the rescaling rounds every coordinate,
        # which turns the normal of a needle-like triangle by more than its conditioning at the original coordinates allows for)
        unit, _, cond = R.tri_normals(V, F)
    if random.Random(desc["seed"] ^ 0x4321).random() < 0.5:
        import mouette as M
        ctx.cls("share:history:measured_then_deformed")
        ok, sm = ctx.call("construct_surface", build.surface, V * np.array([5.0, 0.2, 1.0]) + 0.5, F, "list", "list", monitor="share")
        ctx.call("attributes.face_area", M.attributes.face_area, sm, monitor="share")
        ctx.call("attributes.face_normals", M.attributes.face_normals, sm, monitor="share")
        for i in range(len(V)):
            sm.vertices[i] = M.Vec(V[i].copy())
    else:
        ok, sm = ctx.call("construct_surface", build.surface, V, F, "list", "list", monitor="share")
    want_normals = bool(desc.get("normals"))
    ok, res = ctx.call("sample_surface", sampling.sample_surface, sm, N, return_normals=want_normals, monitor="share")
    Nrm = None
    if want_normals:
        if not (isinstance(res, tuple) and len(res) == 2):
            ctx.violation("count", "sample_surface", "malformed_result", "return_normals=True did not return (points, normals)", type=type(res).__name__)
            return
        res, Nrm = res
    A = _points(ctx, res, "sample_surface", False, 3)
    if A is None or A.shape != (N, 3):
        ctx.violation("count", "sample_surface", "wrong_number_of_points", "share experiment: wrong shape", shape=None if A is None else list(A.shape))
        return
    scale = max(float(np.max(np.abs(V))), 1e-300)
    F_a = np.array(F, int)
    TA, TB, TC = V[F_a[:, 0]], V[F_a[:, 1]], V[F_a[:, 2]]
    counts = np.zeros(len(F), int)
    n_amb = n_off = 0
    owner = np.full(N, -1, int)
    for s in range(0, N, 2000):
        with np.errstate(all="ignore"):
            D = R.tri_dist_matrix(A[s:s + 2000], TA, TB, TC)
        D = np.where(np.isfinite(D), D, np.inf)
        near = D <= 1e-9 * scale
        cnt = near.sum(axis=1)
        n_off += int((cnt == 0).sum())
        n_amb += int((cnt >= 2).sum())
        idx = np.argmin(D, axis=1)
        counts += np.bincount(idx[cnt >= 1], minlength=len(F))
        owner[s:s + 2000] = np.where(cnt == 1, idx, -1)
    _judge(ctx, n_off == 0, "domain", "surface", "point_outside_every_face",
           "sample_surface: %d of %d points are not inside any face (tolerance 1e-9 x scale)" % (n_off, N), n=N, scale=scale)
    if n_off:
        return
    z = _share_verdict(ctx, "surface", counts, area / area.sum(), N, n_amb, desc["alpha_bin"], "sample_surface", "area")
    if n_amb:
        ctx.note("share:ambiguous_points_widen_the_band")
    if Nrm is not None:
        try:
            Nrm = np.asarray(Nrm, float)
            if Nrm.shape != (N, 3):
                raise ValueError(str(Nrm.shape))
        except Exception:
            _judge(ctx, False, "count", "sample_surface:normals", "wrong_number_of_normals", "normals do not come as one 3-vector per point", n_pts=N)
        else:
            sel = np.where(owner >= 0)[0][:3000]
            _check_normals(ctx, Nrm[sel], [[int(owner[i])] for i in sel], unit, cond, N)
    if desc.get("sample"):
        ctx.sample({"call": "sample_surface(<%s, %d faces>, %d)" % (cls, len(F), N), "area_fractions": (area / area.sum()).round(6).tolist()[:8],
                    "counts": counts.tolist()[:8], "largest |z|": abs(z) if z is not None else None})


# ----------------------------------------------------------------------------- Bezier
def _as_ptype(P, ptype):
    whole = all(float(c).is_integer() and abs(c) < 2 ** 50 for p in P for c in p)
    if whole:
        # whole-number control points are also given as Python ints / integer arrays (a working copy must not inherit an integer dtype)
        if ptype == "nd":
            return np.array([[int(c) for c in p] for p in P], dtype=np.int64)
        if ptype == "tuple":
            return tuple(tuple(int(c) for c in p) for p in P)
        if ptype == "list":
            return [[int(c) for c in p] for p in P]
    if ptype == "nd":
        return np.array(P, float)
    if ptype == "tuple":
        return tuple(tuple(p) for p in P)
    if ptype == "vec":
        from mouette.geometry import Vec
        return [Vec(list(p)) for p in P]
    return [list(p) for p in P]


def _vec(ctx, val, dim, monitor, op):
    try:
        a = np.asarray(val, dtype=float).ravel()
        if a.shape != (dim,):
            raise ValueError("shape %s" % (a.shape,))
        return a
    except Exception as e:
        ctx.violation(monitor, op, "malformed_result", "evaluate did not return a point of dimension %d: %s" % (dim, str(e)[:100]),
                      type=type(val).__name__)
        return None


def _tclass(t):
    t = float(t)
    if t != t:
        return "nan"
    if math.isinf(t):
        return "infinite"
    return "below_0" if t < 0 else "above_1"


def _hull(ctx, op, pts, val, M):
    status, s_lp, cert = R.hull_residual(pts, val)
    if not status:
        ctx.note("hull:solver_gave_no_answer")
        return
    spread = float(np.max(np.abs(np.asarray(pts, float) - np.asarray(pts, float).mean(axis=0)))) if len(pts) else 0.0
    unit = spread if spread > 0 else max(1.0, M)
    cert_abs, lp_abs = cert * unit, s_lp * unit
    if cert_abs <= 1e-9 * M:
        ctx.check(True, "hull", op, "", "")
    elif lp_abs > 1e-7 * M:
        ctx.check(False, "hull", op, "value_outside_convex_hull_of_control_points",
                  "evaluate returned a point at max-norm distance %.3g from the convex hull of the control points (scale %.3g)" % (lp_abs, M),
                  value=np.asarray(val).tolist(), distance=lp_abs, scale=M)
    else:
        ctx.note("hull:undecided_between_1e-9_and_1e-7")


def _valid_ts(rng, k):
    ts = list(Z.VALID_T)
    ts += [rng.random() for _ in range(k)]
    ts += [int(0), int(1), np.float64(0.75), np.float32(0.5)]
    return ts


def _invalid_ts():
    ts = [Z.parse_t(x) for x in Z.INVALID_T]
    ts += [np.float64("nan"), np.float64(1.0000000000000002), int(2), int(-1), np.float32(-0.25)]
    return ts


def run_curve(desc, ctx):
    from mouette.splines.bezier import BezierCurve
    rng = random.Random(desc["seed"])
    deg, dim = desc["deg"], desc["dim"]
    P = Z.control_points(rng, desc["cls"], deg + 1, dim)
    Pf = R.frac_points(P)
    M = max(float(np.max(np.abs(np.array(P, float)))), 1e-300)
    ctx.cls("curve:deg%d" % deg)
    ctx.cls("curve:dim%d" % dim)
    ctx.cls("control_points:%s" % desc["cls"])
    ctx.cls("control_points:as_%s" % desc["ptype"])
    if deg >= 2:
        ctx.nontrivial(_key(desc))
    ok, cv = ctx.call("BezierCurve", BezierCurve, _as_ptype(P, desc["ptype"]), monitor="bernstein")
    worst = 0.0
    for t in _valid_ts(rng, 4):
        ok, val = ctx.call("curve.evaluate", cv.evaluate, t, monitor="bernstein")
        a = _vec(ctx, val, dim, "bernstein", "curve")
        if a is None:
            continue
        tf = float(t)
        diff = R.max_abs_diff(R.bernstein_curve(Pf, tf), a)
        worst = max(worst, diff / M)
        ctx.check(diff <= 1e-12 * M, "bernstein", "curve", "value_differs_from_bernstein_sum",
                  "BezierCurve.evaluate(%r) differs from the Bernstein sum by %.3g (scale %.3g, degree %d)" % (tf, diff, M, deg),
                  t=tf, degree=deg, control_points=P, got=a.tolist(), diff=diff)
        if tf == 0.0 or tf == 1.0:
            want = np.array(P[0] if tf == 0.0 else P[-1], float)
            ctx.check(bool(np.all(a == want)), "interp", "curve", "end_control_point_not_interpolated",
                      "BezierCurve.evaluate(%r) is not the %s control point" % (tf, "first" if tf == 0.0 else "last"),
                      t=tf, got=a.tolist(), want=want.tolist())
        _hull(ctx, "curve", P, a, M)
    for t in _invalid_ts():
        ok, val = ctx.call("curve.evaluate", cv.evaluate, t, expect=(Exception,), monitor="reject")
        ctx.check(not ok, "reject", "curve", "out_of_range_parameter_accepted:" + _tclass(t),
                  "BezierCurve.evaluate(%r) returned a value instead of rejecting the parameter" % (t,), t=repr(t))
        if not ok and type(val).__name__ != "InvalidRangeArgumentError":
            ctx.note("reject:by_" + type(val).__name__)
    if dim in (2, 3):
        for n in desc["ns"]:
            _check_polyline_export(ctx, cv, Pf, P, M, dim, n, None, rng)
        if desc.get("seed", 0) % 4 == 0:
            # the smallest sample count: one sample, the curve's first point (numpy.linspace(0, 1, 1) is [0.]), no edge
            _check_polyline_export(ctx, cv, Pf, P, M, dim, 1, None, rng)
        m = rng.randint(2, 9)
        pos = [rng.choice([0.0, 1.0, rng.random(), rng.random()]) for _ in range(m)]
        _check_polyline_export(ctx, cv, Pf, P, M, dim, m, pos if rng.random() < 0.5 else np.array(pos), rng)
        badpos = list(pos)
        badpos[rng.randrange(m)] = rng.choice([1.5, -0.25, float("nan")])
        ok, val = ctx.call("curve.as_polyline:custom_pos", cv.as_polyline, m, custom_pos=badpos, expect=(Exception,), monitor="reject")
        ctx.check(not ok, "reject", "curve_custom_pos", "out_of_range_parameter_accepted:custom_position",
                  "as_polyline accepted a custom position outside [0,1]", positions=badpos)
        if desc["seed"] % 4 == 0:
            ok, pl = ctx.call("curve.as_polyline:default_n", cv.as_polyline, monitor="export", abort=False)
            if ok:
                ctx.obs("export", "as_polyline:default_n")
                try:
                    cnt = (len(pl.vertices), len(pl.edges))
                except Exception:
                    cnt = None
                ctx.check(cnt == (100, 99), "export", "as_polyline", "default_sample_count_is_not_the_documented_100",
                          "as_polyline() without a count does not give the documented 100 samples", got=cnt)
        if desc.get("long_custom"):
            mm = 130
            posl = [i / (mm - 1) for i in range(mm)]
            ok, pl = ctx.call("curve.as_polyline:custom_pos_default_n", cv.as_polyline, custom_pos=posl, monitor="export", abort=False)
            try:
                if ok and len(pl.vertices) == mm and len(pl.edges) != mm - 1:
                    ctx.note("export:custom_pos_longer_than_default_n_pts_gives_%d_edges_for_%d_vertices" % (len(pl.edges), mm))
            except Exception:
                pass
    # history: values and meshes handed out earlier are modified in place by their owner (translate an exported polyline; "+=" on an evaluated
    # point at t=0 / t=1): the curve must still be the Bernstein polynomial of the control points it was built from
    if dim in (2, 3):
        ctx.cls("curve:history:results_modified_in_place")
        _modify_results_in_place(ctx, lambda: cv.as_polyline(rng.randint(2, 6)), [lambda t=t: cv.evaluate(t) for t in (0.0, 1.0)], M)
        for tf in (0.0, 1.0, 0.5, rng.random()):
            ok, val = ctx.call("curve.evaluate:after_results_modified", cv.evaluate, tf, monitor="bernstein")
            a = _vec(ctx, val, dim, "bernstein", "curve")
            if a is None:
                continue
            diff = R.max_abs_diff(R.bernstein_curve(Pf, tf), a)
            ctx.check(diff <= 1e-12 * M, "bernstein", "curve", "curve_changed_when_an_earlier_result_was_modified_in_place",
                      "after an exported polyline / an evaluated end point was modified in place, evaluate(%r) differs from the Bernstein sum of the "
                      "original control points by %.3g (scale %.3g)" % (tf, diff, M), t=tf, degree=deg, diff=diff)
    if desc.get("sample"):
        ctx.sample({"control_points": P, "checked": "evaluate vs exact Bernstein sum at boundary/denormal/random t; rejection of %d invalid t; "
                    "as_polyline(n) for n in %s" % (len(_invalid_ts()), desc["ns"]), "largest |diff|/scale": worst})


def _modify_results_in_place(ctx, export, evaluations, M):
    """The caller modifies, in place, things the curve / patch handed out: every vertex of an exported mesh is shifted (what transform.translate
    does) and evaluated end points are overwritten.  Harness-side steps: failures here are not judged."""
    shift = np.array([3.25, -1.5, 0.75]) * max(M, 1.0)
    try:
        mesh = export()
        for i in range(len(mesh.vertices)):
            mesh.vertices[i] += shift
        ctx.obs("bernstein", "history:exported_mesh_shifted_in_place")
    except Exception as e:
        ctx.note("history:export_shift_failed:" + type(e).__name__)
    for ev in evaluations:
        try:
            val = ev()
            if isinstance(val, np.ndarray) and val.dtype.kind == "f":
                val += shift[:val.shape[0]] if val.ndim == 1 else 1.0
                ctx.obs("bernstein", "history:evaluated_point_modified_in_place")
        except Exception as e:
            ctx.note("history:evaluate_modify_failed:" + type(e).__name__)


def _check_polyline_export(ctx, cv, Pf, P, M, dim, n, custom, rng):
    site = "curve.as_polyline" + (":custom_pos" if custom is not None else "")
    if custom is None:
        ok, pl = ctx.call(site, cv.as_polyline, n, monitor="export")
        ts = [Fraction(i, n - 1) for i in range(n)] if n > 1 else [Fraction(0)]
    else:
        ok, pl = ctx.call(site, cv.as_polyline, n, custom_pos=custom, monitor="export")
        ts = [Fraction(float(t)) for t in custom]
    ctx.cls("export:as_polyline:%s" % ("custom" if custom is not None else "uniform"))
    try:
        nv = len(pl.vertices)
        edges = [tuple(int(x) for x in e) for e in pl.edges]
        verts = [np.asarray(pl.vertices[i], float).ravel() for i in range(nv)]
        tatt = None
        if pl.vertices.has_attribute("t"):
            att = pl.vertices.get_attribute("t")
            tatt = [float(att[i]) for i in range(nv)]
    except Exception as e:
        ctx.violation("export", "as_polyline", "malformed_result", "cannot read the exported polyline: %s" % str(e)[:120])
        return
    if not ctx.check(nv == n, "export", "as_polyline", "polyline_vertex_count", "as_polyline(%d) has %d vertices" % (n, nv), n=n, got=nv):
        return
    in_range = all(len(e) == 2 and 0 <= e[0] < nv and 0 <= e[1] < nv for e in edges)
    ctx.check(in_range, "export", "as_polyline", "edge_index_out_of_range", "as_polyline(%d): an edge refers to a missing vertex" % n, edges=edges[:20], n=n)
    chain = sorted(tuple(sorted(e)) for e in edges) == [(i, i + 1) for i in range(n - 1)]
    ctx.check(chain, "export", "as_polyline", "edges_are_not_the_chain", "as_polyline(%d): edges are not (i, i+1), i < n-1" % n, edges=edges[:20], n=n)
    if tatt is None:
        ctx.check(False, "export", "as_polyline", "t_attribute_missing", "exported polyline has no 't' attribute")
    else:
        okt = all(abs(tatt[i] - float(ts[i])) <= 4 * EPS for i in range(n))
        ctx.check(okt, "export", "as_polyline", "t_attribute_is_not_the_sampling_parameter", "the 't' attribute differs from the sampling positions",
                  got=tatt[:12], want=[float(t) for t in ts[:12]])
    worst, wi = 0.0, None
    for i in range(n):
        ex = R.bernstein_curve(Pf, ts[i])
        if dim == 2:
            ex = ex + [Fraction(0)]
        if verts[i].shape != (3,):
            worst, wi = float("inf"), i
            break
        dd = R.max_abs_diff(ex, verts[i])
        if dd > worst:
            worst, wi = dd, i
    ctx.obs("export", "as_polyline", n - 1)
    ctx.check(worst <= 1e-12 * M, "export", "as_polyline", "vertex_is_not_the_curve_point",
              "as_polyline(%d): vertex %s differs from the curve point at its parameter by %.3g (scale %.3g)" % (n, wi, worst, M), n=n, vertex=wi, diff=worst)


def run_patch(desc, ctx):
    from mouette.splines.bezier import BezierPatch
    rng = random.Random(desc["seed"])
    m, n, dim = desc["m"], desc["n"], desc["dim"]
    net = Z.control_net(rng, desc["cls"], m, n, dim)
    Nf = [R.frac_points(row) for row in net]
    flat = [p for row in net for p in row]
    M = max(float(np.max(np.abs(np.array(flat, float)))), 1e-300)
    ctx.cls("patch:deg%s" % ("0xk" if min(m, n) == 0 else ("square" if m == n else "m!=n")))
    ctx.cls("patch:dim%d" % dim)
    ctx.cls("control_points:%s" % desc["cls"])
    ctx.cls("control_points:as_%s" % desc["ptype"])
    pairs = [tuple(p) for p in desc["pairs"]]
    if (m >= 2 or n >= 2) or any(a != b for a, b in pairs):
        ctx.nontrivial(_key(desc))
    net_in = [_as_ptype(row, desc["ptype"]) for row in net]
    if desc["ptype"] == "nd":
        whole = all(float(c).is_integer() and abs(c) < 2 ** 50 for p in flat for c in p)
        net_in = np.array([[[int(c) for c in p] for p in row] for row in net], dtype=np.int64) if whole else np.array(net, float)
    ok, bp = ctx.call("BezierPatch", BezierPatch, net_in, monitor="bernstein")
    exported = None
    convs = {"u_inner", "u_outer"}     # which index of the net the first parameter runs with
    light = bool(desc.get("light"))
    params = [(0.0, 0.0), (0.0, 1.0), (1.0, 0.0), (1.0, 1.0), (rng.random(), rng.random()), (rng.random(), 0.0), (1.0, rng.random())]
    if not light:
        vt = _valid_ts(rng, 2)
        params += [(rng.choice(vt), rng.choice(vt)) for _ in range(6)] + [(rng.random(), rng.random()) for _ in range(3)]
    worst = 0.0
    for (u, v) in params:
        ok, val = ctx.call("patch.evaluate", bp.evaluate, u, v, monitor="bernstein")
        a = _vec(ctx, val, dim, "bernstein", "patch")
        if a is None:
            continue
        uf, vf = float(u), float(v)
        d_in = R.max_abs_diff(R.bernstein_patch(Nf, vf, uf), a)      # u with the inner index
        d_out = R.max_abs_diff(R.bernstein_patch(Nf, uf, vf), a)     # u with the outer index
        okc = {c for c, dd in (("u_inner", d_in), ("u_outer", d_out)) if dd <= 1e-12 * M}
        good = bool(okc & convs)
        worst = max(worst, min(d_in, d_out) / M)
        ctx.check(good, "bernstein", "patch", "value_differs_from_tensor_bernstein_sum",
                  "BezierPatch.evaluate(%r, %r) differs from the tensor Bernstein sum (by %.3g / %.3g for the two index assignments, scale %.3g)"
                  % (uf, vf, d_in, d_out, M), u=uf, v=vf, degrees=[m, n], diff_u_inner=d_in, diff_u_outer=d_out, still_consistent=sorted(convs))
        if good:
            convs = okc & convs
        if uf in (0.0, 1.0) and vf in (0.0, 1.0):
            c_in = np.array(net[int(vf) * m][int(uf) * n], float)
            c_out = np.array(net[int(uf) * m][int(vf) * n], float)
            hit = ("u_inner" in convs and bool(np.all(a == c_in))) or ("u_outer" in convs and bool(np.all(a == c_out)))
            ctx.check(hit, "interp", "patch", "corner_control_point_not_interpolated",
                      "BezierPatch.evaluate(%r, %r) is not the corner control point" % (uf, vf), u=uf, v=vf, got=a.tolist(),
                      corner_u_inner=c_in.tolist(), corner_u_outer=c_out.tolist())
        _hull(ctx, "patch", flat, a, M)
    bads = _invalid_ts()
    sel = bads if not light else bads[:4]
    for k, t in enumerate(sel):
        g = rng.random()
        for (u, v) in ((t, g), (g, t)) if k % 3 else ((t, g), (g, t), (t, t)):
            ok, val = ctx.call("patch.evaluate", bp.evaluate, u, v, expect=(Exception,), monitor="reject")
            ctx.check(not ok, "reject", "patch", "out_of_range_parameter_accepted:" + _tclass(t),
                      "BezierPatch.evaluate(%r, %r) returned a value instead of rejecting the parameter" % (u, v), u=repr(u), v=repr(v))
    if dim == 3:
        for (n1, n2) in pairs:
            exported = _check_surface_export(ctx, bp, Nf, M, n1, n2, convs)
    if dim == 3 and desc["seed"] % 4 == 0 and max(m, n) <= 3:
        ok, sm = ctx.call("patch.as_surface:default_n", bp.as_surface, monitor="export", abort=False)
        if ok:
            ctx.obs("export", "as_surface:default_n")
            try:
                cnt = len(sm.vertices)
            except Exception:
                cnt = None
            ctx.check(cnt == 400, "export", "as_surface", "default_resolution_is_not_the_documented_20x20",
                      "as_surface() without resolutions does not give the documented 20 x 20 samples", got=cnt)
    if dim == 3 and convs:
        ctx.cls("patch:history:results_modified_in_place")
        _modify_results_in_place(ctx, lambda: bp.as_surface(rng.randint(2, 4), rng.randint(2, 4)),
                                 [lambda u=u, v=v: bp.evaluate(u, v) for (u, v) in ((0.0, 0.0), (1.0, 0.0), (0.0, 1.0), (1.0, 1.0))], M)
        for (uf, vf) in ((0.0, 0.0), (1.0, 1.0), (0.0, 1.0), (1.0, 0.0), (0.5, 0.25), (rng.random(), rng.random())):
            ok, val = ctx.call("patch.evaluate:after_results_modified", bp.evaluate, uf, vf, monitor="bernstein")
            a = _vec(ctx, val, dim, "bernstein", "patch")
            if a is None:
                continue
            d_in = R.max_abs_diff(R.bernstein_patch(Nf, vf, uf), a)
            d_out = R.max_abs_diff(R.bernstein_patch(Nf, uf, vf), a)
            good = ("u_inner" in convs and d_in <= 1e-12 * M) or ("u_outer" in convs and d_out <= 1e-12 * M)
            ctx.check(good, "bernstein", "patch", "patch_changed_when_an_earlier_result_was_modified_in_place",
                      "after an exported surface / an evaluated corner was modified in place, evaluate(%r, %r) differs from the tensor Bernstein sum of "
                      "the original control points (by %.3g / %.3g, scale %.3g)" % (uf, vf, d_in, d_out, M), u=uf, v=vf, degrees=[m, n])
    # history: a control point of this patch object is moved (assignment and in-place "+=" on patch.pts[i][j]) after the patch has been
    # evaluated and exported: the patch must now be the Bernstein polynomial of its CURRENT control points, also at parameters already used
    if dim == 3 and convs and desc["seed"] % 3 == 0:
        ctx.cls("patch:history:control_point_edited_after_evaluation")
        try:
            i_, j_ = rng.randrange(len(bp.pts)), rng.randrange(len(bp.pts[0]))
            shift = np.array([0.75, -1.25, 2.5]) * max(M, 1.0)
            if rng.random() < 0.5:
                bp.pts[i_][j_] = type(bp.pts[i_][j_])(np.asarray(bp.pts[i_][j_], float) + shift)
            else:
                bp.pts[i_][j_] = type(bp.pts[i_][j_])(np.asarray(bp.pts[i_][j_], float))
                bp.pts[i_][j_] += shift
            net2 = [[[float(c) for c in np.asarray(p, float)] for p in row] for row in bp.pts]
            Nf2 = [R.frac_points(row) for row in net2]
            M2 = max(float(np.max(np.abs(np.array(net2, float)))), 1e-300)
        except Exception as e:
            ctx.note("patch_edit_failed:" + type(e).__name__)
            Nf2 = None
        if Nf2 is not None:
            for (uf, vf) in ((0.0, 0.0), (1.0, 1.0), (0.0, 1.0), (1.0, 0.0), (0.5, 0.25), (rng.random(), rng.random())):
                ok, val = ctx.call("patch.evaluate:after_control_point_edit", bp.evaluate, uf, vf, monitor="bernstein")
                a = _vec(ctx, val, dim, "bernstein", "patch")
                if a is None:
                    continue
                d_in = R.max_abs_diff(R.bernstein_patch(Nf2, vf, uf), a)
                d_out = R.max_abs_diff(R.bernstein_patch(Nf2, uf, vf), a)
                good = ("u_inner" in convs and d_in <= 1e-12 * M2) or ("u_outer" in convs and d_out <= 1e-12 * M2)
                ctx.check(good, "bernstein", "patch", "patch_does_not_follow_its_edited_control_points",
                          "after a control point of the patch was moved, evaluate(%r, %r) is not the tensor Bernstein sum of the current control points "
                          "(differences %.3g / %.3g, scale %.3g)" % (uf, vf, d_in, d_out, M2), u=uf, v=vf, degrees=[m, n])
            for (n1, n2) in pairs[:1]:
                _check_surface_export(ctx, bp, Nf2, M2, n1, n2, convs)
    if desc.get("sample"):
        ctx.sample({"control_net_degrees": [m, n], "first_row": net[0][:3], "checked": "evaluate vs exact tensor Bernstein sum, corners, hull, "
                    "rejection; as_surface%s" % (pairs,), "largest |diff|/scale": worst, "as_surface": exported if dim == 3 else None})


def _check_surface_export(ctx, bp, Nf, M, n1, n2, convs):
    rel = "n1==n2" if n1 == n2 else "n1!=n2"
    ctx.cls("export:as_surface:%s" % rel)
    op = "as_surface"
    ok, sm = ctx.call("patch.as_surface:" + rel, bp.as_surface, n1, n2, monitor="export")
    if n1 != n2:
        ctx.obs("export", "as_surface_n1_ne_n2")
    try:
        nv = len(sm.vertices)
        faces = [tuple(int(x) for x in f) for f in sm.faces]
        verts = [np.asarray(sm.vertices[i], float).ravel() for i in range(nv)]
        uv = None
        if sm.vertices.has_attribute("uv_coords"):
            att = sm.vertices.get_attribute("uv_coords")
            uv = [np.asarray(att[i], float).ravel() for i in range(nv)]
    except Exception as e:
        ctx.violation("export", op, "malformed_result", "cannot read the exported surface: %s" % str(e)[:120])
        return None
    summary = {"n1": n1, "n2": n2, "vertices": nv, "faces": [list(f) for f in faces[:12]]}
    if not ctx.check(nv == n1 * n2, "export", op, "surface_vertex_count", "as_surface(%d,%d) has %d vertices" % (n1, n2, nv), n1=n1, n2=n2, got=nv):
        return summary
    # grid position of every vertex from its uv attribute
    ij = None
    if uv is None:
        ctx.check(False, "export", op, "uv_attribute_missing", "exported surface has no 'uv_coords' attribute")
    else:
        ij, okuv = [], True
        for k in range(nv):
            if uv[k].shape != (2,) or not np.all(np.isfinite(uv[k])):
                okuv = False
                break
            i, j = int(round(uv[k][0] * (n1 - 1))), int(round(uv[k][1] * (n2 - 1)))
            if not (0 <= i < n1 and 0 <= j < n2 and abs(uv[k][0] - i / (n1 - 1)) <= 4 * EPS and abs(uv[k][1] - j / (n2 - 1)) <= 4 * EPS):
                okuv = False
                break
            ij.append((i, j))
        okuv = okuv and len(set(ij)) == nv
        ctx.check(okuv, "export", op, "uv_attribute_is_not_the_sampling_grid:" + rel,
                  "as_surface(%d,%d): the uv attribute does not enumerate the n1 x n2 parameter grid" % (n1, n2), n1=n1, n2=n2,
                  uv_head=[u.tolist() for u in uv[:8]])
        if not okuv:
            ij = None
    if ij is None:
        ij = [(k // n2, k % n2) for k in range(nv)]
    # vertex positions
    worst, wk = 0.0, None
    for k in range(nv):
        a, b = Fraction(ij[k][0], n1 - 1), Fraction(ij[k][1], n2 - 1)
        if verts[k].shape != (3,):
            worst, wk = float("inf"), k
            break
        dds = []
        if "u_inner" in convs:
            dds.append(R.max_abs_diff(R.bernstein_patch(Nf, b, a), verts[k]))
        if "u_outer" in convs:
            dds.append(R.max_abs_diff(R.bernstein_patch(Nf, a, b), verts[k]))
        dd = min(dds) if dds else 0.0
        if dd > worst:
            worst, wk = dd, k
    ctx.obs("export", op, nv - 1)
    ctx.check(worst <= 1e-12 * M, "export", op, "vertex_is_not_the_patch_point:" + rel,
              "as_surface(%d,%d): vertex %s differs from the patch point at its uv parameters by %.3g (scale %.3g)" % (n1, n2, wk, worst, M),
              n1=n1, n2=n2, vertex=wk, diff=worst)
    # faces
    oor = [f for f in faces if any((x < 0 or x >= nv) for x in f)]
    if not ctx.check(not oor, "export", op, "face_index_out_of_range:" + rel,
                     "as_surface(%d,%d): %d of %d faces refer to vertices that do not exist (%d vertices), e.g. %s" % (n1, n2, len(oor), len(faces), nv, oor[:1]),
                     n1=n1, n2=n2, vertices=nv, example=list(oor[0]) if oor else None, faces=len(faces)):
        return summary
    cells = {}
    bad_face = None
    for f in faces:
        if len(f) != 4 or len(set(f)) != 4:
            bad_face = bad_face or f
            continue
        pts = [ij[x] for x in f]
        i0, j0 = min(p[0] for p in pts), min(p[1] for p in pts)
        ring = [(i0, j0), (i0, j0 + 1), (i0 + 1, j0 + 1), (i0 + 1, j0)]
        okf = False
        if i0 + 1 < n1 and j0 + 1 < n2 and sorted(pts) == sorted(ring):
            s = pts.index((i0, j0))
            rot = pts[s:] + pts[:s]
            okf = rot == ring or rot == [ring[0], ring[3], ring[2], ring[1]]
        if okf:
            cells[(i0, j0)] = cells.get((i0, j0), 0) + 1
        else:
            bad_face = bad_face or f
    complete = bad_face is None and len(cells) == (n1 - 1) * (n2 - 1) and all(c == 1 for c in cells.values())
    ctx.check(complete, "export", op, "faces_are_not_the_grid_cells:" + rel,
              "as_surface(%d,%d): the faces are not exactly the (n1-1)(n2-1) cells of the sampling grid (%d faces, %d distinct cells%s)"
              % (n1, n2, len(faces), len(cells), ", e.g. face %s joins grid nodes %s" % (list(bad_face), [ij[x] for x in bad_face]) if bad_face else ""),
              n1=n1, n2=n2, faces=len(faces), distinct_cells=len(cells), example=list(bad_face) if bad_face else None)
    return summary


# ----------------------------------------------------------------------------- dispatch
_RUN = {"box": run_box, "sphere": run_round, "ball": run_round, "polyline": run_polyline, "surface": run_surface,
        "share_polyline": run_share_polyline, "share_surface": run_share_surface, "curve": run_curve, "patch": run_patch}


def run_case(desc, ctx):
    _RUN[desc["gen"]](desc, ctx)
