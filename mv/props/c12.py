"""C12 - geometric primitives and boxes obey their algebra, with no side effects.

Shapes: icontract post-conditions on the real AABB methods (closed-box projection, contained => distance 0, union contains
operands, intersection == componentwise overlap, do_intersect <=> overlap extent >= 0, of_points/of_mesh tight),
direct law checks (projection realises the distance in l2/l1/linf; cross / det_2x2 / det_3x3 against fractions.Fraction;
rotations; angles; cotan; circumcentre; angle reduction; n-th roots) and the deciding side-effect sentinel
(mv/sentinels_c12.py) around EVERY call, over generated call sequences that include raising calls, starting from
several numpy error configurations."""
import math
import os
import random
import shutil
import tempfile

import numpy as np

from ..ctx import stable_hash
from ..ref import exact_c12 as X
from ..sentinels_c12 import Sentinel, LawBroken, ERR_CONFIGS, HARNESS_ERR

ID = "C12"
RULE = ("seeded batches of primitive calls (dimensions 1-6, magnitudes 1e-150..1e150, arguments as list/tuple/ndarray/Vec/int array/"
        "row view/strided view/read-only array; regular, point, flat, inverted, touching, nested, infinite boxes) judged against the laws "
        "where well-conditioned, plus seeded call *sequences* over a shared environment (caller arrays, sibling boxes built from the same "
        "arrays, boxes built from a mesh's vertices, a mesh that is saved with ignore_elements) in which every call - returning or raising - "
        "is bracketed by the side-effect sentinel, each case starting from one of six numpy error configurations; a law batch is "
        "non-trivial when >= 10 law instances were judged; a sequence is non-trivial when a raising call is followed by a non-raising "
        "one; distinct = distinct case descriptor hash"
        "; variants: points as (1,d) row slices in the box laws, nested operands and result identity, roots with normalize=False")
REQUIRED = {
    "aabb": 1500, "contract": 3000, "contract/AABB.project": 300, "contract/AABB.distance": 300, "contract/AABB.union": 100,
    "contract/AABB.intersection": 100, "contract/AABB.do_intersect": 100, "contract/AABB.of_points": 50, "contract/AABB.of_mesh": 20,
    "vec": 1500, "vec/cross": 300, "vec/det_2x2": 300, "vec/det_3x3": 300,
    "rot": 1500, "rot/rotate_2d_norm": 300, "rot/rotate_2d_compose": 300, "rot/rotate_around_axis_norm": 300,
    "rot/rotate_around_axis_fixes_axis": 300, "rot/rotate_around_axis_compose": 200,
    "angle": 1500, "angle/angle_3pts_range": 300, "angle/angle_3pts_symmetric": 300, "angle/signed_2vec3D": 200, "angle/signed_3pts": 200,
    "angle/cotan": 150, "angle/circumcenter": 150,
    "maths": 1500, "maths/principal_angle_range": 300, "maths/principal_angle_congruent": 200, "maths/angle_diff_range": 300,
    "maths/roots": 300,
    "args": 10000, "bystanders": 10000, "errstate_return": 10000, "errstate_raise": 1000, "seq": 1000,
}
CASE_TIMEOUT = {"quick": 30.0, "thorough": 600.0}
ASSUMPTIONS = [
    "inputs are finite; magnitudes 1e-150..1e150 (no overflow of squared norms); laws involving cross-product norms "
    "(angle_3pts, cotan, signed angles) are judged for magnitudes 1e-60..1e60 only, side-effect clauses everywhere",
    "laws are judged only where well-conditioned (relative distance from the degenerate set >= 1e-6); ties that are exactly "
    "representable (touching boxes, points on box faces) are judged",
    "an inverted box (min > max in some dimension) is an empty box: it is exempt from the projection/distance/union laws, but the "
    "intersection and do_intersect clauses are evaluated on it",
    "FloatingPointError is accepted from any call made while the caller's numpy configuration asks for 'raise'",
    "in call sequences only the side-effect clauses are judged (any exception type is accepted from any step)",
    "mesh fingerprints cover element containers and their attributes, not lazily built connectivity caches; volume meshes are "
    "not saved as geogram (the writer stores an adjacency attribute on the mesh by design)",
]

NORMS = ("l2", "l1", "linf")
CFGS = list(ERR_CONFIGS)
_evals = {}
_installed = False
_TMP = None


def _scratch():
    """One scratch directory per worker process (removed at interpreter exit); files are removed after each case."""
    global _TMP
    if _TMP is None or not os.path.isdir(_TMP):
        import atexit
        _TMP = tempfile.mkdtemp(prefix="c12_")
        atexit.register(shutil.rmtree, _TMP, True)
    return _TMP


def _clean_scratch():
    if _TMP is None:
        return
    for f in os.listdir(_TMP):
        try:
            os.remove(os.path.join(_TMP, f))
        except OSError:
            pass


def _ev(name):
    _evals[name] = _evals.get(name, 0) + 1


# =============================================================================================== contracts on the real AABB
def _lohi(b):
    return np.asarray(b._p1, dtype=float), np.asarray(b._p2, dtype=float)


def _nonempty(lo, hi):
    return lo.shape == hi.shape and bool(np.all(lo <= hi))


def _wit_box(b):
    try:
        lo, hi = _lohi(b)
        return {"min": lo.tolist(), "max": hi.tolist()}
    except Exception:
        return repr(b)[:200]


def _post_project(self, pt, result):
    _ev("AABB.project")
    with np.errstate(all="ignore"):
        try:
            lo, hi = _lohi(self)
            if not _nonempty(lo, hi):
                return True
            r = np.asarray(result, dtype=float)
            if r.ndim == 2 and r.shape[0] == 1 and np.ndim(pt) == 2:
                r = r[0]  # a point given as a (1, d) row slice comes back in the same form
            return r.shape == lo.shape and bool(np.all(lo <= r) and np.all(r <= hi))
        except Exception:
            return False


def _post_distance(self, pt, which, result):
    _ev("AABB.distance")
    with np.errstate(all="ignore"):
        try:
            lo, hi = _lohi(self)
            if not _nonempty(lo, hi):
                return True
            if bool(self.contains_point(pt)):
                return float(result) == 0.0
            return True
        except Exception:
            return False


def _post_union(b1, b2, result):
    _ev("AABB.union")
    with np.errstate(all="ignore"):
        try:
            rlo, rhi = _lohi(result)
            for b in (b1, b2):
                lo, hi = _lohi(b)
                if not _nonempty(lo, hi):
                    continue
                if not (rlo.shape == lo.shape and np.all(rlo <= lo) and np.all(rhi >= hi)):
                    return False
            return True
        except Exception:
            return False


def _overlap(b1, b2):
    lo1, hi1 = _lohi(b1)
    lo2, hi2 = _lohi(b2)
    return np.maximum(lo1, lo2), np.minimum(hi1, hi2)


def _post_intersection(b1, b2, result):
    _ev("AABB.intersection")
    with np.errstate(all="ignore"):
        try:
            lo, hi = _overlap(b1, b2)
            rlo, rhi = _lohi(result)
            return rlo.shape == lo.shape and np.array_equal(rlo, lo) and np.array_equal(rhi, hi)
        except Exception:
            return False


def _post_do_intersect(b1, b2, result):
    _ev("AABB.do_intersect")
    with np.errstate(all="ignore"):
        try:
            lo, hi = _overlap(b1, b2)
            return bool(result) == bool(np.all(lo <= hi))
        except Exception:
            return False


def _mech_do_intersect(b1, b2, result):
    try:
        inv = any(not _nonempty(*_lohi(b)) for b in (b1, b2))
    except Exception:
        inv = False
    if inv and bool(result):
        return "empty_operand_reported_intersecting"
    return "disagrees_with_overlap_extent"


def _points_array(points):
    return np.array([[float(x) for x in p] for p in points], dtype=float)


def _post_of_points(points, padding, result):
    _ev("AABB.of_points")
    with np.errstate(all="ignore"):
        try:
            if float(padding) != 0.0:
                return True
            P = _points_array(points)
            rlo, rhi = _lohi(result)
            return np.array_equal(rlo, P.min(axis=0)) and np.array_equal(rhi, P.max(axis=0))
        except Exception:
            return False


def _post_of_mesh(mesh, padding, result):
    _ev("AABB.of_mesh")
    with np.errstate(all="ignore"):
        try:
            if float(padding) != 0.0:
                return True
            P = _points_array(mesh.vertices._data)
            rlo, rhi = _lohi(result)
            return np.array_equal(rlo, P.min(axis=0)) and np.array_equal(rhi, P.max(axis=0))
        except Exception:
            return False


def worker_init():
    global _installed
    if _installed:
        return
    import icontract
    from mouette.geometry.aabb import AABB

    def ens(cond, err):
        return icontract.ensure(cond, error=err)

    AABB.project = ens(_post_project, lambda self, pt, result: LawBroken(
        "AABB.project", "outside_closed_box", "project(p) does not lie in the closed box [min,max]",
        dict(box=_wit_box(self), pt=np.asarray(pt).tolist(), result=np.asarray(result).tolist())))(AABB.project)
    AABB.distance = ens(_post_distance, lambda self, pt, which, result: LawBroken(
        "AABB.distance", "contained_point_at_nonzero_distance", "contains_point(p) holds but distance(p) != 0",
        dict(box=_wit_box(self), pt=np.asarray(pt).tolist(), which=which, result=float(result))))(AABB.distance)
    AABB.union = staticmethod(ens(_post_union, lambda b1, b2, result: LawBroken(
        "AABB.union", "operand_not_contained", "the union box does not contain one of its (non-empty) operands",
        dict(b1=_wit_box(b1), b2=_wit_box(b2), result=_wit_box(result))))(AABB.__dict__["union"].__func__))
    AABB.intersection = staticmethod(ens(_post_intersection, lambda b1, b2, result: LawBroken(
        "AABB.intersection", "not_componentwise_overlap", "intersection is not (max of mins, min of maxes)",
        dict(b1=_wit_box(b1), b2=_wit_box(b2), result=_wit_box(result))))(AABB.__dict__["intersection"].__func__))
    AABB.do_intersect = staticmethod(ens(_post_do_intersect, lambda b1, b2, result: LawBroken(
        "AABB.do_intersect", _mech_do_intersect(b1, b2, result),
        "do_intersect disagrees with 'the componentwise overlap has non-negative extent in every dimension'",
        dict(b1=_wit_box(b1), b2=_wit_box(b2), result=bool(result))))(AABB.__dict__["do_intersect"].__func__))
    AABB.of_points = classmethod(ens(_post_of_points, lambda points, padding, result: LawBroken(
        "AABB.of_points", "box_not_tight", "of_points(P) (padding 0) is not [min P, max P]",
        dict(points=np.asarray(_points_array(points)).tolist()[:8], result=_wit_box(result))))(AABB.__dict__["of_points"].__func__))
    AABB.of_mesh = classmethod(ens(_post_of_mesh, lambda mesh, padding, result: LawBroken(
        "AABB.of_mesh", "box_not_tight", "of_mesh(m) (padding 0) is not [min V, max V]",
        dict(result=_wit_box(result))))(AABB.__dict__["of_mesh"].__func__))
    _installed = True


def _flush_evals(ctx, base):
    for k, v in _evals.items():
        dv = v - base.get(k, 0)
        if dv:
            ctx.obs("contract", k, dv)


# =============================================================================================== case plan
def cases(seed, tier):
    rng = random.Random(7_000_003 * seed + 12)
    out = []
    for name in ("normalized_errstate", "pad_aliasing", "save_ignore_elements"):
        out.append({"gen": "anchor", "name": name, "cfg": "default", "seed": 1})
    quick = tier == "quick"
    n_law = 40 if quick else 2000          # cases per law family
    n_seq = 2000 if quick else 15000       # sequence cases (thorough: 10 sequences per case)
    mags = ["unit", "int", "mixed", "huge", "tiny", "sparse", "grid"]
    for fam in ("aabb", "vec", "rot", "angle", "maths"):
        for i in range(n_law):
            out.append({"gen": fam, "dim": 1 + (i % 6), "mag": mags[(i // 2) % len(mags)], "cfg": CFGS[i % len(CFGS)],
                        "n": 30 if quick else 120, "seed": rng.randrange(2 ** 31)})
    for i in range(n_seq):
        out.append({"gen": "seq", "dim": [3, 3, 2, 3, 1, 4, 3, 6, 5][i % 9], "cfg": CFGS[i % len(CFGS)],
                    "len": rng.choice([3, 4, 6, 8, 12, 16]), "mesh": ["surface", "surface", "polyline", "pointcloud", "volume"][i % 5],
                    "reps": 1 if quick else 10, "seed": rng.randrange(2 ** 31)})
    return out


# =============================================================================================== input generators
def _expo(rng, lo, hi):
    return (10.0 ** rng.uniform(lo, hi)) * rng.choice((-1.0, 1.0))


def gen_vals(rng, d, mag, emax=150):
    """d finite floats of the magnitude class."""
    if mag == "unit":
        return [rng.uniform(-1, 1) for _ in range(d)]
    if mag == "int":
        return [float(rng.randint(-9, 9)) for _ in range(d)]
    if mag == "grid":
        return [rng.randint(-8, 8) * 0.25 for _ in range(d)]
    if mag == "mixed":
        return [_expo(rng, -emax, emax) for _ in range(d)]
    if mag == "huge":
        s = 10.0 ** rng.uniform(emax * 0.66, emax)
        return [s * rng.uniform(-1, 1) for _ in range(d)]
    if mag == "tiny":
        s = 10.0 ** rng.uniform(-emax, -emax * 0.66)
        return [s * rng.uniform(-1, 1) for _ in range(d)]
    if mag == "sparse":
        return [rng.choice((0.0, 0.0, rng.uniform(-1, 1), 1.0, -1.0)) for _ in range(d)]
    raise KeyError(mag)


KINDS = ("list", "tuple", "nd", "vec", "int", "row", "strided", "ro")
ARRAY_KINDS = ("nd", "vec", "int", "row", "strided", "ro")


def as_kind(kind, vals, sent=None):
    """The same numbers in the requested container.  'int' rounds to integers (falls back to 'nd' when too large)."""
    vals = [float(v) for v in vals]
    if kind == "int":
        if all(abs(v) <= 1e6 for v in vals):
            return np.array([int(round(v)) for v in vals], dtype=np.int64)
        kind = "nd"
    if kind == "list":
        return list(vals)
    if kind == "tuple":
        return tuple(vals)
    if kind == "nd":
        return np.array(vals, dtype=float)
    if kind == "vec":
        from mouette import Vec
        return Vec(np.array(vals, dtype=float))
    if kind == "row":
        base = np.array([[0.5] * len(vals), vals, [-0.25] * len(vals)], dtype=float)
        if sent is not None:
            sent.watch("owner_of_row", base, "caller_array", transient=True)
        return base[1]
    if kind == "row_slice":
        # one point of a point array taken as P[i:i+1]: a (1, d) array holding the d coordinates
        base = np.array([[0.5] * len(vals), vals, [-0.25] * len(vals)], dtype=float)
        if sent is not None:
            sent.watch("owner_of_row", base, "caller_array", transient=True)
        return base[1:2]
    if kind == "strided":
        base = np.zeros(2 * len(vals), dtype=float)
        base[::2] = vals
        base[1::2] = 7.0
        return base[::2]
    if kind == "ro":
        a = np.array(vals, dtype=float)
        a.flags.writeable = False
        return a
    raise KeyError(kind)


def floats_of(x):
    """Plain list of floats of whatever container (the numbers the library actually saw)."""
    return [float(v) for v in np.asarray(x).ravel().tolist()]


def _finite_seq(x, n=None):
    """Defensive conversion of a library answer to a list of finite floats; None when malformed."""
    try:
        v = [float(t) for t in np.asarray(x, dtype=float).ravel().tolist()]
    except Exception:
        return None
    if n is not None and len(v) != n:
        return None
    if not all(math.isfinite(t) for t in v):
        return None
    return v


def _scalar(x):
    try:
        v = float(x)
    except Exception:
        return None
    return v


# =============================================================================================== AABB laws
def _gen_box(rng, d, mag, prev):
    typ = rng.choice(("regular", "regular", "regular", "point", "flat", "inverted", "touching", "nested"))
    a, b = gen_vals(rng, d, mag), gen_vals(rng, d, mag)
    lo = [min(x, y) for x, y in zip(a, b)]
    hi = [max(x, y) for x, y in zip(a, b)]
    if typ in ("touching", "nested") and prev is None:
        typ = "regular"
    if typ == "point":
        hi = list(lo)
    elif typ == "flat":
        j = rng.randrange(d)
        hi[j] = lo[j]
    elif typ == "inverted":
        j = rng.randrange(d)
        if lo[j] == hi[j]:
            hi[j] = lo[j] - 1.0
        else:
            lo[j], hi[j] = hi[j], lo[j]
    elif typ == "touching":
        plo, phi = prev
        j = rng.randrange(d)
        lo, hi = list(plo), list(phi)
        if all(math.isfinite(v) for v in plo + phi) and all(x <= y for x, y in zip(plo, phi)):
            w = phi[j] - plo[j]
            lo[j] = phi[j]                     # shares exactly one face coordinate with prev
            hi[j] = phi[j] + (abs(w) if w else 1.0)
        else:
            typ = "regular"
    elif typ == "nested":
        plo, phi = prev
        if all(math.isfinite(v) for v in plo + phi) and all(x <= y for x, y in zip(plo, phi)):
            lo = [min(max(x + 0.25 * (y - x), x), y) for x, y in zip(plo, phi)]
            hi = [min(max(x + 0.75 * (y - x), x), y) for x, y in zip(plo, phi)]
        else:
            typ = "regular"
    return typ, lo, hi


def _gen_point(rng, lo, hi, mag, where):
    d = len(lo)
    fin = all(math.isfinite(v) for v in lo + hi) and all(x <= y for x, y in zip(lo, hi))
    if not fin or where == "far":
        return gen_vals(rng, d, mag if where != "far" else "mixed")
    inside = [min(max(x + rng.random() * (y - x), x), y) for x, y in zip(lo, hi)]
    if where == "inside":
        return inside
    if where == "corner_lo":
        return list(lo)
    if where == "corner_hi":
        return list(hi)
    if where == "face":
        p = list(inside)
        for j in rng.sample(range(d), rng.randint(1, d)):
            p[j] = rng.choice((lo[j], hi[j]))
        return p
    scale = max([abs(v) for v in lo + hi] + [1e-300])
    width = max([y - x for x, y in zip(lo, hi)] + [0.0])
    step = width if width > 0 else scale
    p = list(inside)
    axes = range(d) if where == "outall" else rng.sample(range(d), rng.randint(1, d))
    for j in axes:
        delta = step * rng.choice((1e-9, 1e-3, 0.5, 1.0, 7.0, 1e6)) * (0.5 + rng.random())
        p[j] = hi[j] + delta if rng.random() < 0.5 else lo[j] - delta
        p[j] = min(max(p[j], -1e150), 1e150)   # stay inside the magnitude range of the quantifier
    return p


def _box_class(lo, hi):
    if not all(math.isfinite(v) for v in lo + hi):
        return "infinite"
    if any(x > y for x, y in zip(lo, hi)):
        return "inverted"
    if all(x == y for x, y in zip(lo, hi)):
        return "point"
    if any(x == y for x, y in zip(lo, hi)):
        return "flat"
    return "regular"


def _check_point_laws(ctx, sent, box, lo, hi, p_in, rng, sample_slot):
    """contains / project / distance on one (box, point) pair."""
    nonempty = all(x <= y for x, y in zip(lo, hi))
    pv = floats_of(p_in)
    ok_c, cont = sent.call("AABB.contains_point", box.contains_point, p_in, law_monitor="aabb")
    ok_p, proj = sent.call("AABB.project", box.project, p_in, law_monitor="aabb")
    dists = {}
    for w in NORMS:
        ok_d, dv = sent.call("AABB.distance", box.distance, p_in, w, law_monitor="aabb")
        if ok_d:
            dists[w] = _scalar(dv)
    if not nonempty:
        ctx.note("aabb:inverted_box_point_laws_not_judged")
        return
    contained = None
    if ok_c:
        try:
            contained = bool(cont)
        except Exception:
            contained = None
            ctx.violation("aabb", "contains_point", "malformed_answer", "contains_point did not return a truth value", got=repr(cont)[:80])
    pr = _finite_seq(proj, len(lo)) if ok_p else None
    if ok_p and pr is None:
        ctx.violation("aabb", "project", "malformed_answer", "project did not return a finite point of the box's dimension",
                      got=repr(proj)[:120], box={"min": lo, "max": hi}, pt=pv)
    for w, dv in dists.items():
        if dv is None or not math.isfinite(dv):
            ctx.violation("aabb", "distance_" + w, "malformed_answer", "distance is not a finite number", got=repr(dv), box={"min": lo, "max": hi}, pt=pv)
            continue
        if contained:
            ctx.check(dv == 0.0, "aabb", "contained_zero_" + w, "contained_point_at_nonzero_distance",
                      "contains_point(p) is true but distance(p, %s) != 0" % w, box={"min": lo, "max": hi}, pt=pv, distance=dv)
        if pr is not None:
            e = X.sub(pv, pr)
            ref = X.norm(e, w)
            tol = 16 * len(lo) * X.ULP * ref + (1e-153 if w == "l2" else 0.0)
            ctx.check(abs(ref - dv) <= tol, "aabb", "project_realises_" + w, "projection_does_not_realise_distance",
                      "||p - project(p)||_%s differs from distance(p, %s)" % (w, w), box={"min": lo, "max": hi}, pt=pv,
                      projection=pr, norm_of_difference=ref, distance=dv)
    if sample_slot is not None and pr is not None and not sample_slot and len(lo) <= 3 and any(v for v in dists.values()):
        sample_slot.append(True)
        ctx.sample({"law": "project(p) in closed box and ||p-project(p)||_w == distance(p,w)", "box": {"min": lo, "max": hi},
                    "p": pv, "project": pr, "distance": dists, "contains_point": contained})


def run_aabb(desc, ctx):
    from mouette.geometry import AABB
    from .. import build
    rng = random.Random(desc["seed"])
    sent = Sentinel(ctx, desc["cfg"])
    d, mag = desc["dim"], desc["mag"]
    base = dict(_evals)
    judged0 = ctx.counters.get("aabb/project_realises_l2", 0)
    boxes = []  # (box, lo, hi)
    prev = None
    sample_slot = []
    nb = max(3, desc["n"] // 8)
    for k in range(nb):
        typ, lo, hi = _gen_box(rng, d, mag, prev)
        if k == nb - 1 and not any(_box_class(l, h) == "inverted" for _, l, h in boxes):
            j = rng.randrange(d)                       # every batch owns at least one empty (inverted) box
            lo[j], hi[j] = (hi[j], lo[j]) if lo[j] != hi[j] else (lo[j] + 1.0, lo[j])
        kind = rng.choice(KINDS)
        a_lo, a_hi = as_kind(kind, lo, sent), as_kind(kind, hi, sent)
        ok, b = sent.call("AABB", AABB, a_lo, a_hi, law_monitor="aabb")
        if not ok:
            continue
        lo, hi = floats_of(a_lo), floats_of(a_hi)
        if kind in ARRAY_KINDS:
            sent.watch("lo%d" % k, a_lo, "caller_array")
            sent.watch("hi%d" % k, a_hi, "caller_array")
        sent.watch("box%d" % k, b, "sibling_box")
        boxes.append((b, lo, hi))
        prev = (lo, hi)
        ctx.cls("box:" + _box_class(lo, hi))
        ctx.cls("kind:" + kind)
    for ctor, args in (("unit_cube", (d,)), ("unit_cube", (d, True)), ("infinite", (d,))):
        if rng.random() < 0.5:
            ok, b = sent.call("AABB." + ctor, getattr(AABB, ctor), *args, law_monitor="aabb")
            if ok:
                lo, hi = floats_of(b._p1), floats_of(b._p2)
                boxes.append((b, lo, hi))
                sent.watch(ctor, b, "sibling_box")
                ctx.cls("box:" + _box_class(lo, hi))
    # point laws
    for b, lo, hi in boxes:
        for where in rng.sample(["inside", "face", "corner_lo", "corner_hi", "out1", "outall", "far"], 4):
            p = _gen_point(rng, lo, hi, mag, where)
            kind = rng.choice(KINDS + ("row_slice",))
            p_in = as_kind(kind, p, sent)
            ctx.cls("point:" + where)
            ctx.cls("point_kind:" + kind)
            _check_point_laws(ctx, sent, b, lo, hi, p_in, rng, sample_slot)
        # wrong dimension / unknown norm: must raise or not, never a side effect
        if rng.random() < 0.3:
            sent.call("AABB.project", b.project, as_kind("nd", gen_vals(rng, d + 1, "unit")), expect=(Exception,), law_monitor="aabb")
            sent.call("AABB.distance", b.distance, as_kind("nd", gen_vals(rng, d, "unit")), "l3", expect=(Exception,), law_monitor="aabb")
    # box-box laws (post-conditions on the real methods decide)
    for _ in range(desc["n"]):
        (b1, lo1, hi1), (b2, lo2, hi2) = rng.choice(boxes), rng.choice(boxes)
        op = rng.choice(("union", "intersection", "do_intersect", "or", "and"))
        if op == "union":
            sent.call("AABB.union", AABB.union, b1, b2, law_monitor="aabb")
        elif op == "intersection":
            sent.call("AABB.intersection", AABB.intersection, b1, b2, law_monitor="aabb")
        elif op == "do_intersect":
            ok, r = sent.call("AABB.do_intersect", AABB.do_intersect, b1, b2, law_monitor="aabb")
            if ok and len(lo1) <= 2 and len(ctx.samples) < 2 and rng.random() < 0.2:
                ctx.sample({"law": "do_intersect <=> componentwise overlap has extent >= 0", "b1": {"min": lo1, "max": hi1},
                            "b2": {"min": lo2, "max": hi2}, "do_intersect": bool(r)})
        elif op == "or":
            sent.call("AABB.union", lambda x, y: x | y, b1, b2, law_monitor="aabb")
        else:
            sent.call("AABB.intersection", lambda x, y: x & y, b1, b2, law_monitor="aabb")
        ctx.obs("aabb", "boxbox_" + op)
    ok, other = sent.call("AABB.unit_cube", AABB.unit_cube, d + 1, law_monitor="aabb")
    if ok and boxes:
        for f in (AABB.union, AABB.intersection, AABB.do_intersect):
            sent.call("AABB." + f.__name__, f, boxes[0][0], other, expect=(Exception,), law_monitor="aabb")
    # tight boxes of point sets
    for _ in range(3):
        n = rng.choice((1, 2, 3, 7))
        P = [gen_vals(rng, d, mag) for _ in range(n)]
        if rng.random() < 0.3 and n > 1:
            P[-1] = list(P[0])
        form = rng.choice(("lists", "tuples", "array", "vecs", "intarray", "rows"))
        if form == "lists":
            arg = [list(p) for p in P]
        elif form == "tuples":
            arg = tuple(tuple(p) for p in P)
        elif form == "array":
            arg = np.array(P, dtype=float)
        elif form == "vecs":
            arg = [as_kind("vec", p) for p in P]
        elif form == "intarray":
            arg = np.array([[int(round(min(max(v, -1e6), 1e6))) for v in p] for p in P], dtype=np.int64)
        else:
            A = np.array(P, dtype=float)
            arg = [A[i] for i in range(n)]
        ctx.cls("of_points:" + form)
        pad = rng.choice((None, 0.0, 0, 0.5))
        if pad is None:
            sent.call("AABB.of_points", AABB.of_points, arg, law_monitor="aabb")
        else:
            sent.call("AABB.of_points", AABB.of_points, arg, pad, law_monitor="aabb")
        ctx.obs("aabb", "of_points")
    if d == 3 or rng.random() < 0.4:
        nv = rng.choice((1, 3, 6))
        V = [gen_vals(rng, 3, mag) for _ in range(nv)]
        vrows = rng.choice(("list", "tuple", "nprow", "vec"))
        if nv >= 3:
            ok, m = sent.call("build.surface", build.surface, V, [[0, i, i + 1] for i in range(1, nv - 1)], vrows, "list",
                              expect=(), law_monitor="aabb")
        else:
            ok, m = sent.call("build.pointcloud", build.pointcloud, V, vrows, law_monitor="aabb")
        if ok:
            sent.watch("mesh", m, "mesh")
            sent.call("AABB.of_mesh", AABB.of_mesh, m, law_monitor="aabb")
            sent.call("AABB.of_mesh", AABB.of_mesh, m, 0.25, law_monitor="aabb")
            ctx.obs("aabb", "of_mesh")
    _flush_evals(ctx, base)
    if ctx.counters.get("aabb/project_realises_l2", 0) - judged0 >= 10:
        ctx.nontrivial(stable_hash(desc))


# =============================================================================================== cross / determinants (exact)
def _pair_kinds(rng, allow_int):
    ks = [k for k in KINDS if allow_int or k != "int"]
    return rng.choice(ks), rng.choice(ks)


def run_vec(desc, ctx):
    from mouette import geometry as G
    rng = random.Random(desc["seed"])
    sent = Sentinel(ctx, desc["cfg"])
    mag = desc["mag"]
    judged = 0
    for it in range(desc["n"] * 3):
        fn = ("cross", "det_2x2", "det_2x2c", "det_3x3m", "det_3x3v")[it % 5]
        cancel = rng.random() < 0.15
        if fn == "cross":
            a = gen_vals(rng, 3, mag)
            b = [v * (1.0 + rng.uniform(-1e-12, 1e-12)) for v in a] if cancel else gen_vals(rng, 3, mag)
            ka, kb = _pair_kinds(rng, True)
            A, B = as_kind(ka, a, sent), as_kind(kb, b, sent)
            ctx.cls("kind:" + ka)
            ok, got = sent.call("cross", G.cross, A, B, law_monitor="vec")
            if not ok:
                continue
            ex, mags, terms = X.cross_exact(floats_of(A), floats_of(B))
            if not X.in_normal_range(terms):
                ctx.note("vec:cross_outside_normal_range_not_judged")
                continue
            try:
                g = [got[0], got[1], got[2]]
                good = len(got) == 3 and all(X.close_to_exact(g[i], ex[i], mags[i]) for i in range(3))
            except Exception:
                good, g = False, repr(got)[:120]
            judged += 1
            ctx.check(good, "vec", "cross", "differs_from_exact_arithmetic",
                      "cross(A,B) differs from the exact rational value by more than 8 ulp of the sum of |terms|",
                      A=floats_of(A), B=floats_of(B), got=_finite_seq(got), exact=[float(e) for e in ex])
            if it == 0 and mag in ("int", "unit", "grid"):
                ctx.sample({"law": "cross(A,B) == exact Fraction value (8 ulp of sum|terms|)", "A": floats_of(A), "B": floats_of(B),
                            "got": _finite_seq(got), "exact": [float(e) for e in ex]})
        elif fn in ("det_2x2", "det_2x2c"):
            a = gen_vals(rng, 2, mag)
            b = [v * (1.0 + rng.uniform(-1e-12, 1e-12)) for v in a] if cancel else gen_vals(rng, 2, mag)
            if fn == "det_2x2c":
                A = complex(a[0], a[1]) if rng.random() < 0.5 else np.complex128(complex(a[0], a[1]))
                B = complex(b[0], b[1]) if rng.random() < 0.5 else as_kind(rng.choice(KINDS), b, sent)
                av = [A.real, A.imag]
                bv = [B.real, B.imag] if isinstance(B, complex) else floats_of(B)
                ctx.cls("kind:complex")
            else:
                ka, kb = _pair_kinds(rng, True)
                A, B = as_kind(ka, a, sent), as_kind(kb, b, sent)
                av, bv = floats_of(A), floats_of(B)
            ok, got = sent.call("det_2x2", G.det_2x2, A, B, law_monitor="vec")
            if not ok:
                continue
            ex, m, terms = X.det2_exact(av[0], av[1], bv[0], bv[1])
            if not X.in_normal_range(terms):
                ctx.note("vec:det_2x2_outside_normal_range_not_judged")
                continue
            judged += 1
            ctx.check(X.close_to_exact(_scalar(got), ex, m), "vec", "det_2x2", "differs_from_exact_arithmetic",
                      "det_2x2 differs from the exact rational value by more than 8 ulp of the sum of |terms|",
                      A=av, B=bv, got=_scalar(got), exact=float(ex))
        else:
            emax = 90
            rows = [gen_vals(rng, 3, mag, emax) for _ in range(3)]
            if cancel:
                rows[2] = [x + y * (1.0 + rng.uniform(-1e-12, 1e-12)) for x, y in zip(rows[0], rows[1])]
            if fn == "det_3x3m":
                dt = np.int64 if (mag in ("int",) and rng.random() < 0.5) else float
                Mx = np.array(rows, dtype=dt)
                if rng.random() < 0.3:
                    Mx = np.asfortranarray(Mx)
                if rng.random() < 0.2:
                    Mx.flags.writeable = False
                ok, got = sent.call("det_3x3", G.det_3x3, Mx, law_monitor="vec")
                seen = [[float(v) for v in r] for r in Mx.tolist()]
                ctx.cls("kind:matrix")
            else:
                ks = [rng.choice(KINDS) for _ in range(3)]
                args = [as_kind(k, r, sent) for k, r in zip(ks, rows)]
                ok, got = sent.call("det_3x3", G.det_3x3, *args, law_monitor="vec")
                seen = [floats_of(a) for a in args]
                ctx.cls("kind:" + ks[0])
            if not ok:
                continue
            ex, m, terms = X.det3_exact(seen)
            if not X.in_normal_range(terms):
                ctx.note("vec:det_3x3_outside_normal_range_not_judged")
                continue
            judged += 1
            ctx.check(X.close_to_exact(_scalar(got), ex, m), "vec", "det_3x3", "differs_from_exact_arithmetic",
                      "det_3x3 differs from the exact rational value by more than 8 ulp of the sum of |terms|",
                      rows=seen, got=_scalar(got), exact=float(ex))
    # wrong sizes: raise or not, never a side effect
    sent.call("cross", G.cross, as_kind("nd", [1.0, 2.0]), as_kind("nd", [1.0, 2.0, 3.0]), expect=(Exception,), law_monitor="vec")
    sent.call("det_3x3", G.det_3x3, np.zeros((2, 2)), expect=(Exception,), law_monitor="vec")
    if judged >= 10:
        ctx.nontrivial(stable_hash(desc))


# =============================================================================================== rotations
def _gen_angle(rng):
    r = rng.random()
    if r < 0.1:
        return 0.0
    if r < 0.2:
        return rng.choice((math.pi, -math.pi, math.pi / 2, -math.pi / 2, 2 * math.pi, math.pi / 3))
    if r < 0.3:
        return rng.choice((-1, 1)) * 10.0 ** rng.uniform(-6, -1)
    if r < 0.4:
        return rng.choice((-1, 1)) * 10.0 ** rng.uniform(1, 6)
    return rng.uniform(-7, 7)


def _angle_ok(a):
    """Away from the library's |angle| < 1e-12 identity shortcut (a threshold, not judged near it)."""
    return a == 0.0 or abs(a) >= 1e-6


def run_rot(desc, ctx):
    from mouette import geometry as G
    rng = random.Random(desc["seed"])
    sent = Sentinel(ctx, desc["cfg"])
    mag = desc["mag"]
    judged = 0
    for it in range(desc["n"]):
        a, b = _gen_angle(rng), _gen_angle(rng)
        if rng.random() < 0.1:
            b = -a
        # ---------------- rotate_2d
        v, w = gen_vals(rng, 2, mag), gen_vals(rng, 2, mag)
        kv, kw = rng.choice(KINDS), rng.choice(KINDS)
        V, W = as_kind(kv, v, sent), as_kind(kw, w, sent)
        v, w = floats_of(V), floats_of(W)
        ctx.cls("kind:" + kv)
        ang_arg = a if rng.random() < 0.7 else np.float64(a)
        ok1, rv = sent.call("rotate_2d", G.rotate_2d, V, ang_arg, law_monitor="rot")
        ok2, rw = sent.call("rotate_2d", G.rotate_2d, W, a, law_monitor="rot")
        rvf = _finite_seq(rv, 2) if ok1 else None
        rwf = _finite_seq(rw, 2) if ok2 else None
        if ok1 and rvf is None:
            ctx.violation("rot", "rotate_2d", "malformed_answer", "rotate_2d did not return a finite 2-vector", v=v, angle=a, got=repr(rv)[:100])
        if rvf is not None:
            nv = X.norm(v)
            judged += 1
            ctx.check(abs(X.norm(rvf) - nv) <= 1e-12 * nv, "rot", "rotate_2d_norm", "norm_not_preserved",
                      "rotate_2d changes the Euclidean norm", v=v, angle=a, got=rvf)
            if rwf is not None:
                nw = X.norm(w)
                ctx.check(abs(X.dist(rvf, rwf) - X.dist(v, w)) <= 1e-12 * (nv + nw), "rot", "rotate_2d_isometry", "distance_not_preserved",
                          "rotate_2d changes the distance between two points", v=v, w=w, angle=a, rv=rvf, rw=rwf)
            ok3, rr = sent.call("rotate_2d", G.rotate_2d, rv, b, law_monitor="rot")
            ok4, rs = sent.call("rotate_2d", G.rotate_2d, V, a + b, law_monitor="rot")
            rrf = _finite_seq(rr, 2) if ok3 else None
            rsf = _finite_seq(rs, 2) if ok4 else None
            if rrf is not None and rsf is not None:
                tol = (1e-12 + 8 * X.ULP * (abs(a) + abs(b))) * nv
                ctx.check(X.dist(rrf, rsf) <= tol, "rot", "rotate_2d_compose", "angles_do_not_add",
                          "rotate_2d(rotate_2d(v,a),b) differs from rotate_2d(v,a+b)", v=v, a=a, b=b, composed=rrf, direct=rsf)
                if it == 0 and mag in ("unit", "int", "grid"):
                    ctx.sample({"law": "rotate_2d(rotate_2d(v,a),b) == rotate_2d(v,a+b), norms preserved", "v": v, "a": a, "b": b,
                                "composed": rrf, "direct": rsf})
        # ---------------- rotate_around_axis
        p, q, ax = gen_vals(rng, 3, mag), gen_vals(rng, 3, mag), gen_vals(rng, 3, mag)
        if X.norm(ax) == 0.0:
            ax = [0.0, 0.0, 1.0]
        kp, kq, kx = rng.choice(KINDS), rng.choice(KINDS), rng.choice(KINDS)
        P, Q, AX = as_kind(kp, p, sent), as_kind(kq, q, sent), as_kind(kx, ax, sent)
        p, q, ax = floats_of(P), floats_of(Q), floats_of(AX)
        if X.norm(ax) == 0.0:          # integer rounding killed it
            AX = as_kind("nd", [0.0, 1.0, 0.0])
            ax = floats_of(AX)
        ctx.cls("axis_kind:" + kx)
        okp, rp = sent.call("rotate_around_axis", G.rotate_around_axis, P, AX, a, law_monitor="rot")
        okq, rq = sent.call("rotate_around_axis", G.rotate_around_axis, Q, AX, a, law_monitor="rot")
        rpf = _finite_seq(rp, 3) if okp else None
        rqf = _finite_seq(rq, 3) if okq else None
        if okp and rpf is None:
            ctx.violation("rot", "rotate_around_axis", "malformed_answer", "rotate_around_axis did not return a finite 3-vector",
                          inp=p, axis=ax, angle=a, got=repr(rp)[:100])
        if not _angle_ok(a):
            ctx.note("rot:angle_near_identity_threshold_not_judged")
            continue
        if rpf is not None:
            npn = X.norm(p)
            judged += 1
            ctx.check(abs(X.norm(rpf) - npn) <= 1e-11 * npn, "rot", "rotate_around_axis_norm", "norm_not_preserved",
                      "rotate_around_axis changes the Euclidean norm", inp=p, axis=ax, angle=a, got=rpf)
            if rqf is not None:
                ctx.check(abs(X.dist(rpf, rqf) - X.dist(p, q)) <= 1e-11 * (npn + X.norm(q)), "rot", "rotate_around_axis_isometry",
                          "distance_not_preserved", "rotate_around_axis changes the distance between two points",
                          p=p, q=q, axis=ax, angle=a, rp=rpf, rq=rqf)
        # the axis is fixed (also a multiple of it)
        t = rng.choice((1.0, -2.0, 0.5))
        on_axis = [t * c for c in ax]
        oka, ra = sent.call("rotate_around_axis", G.rotate_around_axis, as_kind("nd", on_axis), AX, a, law_monitor="rot")
        raf = _finite_seq(ra, 3) if oka else None
        if raf is not None:
            ctx.check(X.dist(raf, on_axis) <= 1e-11 * X.norm(on_axis), "rot", "rotate_around_axis_fixes_axis", "axis_moved",
                      "a point on the rotation axis is moved by rotate_around_axis", axis=ax, point=on_axis, angle=a, got=raf)
        # additive composition
        if rpf is not None and _angle_ok(b) and _angle_ok(a + b):
            okc, rc = sent.call("rotate_around_axis", G.rotate_around_axis, rp, AX, b, law_monitor="rot")
            oks, rs = sent.call("rotate_around_axis", G.rotate_around_axis, P, AX, a + b, law_monitor="rot")
            rcf = _finite_seq(rc, 3) if okc else None
            rsf = _finite_seq(rs, 3) if oks else None
            if rcf is not None and rsf is not None:
                tol = (1e-11 + 8 * X.ULP * (abs(a) + abs(b))) * X.norm(p)
                ctx.check(X.dist(rcf, rsf) <= tol, "rot", "rotate_around_axis_compose", "angles_do_not_add",
                          "rotating by a then b around the same axis differs from rotating by a+b", inp=p, axis=ax, a=a, b=b,
                          composed=rcf, direct=rsf)
    # zero axis: raises (or not) - never a side effect
    sent.call("rotate_around_axis", G.rotate_around_axis, as_kind("nd", [1.0, 2.0, 3.0]), as_kind("nd", [0.0, 0.0, 0.0]), 1.0,
              expect=(Exception,), law_monitor="rot")
    sent.call("axis_rot_from_z", G.axis_rot_from_z, as_kind("vec", gen_vals(rng, 3, "unit")), expect=(Exception,), law_monitor="rot")
    if judged >= 10:
        ctx.nontrivial(stable_hash(desc))


# =============================================================================================== angles, cotan, circumcentre
def _gen_dir(rng):
    while True:
        v = [rng.gauss(0, 1) for _ in range(3)]
        if X.norm(v) > 0.2:
            return v


def _law_scale(rng, mag):
    """Scale of a configuration for the laws whose implementation squares a cross product (|.|^4 must stay a normal double)."""
    if mag == "huge":
        return 10.0 ** rng.uniform(30, 60)
    if mag == "tiny":
        return 10.0 ** rng.uniform(-60, -30)
    if mag == "mixed":
        return 10.0 ** rng.uniform(-60, 60)
    return 1.0


def _tri_points(rng, mag, integer=False):
    """Three points B + s*u, B, B + s*w with a random apex position; returns (A,B,C)."""
    s = _law_scale(rng, mag)
    if integer:
        pts = [[float(rng.randint(-9, 9)) for _ in range(3)] for _ in range(3)]
        return pts[0], pts[1], pts[2]
    B = [s * rng.uniform(-3, 3) for _ in range(3)]
    u, w = _gen_dir(rng), _gen_dir(rng)
    r = rng.random()
    if r < 0.08:
        w = [c * 2.0 for c in u]                        # angle 0 (degenerate)
    elif r < 0.16:
        w = [-c for c in u]                             # angle pi (degenerate)
    elif r < 0.22:
        w = [0.0, 0.0, 0.0]                             # C == B
    elif r < 0.36:
        # needle / nearly flat corner: angle 1e-7 .. 1e-3 away from 0 or pi (well inside the admissible set, but badly conditioned formulas
        # such as sqrt(1 - cos^2) lose half their digits here)
        th = 10.0 ** rng.uniform(-7, -3)
        p = _gen_dir(rng)
        d = sum(a * b for a, b in zip(p, u))
        nu = math.sqrt(sum(a * a for a in u))
        p = [a - d * b / (nu * nu) for a, b in zip(p, u)]
        npn = math.sqrt(sum(a * a for a in p)) or 1.0
        sgn = 1.0 if rng.random() < 0.5 else -1.0
        w = [sgn * b + math.tan(th) * nu * a / npn for a, b in zip(p, u)]
    lu, lw = 10.0 ** rng.uniform(-2, 2), 10.0 ** rng.uniform(-2, 2)
    A = [b + s * lu * c for b, c in zip(B, u)]
    C = [b + s * lw * c for b, c in zip(B, w)]
    return A, B, C


def run_angle(desc, ctx):
    from mouette import geometry as G
    rng = random.Random(desc["seed"])
    sent = Sentinel(ctx, desc["cfg"])
    mag = desc["mag"]
    judged = 0
    for it in range(desc["n"]):
        integer = mag in ("int", "grid", "sparse")
        A, B, C = _tri_points(rng, mag, integer)
        ks = [rng.choice(KINDS) for _ in range(3)]
        a_in, b_in, c_in = (as_kind(k, p, sent) for k, p in zip(ks, (A, B, C)))
        A, B, C = floats_of(a_in), floats_of(b_in), floats_of(c_in)
        ctx.cls("kind:" + ks[0])
        BA, BC = X.sub(A, B), X.sub(C, B)          # the float differences the library forms itself
        theta = X.angle_between(BA, BC)            # None when an arm is the zero vector
        # ---------------- angle_3pts: range everywhere, symmetry
        ok1, t1 = sent.call("angle_3pts", G.angle_3pts, a_in, b_in, c_in, law_monitor="angle")
        ok2, t2 = sent.call("angle_3pts", G.angle_3pts, c_in, b_in, a_in, law_monitor="angle")
        t1 = _scalar(t1) if ok1 else None
        t2 = _scalar(t2) if ok2 else None
        if ok1:
            judged += 1
            ctx.check(t1 is not None and 0.0 <= t1 <= math.pi, "angle", "angle_3pts_range", "outside_0_pi",
                      "angle_3pts is not in [0, pi]", A=A, B=B, C=C, got=t1)
        if t1 is not None and t2 is not None:
            ctx.check(abs(t1 - t2) <= 1e-12, "angle", "angle_3pts_symmetric", "not_symmetric_in_end_points",
                      "angle_3pts(A,B,C) != angle_3pts(C,B,A)", A=A, B=B, C=C, abc=t1, cba=t2)
        well = theta is not None and 1e-3 <= theta <= math.pi - 1e-3
        thin = theta is not None and not well and 1e-7 <= min(theta, math.pi - theta) and mag not in ("huge", "tiny", "mixed")
        ctx.cls("angle:" + ("generic" if well else ("thin" if thin else "degenerate")))
        if thin:
            # thin corner: cotan and angle_3pts must still agree, to the relative accuracy the conditioning 1/theta allows
            okt, ctt = sent.call("cotan", G.cotan, a_in, b_in, c_in, expect=(Exception,), law_monitor="angle")
            if okt and t1 is not None and t1 > 0:
                ctv = _scalar(ctt)
                dist = min(t1, math.pi - t1)
                if ctv is not None and math.isfinite(ctv) and dist > 0:
                    ang = math.atan2(1.0, ctv)
                    ang_d = ang if t1 < 1 else math.pi - ang
                    rel = abs(ang_d - dist) / dist
                    ctx.check(rel <= 1e5 * 2.3e-16 / dist + 1e-12, "angle", "cotan_thin", "not_reciprocal_tangent_of_angle_3pts_on_thin_corner",
                              "on a thin (but non-degenerate) corner cotan(A,B,C) is not 1/tan(angle_3pts(A,B,C)) to the accuracy its conditioning allows",
                              A=A, B=B, C=C, cotan=ctv, angle_3pts=t1, relative_error=rel)
        # ---------------- cotan == 1/tan(angle_3pts)
        okc, ct = sent.call("cotan", G.cotan, a_in, b_in, c_in, expect=() if well else (Exception,), law_monitor="angle")
        if well and okc and t1 is not None:
            ctv = _scalar(ct)
            good = ctv is not None and math.isfinite(ctv) and abs(math.atan2(1.0, ctv) - t1) <= 1e-9
            ctx.check(good, "angle", "cotan", "not_reciprocal_tangent_of_angle_3pts",
                      "cotan(A,B,C) is not 1/tan(angle_3pts(A,B,C)) (compared as angles: atan2(1,cot) vs angle)", A=A, B=B, C=C,
                      cotan=ctv, angle_3pts=t1)
            if it == 0 and mag in ("unit", "int"):
                ctx.sample({"law": "cotan(A,B,C) * tan(angle_3pts(A,B,C)) == 1; angle in [0,pi]; symmetric", "A": A, "B": B, "C": C,
                            "cotan": ctv, "angle_3pts": t1, "angle_3pts_reversed": t2})
        # ---------------- signed angles: antisymmetric away from the degenerate set
        N = _gen_dir(rng)
        n_in = as_kind(rng.choice(KINDS), N, sent)
        N = floats_of(n_in)
        S = X.cross_f(X.unit(BA), X.unit(BC)) if theta is not None else None
        sgn_ok = False
        if well and S is not None and X.norm(N) > 0:
            sgn_ok = abs(X.dot(S, X.unit(N))) >= 1e-6 * X.norm(S) and X.norm(S) >= 1e-6
        v1 = as_kind(rng.choice(KINDS), BA, sent)
        v2 = as_kind(rng.choice(KINDS), BC, sent)
        if floats_of(v1) == BA and floats_of(v2) == BC:
            o1, s12 = sent.call("signed_angle_2vec3D", G.signed_angle_2vec3D, v1, v2, n_in, law_monitor="angle")
            o2, s21 = sent.call("signed_angle_2vec3D", G.signed_angle_2vec3D, v2, v1, n_in, law_monitor="angle")
            if o1 and o2 and sgn_ok:
                x, y = _scalar(s12), _scalar(s21)
                good = x is not None and y is not None and math.isfinite(x) and math.isfinite(y) and X.mod_2pi_residual(x + y) <= 1e-9
                ctx.check(good, "angle", "signed_2vec3D", "not_antisymmetric",
                          "signed_angle_2vec3D(V1,V2,N) + signed_angle_2vec3D(V2,V1,N) is not 0 mod 2pi", V1=BA, V2=BC, N=N, v12=x, v21=y)
        ka = [rng.choice(ARRAY_KINDS) for _ in range(3)]
        a2, b2, c2 = (as_kind(k, p, sent) for k, p in zip(ka, (A, B, C)))
        if floats_of(a2) == A and floats_of(b2) == B and floats_of(c2) == C:
            o1, s12 = sent.call("signed_angle_3pts", G.signed_angle_3pts, a2, b2, c2, n_in, law_monitor="angle")
            o2, s21 = sent.call("signed_angle_3pts", G.signed_angle_3pts, c2, b2, a2, n_in, law_monitor="angle")
            if o1 and o2 and sgn_ok:
                x, y = _scalar(s12), _scalar(s21)
                good = x is not None and y is not None and math.isfinite(x) and math.isfinite(y) and X.mod_2pi_residual(x + y) <= 1e-9
                ctx.check(good, "angle", "signed_3pts", "not_antisymmetric",
                          "signed_angle_3pts(A,B,C,N) + signed_angle_3pts(C,B,A,N) is not 0 mod 2pi", A=A, B=B, C=C, N=N, abc=x, cba=y)
        p2, q2 = gen_vals(rng, 2, mag), gen_vals(rng, 2, mag)
        P2, Q2 = as_kind(rng.choice(KINDS), p2, sent), as_kind(rng.choice(KINDS), q2, sent)
        o1, s12 = sent.call("angle_2vec2D", G.angle_2vec2D, P2, Q2, law_monitor="angle")
        o2, s21 = sent.call("angle_2vec2D", G.angle_2vec2D, Q2, P2, law_monitor="angle")
        if o1 and o2:
            x, y = _scalar(s12), _scalar(s21)
            good = x is not None and y is not None and X.mod_2pi_residual(x + y) <= 1e-9
            ctx.check(good, "angle", "signed_2vec2D", "not_antisymmetric",
                      "angle_2vec2D(V1,V2) + angle_2vec2D(V2,V1) is not 0 mod 2pi", V1=floats_of(P2), V2=floats_of(Q2), v12=x, v21=y)
        # ---------------- circumcentre: equidistant on certified well-shaped triangles
        _circumcenter_law(ctx, sent, G, rng, mag, it)
    if judged >= 10:
        ctx.nontrivial(stable_hash(desc))


def _circumcenter_law(ctx, sent, G, rng, mag, it):
    """Triangle with all angles >= 0.1 rad, centred within 100 edge lengths of the origin, at a scale s."""
    s = {"unit": 1.0, "int": 1.0, "grid": 1.0, "sparse": 1.0}.get(mag)
    if s is None:
        s = 10.0 ** (rng.uniform(-150, -20) if mag == "tiny" else rng.uniform(20, 149) if mag == "huge" else rng.uniform(-149, 149))
    elif rng.random() < 0.5:
        s = 10.0 ** rng.uniform(-9, 9)
    for _ in range(20):
        O = [rng.uniform(-100, 100) if rng.random() < 0.7 else 0.0 for _ in range(3)]
        tri = [[O[j] + rng.uniform(-1, 1) for j in range(3)] for _ in range(3)]
        angs = [X.angle_between(X.sub(tri[(i + 1) % 3], tri[i]), X.sub(tri[(i + 2) % 3], tri[i])) for i in range(3)]
        edges = [X.dist(tri[i], tri[(i + 1) % 3]) for i in range(3)]
        if all(a is not None and a >= 0.1 for a in angs) and min(edges) >= 0.2:
            break
    else:
        return
    ks = [rng.choice(ARRAY_KINDS[:2] + ARRAY_KINDS[3:]) for _ in range(3)]      # float containers (int rounding would reshape the triangle)
    args = [as_kind(k, [s * c for c in p], sent) for k, p in zip(ks, tri)]
    pts = [floats_of(a) for a in args]
    ctx.cls("circumcenter_scale:1e%+04d" % (30 * round(math.log10(s) / 30)))
    ok, c = sent.call("circumcenter", G.circumcenter, *args, expect=(AttributeError,), law_monitor="angle")
    if not ok:
        if isinstance(c, AttributeError):
            ctx.check(False, "angle", "circumcenter", "no_circumcentre_for_wellshaped_triangle",
                      "circumcenter raised AttributeError (intersect_2lines2D answered None: absolute parallelism threshold) on a "
                      "triangle whose angles are all >= 0.1 rad", triangle=pts, scale=s, error=str(c)[:120])
        return
    cf = _finite_seq(c, 3)
    if cf is None:
        ctx.check(False, "angle", "circumcenter", "malformed_answer", "circumcenter did not return a finite 3-vector", triangle=pts, got=repr(c)[:100])
        return
    dists = [X.dist(cf, p) for p in pts]
    size = max(max(abs(v) for v in p) for p in pts)
    tol = 1e-8 * max(size, max(dists))
    ctx.check(max(dists) - min(dists) <= tol, "angle", "circumcenter", "not_equidistant",
              "the circumcentre is not at equal distance from the three vertices", triangle=pts, centre=cf, distances=dists)
    # observation only (the statement fixes equidistance, not coplanarity)
    n = X.cross_f(X.unit(X.sub(pts[1], pts[0])), X.unit(X.sub(pts[2], pts[0])))
    off = abs(X.dot(X.unit(n), X.sub(cf, pts[0])))
    if off > 1e-6 * max(size, max(dists)):
        ctx.note("angle:circumcenter_outside_triangle_plane(observation)")


# =============================================================================================== angle reduction, n-th roots
def _gen_real_angle(rng, mag):
    r = rng.random()
    if r < 0.15:
        k = rng.randint(-6, 6)
        return k * math.pi + rng.choice((0.0, 0.0, 1e-16, -1e-16, 4e-16, -4e-16))
    if r < 0.25:
        return rng.choice((0.0, -0.0, 1e-20, -1e-20, 5e-324, -5e-324, 2 * math.pi, -2 * math.pi))
    if r < 0.45:
        return rng.uniform(-1e6, 1e6)
    if r < 0.6:
        return _expo(rng, -150, 150) if mag in ("mixed", "huge", "tiny") else rng.uniform(-1e3, 1e3)
    return rng.uniform(-20, 20)


def _as_number(rng, x):
    r = rng.random()
    if r < 0.6:
        return x
    if r < 0.9:
        return np.float64(x)
    return int(x) if abs(x) < 1e15 else x


def run_maths(desc, ctx):
    from mouette.utils import maths as MM
    rng = random.Random(desc["seed"])
    sent = Sentinel(ctx, desc["cfg"])
    mag = desc["mag"]
    judged = 0
    two_pi = 2 * math.pi
    for it in range(desc["n"] * 2):
        a = _as_number(rng, _gen_real_angle(rng, mag))
        ok, r = sent.call("principal_angle", MM.principal_angle, a, law_monitor="maths")
        if ok:
            rv = _scalar(r)
            judged += 1
            ctx.check(rv is not None and -math.pi <= rv <= math.pi, "maths", "principal_angle_range", "outside_minus_pi_pi",
                      "principal_angle(a) is not in [-pi, pi]", a=float(a), got=rv)
            if rv is not None and abs(float(a)) <= 1e6:
                tol = 1e-12 + 1e-13 * abs(float(a))
                ctx.check(X.mod_2pi_residual(rv - float(a)) <= tol, "maths", "principal_angle_congruent", "not_congruent_mod_2pi",
                          "principal_angle(a) - a is not a multiple of 2*pi", a=float(a), got=rv)
                if it == 0:
                    ctx.sample({"law": "principal_angle(a) in [-pi,pi] and == a mod 2pi", "a": float(a), "principal_angle": rv})
        b = _as_number(rng, _gen_real_angle(rng, mag))
        ok, r = sent.call("angle_diff", MM.angle_diff, a, b, law_monitor="maths")
        if ok:
            rv = _scalar(r)
            ctx.check(rv is not None and -math.pi <= rv <= math.pi, "maths", "angle_diff_range", "outside_minus_pi_pi",
                      "angle_diff(a,b) is not in [-pi, pi]", a=float(a), b=float(b), got=rv)
            if rv is not None and abs(float(a)) <= 1e6 and abs(float(b)) <= 1e6:
                tol = 1e-12 + 1e-13 * (abs(float(a)) + abs(float(b)))
                ctx.check(X.mod_2pi_residual(rv - (float(a) - float(b))) <= tol, "maths", "angle_diff_congruent", "not_congruent_mod_2pi",
                          "angle_diff(a,b) - (a-b) is not a multiple of 2*pi", a=float(a), b=float(b), got=rv)
        # ---------------- roots
        n = rng.choice((1, 2, 3, 4, 5, 6, 7, 8, 12, 17, 32))
        form = rng.choice(("complex", "npcomplex", "real", "negreal", "int", "imag"))
        if mag in ("mixed", "huge", "tiny"):
            re, im = gen_vals(rng, 2, mag)
        else:
            re, im = rng.uniform(-2, 2), rng.uniform(-2, 2)
        if form == "complex":
            c = complex(re, im)
        elif form == "npcomplex":
            c = np.complex128(complex(re, im))
        elif form == "real":
            c = abs(re)
        elif form == "negreal":
            c = -abs(re)
        elif form == "int":
            c = rng.choice((1, -1, 2, -3, 7))
        else:
            c = complex(0.0, im)
        ctx.cls("roots:" + form)
        cc = complex(c)
        ok, rs = sent.call("roots", MM.roots, c, n, law_monitor="maths")
        if ok and abs(cc) > 0 and math.isfinite(abs(cc)):
            unit = cc / abs(cc)
            try:
                vals = [complex(r) for r in rs]
            except Exception:
                vals = None
            if vals is None or len(vals) != n:
                ctx.check(False, "maths", "roots", "not_n_roots", "roots(c,n) did not return n complex numbers", c=[cc.real, cc.imag], n=n,
                          got=repr(rs)[:200])
                continue
            worst = max(abs(v ** n - unit) for v in vals)
            ctx.check(worst <= 1e-12 * (1 + n), "maths", "roots", "root_to_the_n_is_not_unit_input",
                      "a root raised to the n-th power differs from c/|c|", c=[cc.real, cc.imag], n=n, worst=worst,
                      roots=[[v.real, v.imag] for v in vals][:8])
            if n >= 2:
                sep = min(abs(vals[i] - vals[j]) for i in range(n) for j in range(i))
                ctx.check(sep >= math.sin(math.pi / n), "maths", "roots_distinct", "roots_not_distinct",
                          "the n n-th roots are not pairwise distinct", c=[cc.real, cc.imag], n=n, min_separation=sep)
        # the documented option normalize=False: the roots keep the modulus |c|**(1/n), so raised to n they give back c itself
        if ok and 1e-6 <= abs(cc) <= 1e6:
            ok2, rs2 = sent.call("roots", MM.roots, c, n, rng.choice((False, 0)) if it % 2 else False, law_monitor="maths") if it % 3 else \
                sent.call("roots", lambda a, b: MM.roots(a, b, normalize=False), c, n, law_monitor="maths")
            if ok2:
                try:
                    vals2 = [complex(r) for r in rs2]
                except Exception:
                    vals2 = None
                if vals2 is None or len(vals2) != n:
                    ctx.check(False, "maths", "roots", "not_n_roots", "roots(c,n,normalize=False) did not return n complex numbers", n=n, got=repr(rs2)[:200])
                else:
                    worst2 = max(abs(v ** n - cc) for v in vals2) / abs(cc)
                    ctx.check(worst2 <= 1e-12 * (1 + n), "maths", "roots", "unnormalised_root_to_the_n_is_not_the_input",
                              "with normalize=False a root raised to the n-th power differs from c", c=[cc.real, cc.imag], n=n, worst=worst2)
        # other entry points of the module: side effects only
        if it % 5 == 0:
            sent.call("roots", MM.roots, c, n, False, expect=(Exception,), law_monitor="maths")
            sent.call("roots", MM.roots, 0j, rng.choice((0, 3)), expect=(Exception,), law_monitor="maths")
            sent.call("solve_quadratic", MM.solve_quadratic, rng.uniform(-1, 1), rng.uniform(-2, 2), rng.uniform(-1, 1), expect=(Exception,),
                      law_monitor="maths")
    if judged >= 10:
        ctx.nontrivial(stable_hash(desc))


# =============================================================================================== call sequences (side effects only)
def _build_mesh(ctx, sent, rng, kind):
    from .. import build
    nv = rng.choice((4, 5, 7))
    V = [[rng.uniform(-2, 2) for _ in range(3)] for _ in range(nv)]
    vrows = rng.choice(("list", "tuple", "nprow", "vec"))
    irows = rng.choice(("list", "tuple", "npint"))
    if kind == "surface":
        ok, m = sent.call("build.surface", build.surface, V, [[0, i, i + 1] for i in range(1, nv - 1)], vrows, irows, law_monitor="seq")
    elif kind == "polyline":
        ok, m = sent.call("build.polyline", build.polyline, V, [[i, i + 1] for i in range(nv - 1)], vrows, irows, law_monitor="seq")
    elif kind == "volume":
        cells = [[0, 1, 2, 3]] + ([[1, 2, 3, 4]] if nv > 4 else [])
        ok, m = sent.call("build.volume", build.volume, V, cells, vrows, irows, law_monitor="seq")
    else:
        ok, m = sent.call("build.pointcloud", build.pointcloud, V, vrows, law_monitor="seq")
    if not ok:
        return None
    try:
        w = m.vertices.create_attribute("w", float)
        w[0] = 1.5
        w[nv - 1] = -2.0
        if hasattr(m, "faces") and len(m.faces):
            t = m.faces.create_attribute("tag", int)
            t[0] = 7
        if hasattr(m, "edges") and len(m.edges):
            h = m.edges.create_attribute("flag", bool, dense=True)
            h[0] = True
    except Exception:
        pass
    return m


def _fmt(x):
    if isinstance(x, np.ndarray):
        return "%s%s" % ("Vec" if type(x).__name__ == "Vec" else "array", np.asarray(x).round(4).tolist())
    if isinstance(x, float):
        return "%.4g" % x
    return repr(x)[:60]


class _SeqEnv:
    def __init__(self, ctx, sent, rng, d, mesh_kind, tmp):
        self.ctx, self.sent, self.rng, self.d, self.tmp = ctx, sent, rng, d, tmp
        self.arrays = {}      # name -> caller-owned d-dimensional array (registered bystander)
        self.pairs = []       # (lo_name, hi_name)
        self.boxes = {}       # name -> box
        self.log = []
        self.raised_then_ok = False
        self._pending_raise = False
        self.n_files = 0
        self.mesh = _build_mesh(ctx, sent, rng, mesh_kind)
        if self.mesh is not None:
            sent.watch("mesh", self.mesh, "mesh")
        for k in range(2):
            self.new_pair()

    # ---- environment ----
    def new_pair(self):
        from mouette import Vec
        rng, d = self.rng, self.d
        a = [rng.uniform(-3, 3) for _ in range(d)]
        b = [rng.uniform(-3, 3) for _ in range(d)]
        lo = [min(x, y) for x, y in zip(a, b)]
        hi = [max(x, y) for x, y in zip(a, b)]
        k = len(self.pairs)
        how = rng.choice(("nd", "vec", "rows", "int"))
        if how == "nd":
            L, H = np.array(lo), np.array(hi)
        elif how == "vec":
            L, H = Vec(np.array(lo)), Vec(np.array(hi))
        elif how == "int":
            L, H = np.array([int(math.floor(v)) for v in lo], dtype=np.int64), np.array([int(math.ceil(v)) for v in hi], dtype=np.int64)
        else:
            base = np.array([lo, hi])
            self.sent.watch("corners%d" % k, base, "caller_array")
            L, H = base[0], base[1]
        self.arrays["lo%d" % k], self.arrays["hi%d" % k] = L, H
        self.sent.watch("lo%d" % k, L, "caller_array")
        self.sent.watch("hi%d" % k, H, "caller_array")
        self.pairs.append(("lo%d" % k, "hi%d" % k))

    def add_box(self, b):
        name = "b%d" % len(self.boxes)
        self.boxes[name] = b
        self.sent.watch(name, b, "sibling_box")
        return name

    def point(self, dim=None, zero=False):
        rng = self.rng
        d = self.d if dim is None else dim
        vals = [0.0] * d if zero else [rng.uniform(-4, 4) for _ in range(d)]
        return as_kind(rng.choice(KINDS), vals, self.sent)

    def do(self, text, site, fn, *args, modifies=(), **kw):
        ok, val = self.sent.call(site, fn, *args, expect=(Exception,), modifies=modifies, law_monitor="seq", **kw)
        self.ctx.obs("seq", "steps")
        self.ctx.cls("op:" + site)
        if ok:
            if self._pending_raise:
                self.raised_then_ok = True
            self.log.append(text)
        else:
            self._pending_raise = True
            self.ctx.obs("seq", "raising_steps")
            self.log.append("%s  -> raises %s" % (text, type(val).__name__))
        return ok, val


def _seq_step(env):
    from mouette import geometry as G, Vec
    from mouette.geometry import AABB
    from mouette.utils import maths as MM
    import mouette.mesh as Mmesh
    rng, d = env.rng, env.d
    r = rng.random()
    boxes = list(env.boxes.items())
    if r < 0.14 or not boxes:                                   # ---- construct (shared arrays => siblings)
        c = rng.random()
        if c < 0.55:
            lo, hi = rng.choice(env.pairs)
            ok, b = env.do("AABB(%s, %s)" % (lo, hi), "AABB", AABB, env.arrays[lo], env.arrays[hi])
        elif c < 0.65:
            lo, hi = [rng.uniform(-3, 0) for _ in range(d)], [rng.uniform(0, 3) for _ in range(d)]
            ok, b = env.do("AABB(list, list)", "AABB", AABB, lo, hi)
        elif c < 0.75 and env.mesh is not None and d == 3:
            n = len(env.mesh.vertices)
            i, j = rng.randrange(n), rng.randrange(n)
            ok, b = env.do("AABB(mesh.vertices[%d], mesh.vertices[%d])" % (i, j), "AABB", AABB, env.mesh.vertices[i], env.mesh.vertices[j])
        elif c < 0.85 and env.mesh is not None:
            pad = rng.choice((None, 0.0, 0.5))
            ok, b = env.do("AABB.of_mesh(mesh%s)" % ("" if pad is None else ", %s" % pad), "AABB.of_mesh", AABB.of_mesh, env.mesh,
                           *(() if pad is None else (pad,)))
        elif c < 0.93:
            names = [n for p in env.pairs for n in p]
            pts = [env.arrays[n] for n in names]
            arg = pts if rng.random() < 0.5 else np.array([floats_of(p) for p in pts])
            ok, b = env.do("AABB.of_points([%s])" % ", ".join(names), "AABB.of_points", AABB.of_points, arg, rng.choice((0.0, 0.25)))
        elif c < 0.97:
            ok, b = env.do("AABB(lo, hi-of-other-dimension)", "AABB", AABB, env.arrays[env.pairs[0][0]], np.zeros(d + 1))
        else:
            env.new_pair()
            return
        if ok:
            env.add_box(b)
        return
    name, box = rng.choice(boxes)
    if r < 0.30:                                                # ---- pad (documented to modify the box itself only)
        c = rng.random()
        if c < 0.35:
            pad = rng.choice((0.5, 0.25, 2.0, 1e-3))
        elif c < 0.45:
            pad = -1.0
        elif c < 0.7:
            pad = as_kind(rng.choice(KINDS), [rng.uniform(-0.5, 1.0) for _ in range(box.dim)], env.sent)
        elif c < 0.8:
            pad = [0.5] * (box.dim + 1)                          # wrong dimension: raises
        elif c < 0.9:
            pad = 1                                              # int scalar: not a float -> Vec(1) has size 1
        else:
            pad = "wide"
        env.do("%s.pad(%s)" % (name, _fmt(pad)), "AABB.pad", box.pad, pad, modifies=(box,))
    elif r < 0.45:                                              # ---- point queries
        q = rng.choice(("contains_point", "project", "distance", "distance_bad_norm", "wrong_dim"))
        if q == "wrong_dim":
            p = env.point(box.dim + rng.choice((-1, 1)) if box.dim > 1 else 2)
            env.do("%s.project(%s)" % (name, _fmt(p)), "AABB.project", box.project, p)
        elif q == "distance_bad_norm":
            p = env.point(box.dim)
            env.do("%s.distance(%s, 'l3')" % (name, _fmt(p)), "AABB.distance", box.distance, p, rng.choice(("l3", 2, None)))
        elif q == "distance":
            p = env.point(box.dim)
            w = rng.choice(NORMS)
            env.do("%s.distance(%s, %r)" % (name, _fmt(p), w), "AABB.distance", box.distance, p, w)
        else:
            p = env.point(box.dim) if rng.random() < 0.7 else env.arrays[rng.choice(env.pairs)[0]]
            env.do("%s.%s(%s)" % (name, q, _fmt(p)), "AABB." + q, getattr(box, q), p)
    elif r < 0.55:                                              # ---- box-box
        n2, b2 = rng.choice(boxes)
        if rng.random() < 0.15:
            n2, b2 = "unit_cube(%d)" % (box.dim + 1), AABB.unit_cube(box.dim + 1)
        if rng.random() < 0.3 and not box.is_empty():
            # nested operands: the first box inside the second (a cell clipped against its domain), or the box with itself
            if rng.random() < 0.5:
                n2, b2 = "enlarged(%s)" % name, AABB(np.asarray(box.mini, float) - rng.uniform(0.0, 2.0), np.asarray(box.maxi, float) + rng.uniform(0.0, 2.0))
            else:
                n2, b2 = name, box
        op = rng.choice(("union", "intersection", "do_intersect", "or", "and"))
        if op == "or":
            ok, res = env.do("%s | %s" % (name, n2), "AABB.union", lambda x, y: x | y, box, b2)
        elif op == "and":
            ok, res = env.do("%s & %s" % (name, n2), "AABB.intersection", lambda x, y: x & y, box, b2)
        else:
            ok, res = env.do("AABB.%s(%s, %s)" % (op, name, n2), "AABB." + op, getattr(AABB, op), box, b2)
        if ok and op != "do_intersect":
            # the result is a new box: handing back one of the operands would let a later pad() of the result change that operand
            env.ctx.check(res is not box and res is not b2, "args", "AABB." + ("union" if op in ("union", "or") else "intersection"), "result_is_one_of_the_operands",
                          "the box returned by a union / intersection is the very object of an operand (padding the result would change the operand)",
                          operands_nested=True)
        if ok and op != "do_intersect" and rng.random() < 0.5:
            env.add_box(res)
    elif r < 0.60:                                              # ---- read-only properties
        prop = rng.choice(("center", "span", "is_empty", "repr", "dim", "mini"))
        if prop == "repr":
            env.do("repr(%s)" % name, "AABB.__repr__", repr, box)
        elif prop == "is_empty":
            env.do("%s.is_empty()" % name, "AABB.is_empty", box.is_empty)
        else:
            env.do("%s.%s" % (name, prop), "AABB." + prop, lambda b=box, p=prop: getattr(b, p))
    elif r < 0.72:                                              # ---- Vec.normalized / normalize
        c = rng.random()
        if c < 0.3:
            v = as_kind(rng.choice(ARRAY_KINDS), [0.0] * rng.choice((2, 3)), env.sent)      # zero vector: raises
        elif c < 0.4:
            v = env.arrays[rng.choice(env.pairs)[rng.randrange(2)]]
        else:
            v = as_kind(rng.choice(ARRAY_KINDS), [rng.uniform(-2, 2) for _ in range(rng.choice((2, 3, 5)))], env.sent)
        which = rng.choice(("l2", "l2", "l1", "linf", "l7"))
        if rng.random() < 0.15:
            fresh = Vec(np.array(floats_of(v)))
            env.do("Vec%s.normalize(%r)" % (floats_of(v), which), "Vec.normalize", fresh.normalize, which, modifies=(fresh,))
        elif which == "l2" and rng.random() < 0.5:
            env.do("Vec.normalized(%s)" % _fmt(v), "Vec.normalized", Vec.normalized, v)
        else:
            env.do("Vec.normalized(%s, %r)" % (_fmt(v), which), "Vec.normalized", Vec.normalized, v, which)
    elif r < 0.86:                                              # ---- 3-D primitives, degenerate inputs included
        def p3(deg=False):
            vals = [0.0, 0.0, 0.0] if deg else [rng.uniform(-2, 2) for _ in range(3)]
            return as_kind(rng.choice(ARRAY_KINDS), vals, env.sent)
        A, B, C = p3(), p3(), p3()
        deg = rng.random() < 0.35
        if deg:
            C = as_kind("nd", [2 * x - y for x, y in zip(floats_of(B), floats_of(A))])     # collinear A, B, C
            if rng.random() < 0.4:
                C = as_kind("vec", floats_of(B))                                          # C == B
        f = rng.choice(("cotan", "angle_3pts", "circumcenter", "face_basis", "triangle_area", "aspect_ratio", "quad_area", "cross_short",
                        "det_3x3_bad", "norm_bad", "signed_angle_3pts", "signed_angle_2vec3D", "angle_2vec3D", "intersect_2lines2D",
                        "distance_to_segment2D", "project_to_plane", "distance", "dot", "cross", "det_2x2", "triangle_area_2D"))
        ctxs = "degenerate " if deg else ""
        if f in ("cotan", "angle_3pts", "circumcenter", "face_basis", "triangle_area", "aspect_ratio", "triangle_area_2D"):
            env.do("%s(%s%s, %s, %s)" % (f, ctxs, _fmt(A), _fmt(B), _fmt(C)), f, getattr(G, f), A, B, C)
        elif f == "quad_area":
            env.do("quad_area(A,B,C,D)", f, G.quad_area, A, B, C, p3())
        elif f == "cross_short":
            env.do("cross(2-vector, 3-vector)", "cross", G.cross, as_kind("nd", [1.0, 2.0]), B)
        elif f == "det_3x3_bad":
            env.do("det_3x3(2x2 matrix)", "det_3x3", G.det_3x3, np.eye(2))
        elif f == "norm_bad":
            env.do("norm(A, 'l5')", "norm", G.norm, A, "l5")
        elif f == "signed_angle_3pts":
            env.do("signed_angle_3pts(A,B,C,N)", f, G.signed_angle_3pts, A, B, C, p3(deg))
        elif f == "signed_angle_2vec3D":
            env.do("signed_angle_2vec3D(A,B,N)", f, G.signed_angle_2vec3D, A, B, p3(deg))
        elif f == "intersect_2lines2D":
            d2 = as_kind("vec", [2 * v for v in floats_of(B)]) if deg else C
            env.do("intersect_2lines2D(A, B, C, %s)" % ("parallel" if deg else "D"), f, G.intersect_2lines2D, Vec(A), Vec(B), Vec(C), Vec(d2))
        elif f == "distance_to_segment2D":
            env.do("distance_to_segment2D(A,B,%s)" % ("B" if deg else "C"), f, G.distance_to_segment2D, A, B, B if deg else C)
        elif f == "project_to_plane":
            env.do("project_to_plane(A, N%s, C)" % ("=0" if deg else ""), f, G.project_to_plane, A, p3(deg), C)
        elif f == "det_2x2":
            env.do("det_2x2(A,B)", f, G.det_2x2, A, B)
        else:
            env.do("%s(A,B)" % f, f, getattr(G, f), A, B)
    elif r < 0.92:                                              # ---- rotations
        v = as_kind(rng.choice(KINDS), [rng.uniform(-2, 2) for _ in range(3)], env.sent)
        c = rng.random()
        if c < 0.3:
            env.do("rotate_2d(v, a)", "rotate_2d", G.rotate_2d, as_kind(rng.choice(KINDS), [1.0, 2.0], env.sent), rng.uniform(-7, 7))
        elif c < 0.55:
            env.do("rotate_around_axis(v, zero axis, a)", "rotate_around_axis", G.rotate_around_axis, v, as_kind("nd", [0.0, 0.0, 0.0]), 1.0)
        elif c < 0.85:
            ax = as_kind(rng.choice(KINDS), [rng.uniform(-2, 2) for _ in range(3)], env.sent)
            env.do("rotate_around_axis(v, axis, a)", "rotate_around_axis", G.rotate_around_axis, v, ax, rng.choice((0.0, 1.0, -2.5)))
        else:
            env.do("axis_rot_from_z(v)", "axis_rot_from_z", G.axis_rot_from_z, Vec(np.array(floats_of(v))))
    elif r < 0.95:                                              # ---- scalar maths
        c = rng.random()
        if c < 0.4:
            env.do("roots(c, n)", "roots", MM.roots, complex(rng.uniform(-1, 1), rng.uniform(-1, 1)), rng.choice((0, 1, 3, 4, -2)))
        elif c < 0.6:
            env.do("principal_angle(a)", "principal_angle", MM.principal_angle, rng.uniform(-50, 50))
        elif c < 0.8:
            env.do("angle_diff(a, b)", "angle_diff", MM.angle_diff, rng.uniform(-50, 50), np.float64(rng.uniform(-50, 50)))
        else:
            env.do("solve_quadratic(A,B,C)", "solve_quadratic", MM.solve_quadratic, rng.choice((0.0, 1.0)), rng.uniform(-2, 2), rng.uniform(-1, 1))
    elif env.mesh is not None:                                  # ---- save with ignored elements (the mesh is an input)
        kind = type(env.mesh).__name__
        exts = ["obj", "mesh", "off", "ply", "xyz", "tet", "nope"]
        if kind != "VolumeMesh":
            exts.append("geogram_ascii")
        ext = rng.choice(exts)
        ign = rng.choice((None, set(), {"edges"}, {"faces"}, {"cells"}, {"edges", "faces"}, {"faces", "cells"}, {"edges", "faces", "cells"}))
        env.n_files += 1
        path = os.path.join(env.tmp, "m%d.%s" % (env.n_files, ext))
        txt = "save(mesh, 'm.%s'%s)" % (ext, "" if ign is None else ", ignore_elements=%s" % sorted(ign))
        if ign is None:
            env.do(txt, "mesh.save", Mmesh.save, env.mesh, path)
        else:
            env.do(txt, "mesh.save", Mmesh.save, env.mesh, path, ignore_elements=ign)


def run_seq(desc, ctx):
    base = dict(_evals)
    tmp = _scratch()
    lens = [3, 4, 6, 8, 12, 16]
    try:
        for rep in range(int(desc.get("reps", 1))):
            seed = desc["seed"] if rep == 0 else (desc["seed"] * 31 + rep * 7919) & 0x7FFFFFFF
            length = desc["len"] if rep == 0 else lens[(desc["len"] + rep) % len(lens)]
            rng = random.Random(seed)
            sent = Sentinel(ctx, desc["cfg"] if rep == 0 else CFGS[(CFGS.index(desc["cfg"]) + rep) % len(CFGS)])
            env = _SeqEnv(ctx, sent, rng, desc["dim"], desc["mesh"], tmp)
            for _ in range(length):
                _seq_step(env)
            ctx.obs("seq", "sequences")
            if env.raised_then_ok:
                ctx.nontrivial(stable_hash([desc, rep]))
                ctx.obs("seq", "raise_then_return")
            if length <= 5 and env._pending_raise:
                ctx.sample({"sequence": env.log, "numpy_error_configuration": sent.cfg_name, "mesh": desc["mesh"],
                            "checked_after_every_step": "argument arrays, caller arrays, sibling boxes, mesh, numpy.geterr()"})
            _clean_scratch()
    finally:
        _clean_scratch()
        _flush_evals(ctx, base)


# =============================================================================================== anchors (pinned tiny histories)
def run_anchor(desc, ctx):
    from mouette import Vec, geometry as G
    from mouette.geometry import AABB
    import mouette.mesh as Mmesh
    from .. import build
    sent = Sentinel(ctx, desc["cfg"])
    name = desc["name"]
    log = []

    def do(text, site, fn, *a, modifies=(), **k):
        ok, v = sent.call(site, fn, *a, expect=(Exception,), modifies=modifies, law_monitor="seq", **k)
        ctx.obs("seq", "steps")
        log.append(text if ok else "%s  -> raises %s" % (text, type(v).__name__))
        return ok, v

    if name == "normalized_errstate":
        do("Vec.normalized(Vec(3,4,0))", "Vec.normalized", Vec.normalized, Vec(3., 4., 0.))
        do("Vec.normalized(Vec(0,0,0))", "Vec.normalized", Vec.normalized, Vec(0., 0., 0.))
        do("cotan((1,0,0),(0,0,0),(1,1,0))", "cotan", G.cotan, Vec(1., 0., 0.), Vec(0., 0., 0.), Vec(1., 1., 0.))
    elif name == "pad_aliasing":
        lo, hi = np.zeros(3), np.ones(3)
        sent.watch("lo", lo, "caller_array")
        sent.watch("hi", hi, "caller_array")
        ok, a = do("a = AABB(lo, hi)   # lo = zeros(3), hi = ones(3)", "AABB", AABB, lo, hi)
        ok2, b = do("b = AABB(lo, hi)", "AABB", AABB, lo, hi)
        if ok and ok2:
            sent.watch("a", a, "sibling_box")
            sent.watch("b", b, "sibling_box")
            do("a.pad(0.5)", "AABB.pad", a.pad, 0.5, modifies=(a,))
            do("a.pad([1,1])  # wrong dimension", "AABB.pad", a.pad, [1., 1.], modifies=(a,))
            do("b.contains_point(lo)", "AABB.contains_point", b.contains_point, lo)
    else:
        tmp = _scratch()
        try:
            V = [[0., 0., 0.], [1., 0., 0.], [1., 1., 0.], [0., 1., 0.5]]
            m = build.surface(V, [[0, 1, 2], [0, 2, 3]])
            sent.watch("mesh", m, "mesh")
            do("AABB.of_mesh(m)", "AABB.of_mesh", AABB.of_mesh, m)
            do("save(m, 'm.obj')", "mesh.save", Mmesh.save, m, os.path.join(tmp, "a.obj"))
            do("save(m, 'm.obj', ignore_elements={'faces'})", "mesh.save", Mmesh.save, m, os.path.join(tmp, "b.obj"), ignore_elements={"faces"})
            do("save(m, 'm.unknown')", "mesh.save", Mmesh.save, m, os.path.join(tmp, "c.unknown"))
        finally:
            _clean_scratch()
    ctx.obs("seq", "sequences")
    ctx.nontrivial("anchor:" + name)
    ctx.sample({"sequence": log, "numpy_error_configuration": desc["cfg"],
                "checked_after_every_step": "argument arrays, caller arrays, sibling boxes, mesh, numpy.geterr()"})


# =============================================================================================== entry
_RUN = {"aabb": run_aabb, "vec": run_vec, "rot": run_rot, "angle": run_angle, "maths": run_maths, "seq": run_seq, "anchor": run_anchor}


def run_case(desc, ctx):
    worker_init()
    g = desc["gen"]
    ctx.cls("gen:" + g)
    ctx.cls("cfg:" + desc.get("cfg", "warn"))
    if "dim" in desc and g in ("aabb", "seq"):
        ctx.cls("dim:%d" % desc["dim"])
    if "mag" in desc:
        ctx.cls("mag:" + desc["mag"])
    try:
        _RUN[g](desc, ctx)
    finally:
        np.seterr(**HARNESS_ERR)
