"""Runs one shard of cases of one property in a fresh interpreter.

usage: python -m mv.worker <Cxx> <shard.json> <out.jsonl>

One JSON line is streamed per case start and per case end, so that the runner can attribute a native
crash or a hang to the case that was executing.
"""
import faulthandler
import importlib
import json
import logging
import os
import random
import signal
import sys
import time
import traceback
import warnings

import numpy as np

from . import linecov
from .ctx import Ctx, CaseAbort, CaseTimeout, StepBudgetExceeded, mouette_site


def _alarm(signum, frame):
    raise CaseTimeout()


def main():
    prop, shard_path, out_path = sys.argv[1:4]
    faulthandler.enable(file=sys.stderr, all_threads=True)
    warnings.simplefilter("ignore")
    logging.disable(logging.CRITICAL)
    with open(shard_path) as f:
        shard = json.load(f)
    repo = os.environ.get("MOUETTE_REPO", "/repo")
    cov_on = os.environ.get("VERIF_LINECOV", "1") != "0" and linecov.start(repo)
    mod = importlib.import_module("mv.props." + prop.lower())
    import mouette  # noqa
    mfile = os.path.realpath(mouette.__file__)
    if not mfile.startswith(os.path.realpath(repo) + os.sep):
        print("worker: mouette imported from %s, not from %s" % (mfile, repo), file=sys.stderr)
        sys.exit(97)
    try:
        from mouette.utils import logger as _lg  # silence library chatter if present
        for name in dir(_lg):
            pass
    except Exception:
        pass
    # the per-case watchdog counts CPU time of this process (ITIMER_PROF), not wall-clock time: a case that loops burns CPU and is stopped,
    # a case that merely waits for a core on a loaded machine is not
    signal.signal(signal.SIGPROF, _alarm)
    signal.signal(signal.SIGALRM, _alarm)
    case_timeout = float(shard.get("case_timeout", 120.0))
    out = open(out_path, "a", buffering=1)
    if hasattr(mod, "worker_init"):
        mod.worker_init()
    for idx, desc in shard["cases"]:
        out.write(json.dumps({"t": "start", "i": idx}) + "\n")
        out.flush()
        ctx = Ctx(prop, desc)
        seed = int(desc.get("seed", 0)) & 0x7FFFFFFF
        random.seed(seed)
        np.random.seed(seed)
        np.seterr(all="warn")
        t0 = time.time()
        status = "ok"
        err = None
        signal.setitimer(signal.ITIMER_PROF, case_timeout)
        signal.setitimer(signal.ITIMER_REAL, case_timeout * 20 + 600)  # generous wall-clock backstop
        try:
            with warnings.catch_warnings():
                warnings.simplefilter("ignore")
                dup = os.environ.get("VERIF_DUPWARN")
                if dup == "1" or (dup is None and getattr(mod, "DUPLICATE_WARNING_SWITCH_SHARE", 5) and seed % getattr(mod, "DUPLICATE_WARNING_SWITCH_SHARE", 5) == 1):
                    # global switch config.display_duplicate_attribute_warning = True for this case (restored afterwards)
                    from . import build as _build
                    ctx.cls("config:display_duplicate_attribute_warning=True")
                    with _build.config(display_duplicate_attribute_warning=True):
                        mod.run_case(desc, ctx)
                else:
                    mod.run_case(desc, ctx)
        except CaseAbort:
            status = "aborted"
        except CaseTimeout:
            status = "timeout"
        except StepBudgetExceeded as e:
            status = "budget"
            err = str(e)
        except BaseException as e:  # harness failure or exception escaping an unguarded call
            if isinstance(e, (KeyboardInterrupt, SystemExit)):
                raise
            site = mouette_site(e.__traceback__)
            tb = traceback.format_exc()
            if site is not None:
                # raised inside mouette while the harness was not expecting any exception
                ctx.violation("call", "unguarded", "exception:%s@%s" % (type(e).__name__, site),
                              "unexpected %s: %s" % (type(e).__name__, str(e)[:200]), traceback=tb[-1800:])
                status = "aborted"
            else:
                status = "harness_error"
                err = tb[-2500:]
        finally:
            signal.setitimer(signal.ITIMER_PROF, 0)
            signal.setitimer(signal.ITIMER_REAL, 0)
        rec = {"t": "end", "i": idx, "status": status, "err": err, "dt": round(time.time() - t0, 4),
               "counters": ctx.counters, "classes": ctx.classes, "notes": ctx.notes,
               "violations": ctx.violations, "samples": ctx.samples, "nontrivial": ctx.nontrivial_keys,
               "info": ctx.info}
        if cov_on:
            rec["cov"] = linecov.drain()
        out.write(json.dumps(rec) + "\n")
        out.flush()
    out.write(json.dumps({"t": "done"}) + "\n")
    out.close()


if __name__ == "__main__":
    main()
