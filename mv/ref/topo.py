"""Reference topology analyser for polygon surfaces, working from the face list alone (no mouette import)."""


def directed_edges(F):
    for fi, f in enumerate(F):
        n = len(f)
        for k in range(n):
            yield (f[k], f[(k + 1) % n]), fi, k


def analyse(nV, F):
    """Returns a dict: valid_indices, oriented, edge_manifold, vertex_manifold, manifold, n_components,
    border_loops (list of cyclic vertex lists), chi, closed, used_vertices, n_edges, degenerate_faces, repeated_faces."""
    res = {}
    F = [list(map(int, f)) for f in F]
    res["valid_indices"] = all(0 <= v < nV for f in F for v in f)
    res["degenerate_faces"] = sum(1 for f in F if len(set(f)) != len(f) or len(f) < 3)
    keys = [tuple(sorted(f)) for f in F]
    res["repeated_faces"] = len(keys) - len(set(keys))
    de = {}
    oriented = True
    for (e, fi, k) in directed_edges(F):
        if e in de:
            oriented = False
        de.setdefault(e, []).append((fi, k))
    res["oriented"] = oriented
    und = {}
    for (u, v), lst in de.items():
        und.setdefault((min(u, v), max(u, v)), []).extend(fi for fi, _ in lst)
    res["n_edges"] = len(und)
    res["edge_manifold"] = all(len(l) <= 2 for l in und.values())
    used = sorted({v for f in F for v in f})
    res["used_vertices"] = used
    res["unused_vertices"] = nV - len(used)
    # vertex fans
    v2f = {}
    for fi, f in enumerate(F):
        for v in f:
            v2f.setdefault(v, []).append(fi)
    vertex_manifold = res["edge_manifold"]
    if vertex_manifold:
        for v, fl in v2f.items():
            if len(fl) == 1:
                continue
            # faces adjacent at v when they share an edge containing v
            adj = {fi: set() for fi in fl}
            for fi in fl:
                f = F[fi]
                n = len(f)
                k = f.index(v)
                for w in (f[(k + 1) % n], f[(k - 1) % n]):
                    for fj in und[(min(v, w), max(v, w))]:
                        if fj != fi:
                            adj[fi].add(fj)
            seen = {fl[0]}
            st = [fl[0]]
            while st:
                x = st.pop()
                for y in adj[x]:
                    if y not in seen:
                        seen.add(y)
                        st.append(y)
            if len(seen) != len(set(fl)):
                vertex_manifold = False
                break
    res["vertex_manifold"] = vertex_manifold
    res["manifold"] = bool(res["valid_indices"] and res["edge_manifold"] and vertex_manifold
                           and res["degenerate_faces"] == 0)
    # components over faces (via shared edges) -- for a manifold surface equals vertex connectivity
    parent = list(range(len(F)))

    def find(x):
        while parent[x] != x:
            parent[x] = parent[parent[x]]
            x = parent[x]
        return x
    for l in und.values():
        for a in l[1:]:
            ra, rb = find(l[0]), find(a)
            if ra != rb:
                parent[ra] = rb
    res["n_components"] = len({find(i) for i in range(len(F))})
    res["face_component"] = [find(i) for i in range(len(F))]
    # border loops: directed border edges (u,v) whose reverse is absent
    nxt = {}
    ok_border = True
    for (u, v) in de:
        if (v, u) not in de:
            if u in nxt:
                ok_border = False
            nxt[u] = v
    loops = []
    if ok_border:
        seen = set()
        for s in sorted(nxt):
            if s in seen:
                continue
            loop = [s]
            seen.add(s)
            x = nxt[s]
            guard = 0
            while x != s and guard <= len(nxt):
                if x not in nxt or x in seen:
                    ok_border = False
                    break
                loop.append(x)
                seen.add(x)
                x = nxt[x]
                guard += 1
            loops.append(loop)
    res["border_ok"] = ok_border
    res["border_loops"] = loops
    res["border_edges"] = sorted((min(u, v), max(u, v)) for (u, v) in de if (v, u) not in de)
    res["closed"] = len(res["border_edges"]) == 0
    res["chi"] = len(used) - len(und) - 0 + len(F)
    return res


def is_disk(a):
    return a["manifold"] and a["oriented"] and a["n_components"] == 1 and len(a["border_loops"]) == 1 and a["chi"] == 1


def edges_of(F):
    s = set()
    for f in F:
        n = len(f)
        for k in range(n):
            u, v = f[k], f[(k + 1) % n]
            s.add((min(u, v), max(u, v)))
    return s
